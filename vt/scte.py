"""Independent SCTE-35 splice_info_section decoder (ANSI/SCTE 35, section 9 and 10).

Nothing here comes from the code under test: stdlib only.  The decoder follows the bit
syntax tables of the standard (clause 9: splice_info_section, the splice commands and the
time structures; clause 10: splice descriptors) literally, top to bottom:

  splice_info_section()
  splice_null 0x00, splice_schedule 0x04, splice_insert 0x05, time_signal 0x06,
  bandwidth_reservation 0x07, private_command 0xff
  splice_time(), break_duration()
  avail 0x00, DTMF 0x01, segmentation 0x02, time 0x03, audio 0x04 descriptors; every other
  tag is returned as raw private bytes

CRC-32/MPEG-2: polynomial 0x04C11DB7, initial value 0xFFFFFFFF, not reflected, no final
xor; a section that includes its CRC_32 field has residue 0.

decode_section(data) -> plain dict (ints, bools, bytes, lists, dicts):

  table_id, section_syntax_indicator, private_indicator, sap_type, section_length,
  protocol_version, encrypted_packet, encryption_algorithm, pts_adjustment, cw_index, tier,
  splice_command_length, splice_command_type, command_name, command, descriptor_loop_length,
  descriptors, crc_32,
  crc_ok       CRC-32/MPEG-2 over the whole section (CRC_32 included) is 0
  length_ok    section_length + 3 == len(data)
  reserved_ok  every reserved bit that was walked is 1

  command, splice_insert: splice_event_id, cancel and, unless cancelled, out_of_network,
      program_splice, duration_flag, immediate, splice_time {time_specified, pts} | None,
      components [{tag, splice_time | None}], break_duration {auto_return, duration} | None,
      unique_program_id, avail_num, avails_expected
  command, time_signal: splice_time {time_specified, pts}
  command, splice_schedule: splices [{splice_event_id, cancel, out_of_network, program_splice,
      duration_flag, utc_splice_time | None, components [{tag, utc_splice_time}],
      break_duration | None, unique_program_id, avail_num, avails_expected}]
  command, private_command: identifier, private_bytes;   splice_null, bandwidth_reservation: {}
  descriptors: [{tag, name, length, identifier, <fields of the descriptor>, trailing, reserved_ok}]
      segmentation: segmentation_event_id, cancel, program_segmentation, duration_flag,
      delivery_not_restricted, web_delivery_allowed, no_regional_blackout, archive_allowed,
      device_restrictions (None when delivery is not restricted), components [{tag, pts_offset}],
      segmentation_duration | None, upid_type, upid, segmentation_type_id, segment_num,
      segments_expected, sub_segment_num | None, sub_segments_expected | None

With encrypted_packet set, command and descriptors are None and encrypted_payload holds the
cipher text.  ScteError (attributes kind, where) is raised when the bytes cannot be walked
with the syntax: truncation, or a length field that contradicts the fields it covers.  A
wrong CRC or a section_length that does not cover the buffer exactly are NOT errors: they
are reported as crc_ok / length_ok.
"""
from __future__ import annotations

__all__ = ["ScteError", "crc32_mpeg2", "decode_section", "COMMAND_NAMES"]

COMMAND_NAMES = {0x00: "splice_null", 0x04: "splice_schedule", 0x05: "splice_insert",
                 0x06: "time_signal", 0x07: "bandwidth_reservation", 0xFF: "private_command"}
DESCRIPTOR_NAMES = {0: "avail_descriptor", 1: "DTMF_descriptor", 2: "segmentation_descriptor",
                    3: "time_descriptor", 4: "audio_descriptor"}
# segmentation_type_id values that are followed by sub_segment_num / sub_segments_expected
# (0x34/0x36 since 2016, 0x38/0x3A since 2019, the ad and ad-block starts since 2022); the two
# bytes are optional, descriptor_length tells whether they are there.
SUB_SEGMENT_TYPES = frozenset((0x30, 0x32, 0x34, 0x36, 0x38, 0x3A, 0x44, 0x46))


class ScteError(ValueError):
    """kind: truncated | section-length | command-length | loop-length | descriptor-length |
    unaligned; where: 'section', a command name or a descriptor name."""

    def __init__(self, kind: str, message: str, where: str = "section"):
        super().__init__(f"{where}: {kind}: {message}")
        self.kind = kind
        self.where = where


# --------------------------------------------------------------------------
# CRC-32/MPEG-2

def _make_table():
    table = []
    for i in range(256):
        c = i << 24
        for _ in range(8):
            c = ((c << 1) ^ 0x04C11DB7) if (c & 0x80000000) else (c << 1)
        table.append(c & 0xFFFFFFFF)
    return table


_TABLE = _make_table()


def crc32_mpeg2(data: bytes) -> int:
    crc = 0xFFFFFFFF
    for b in bytes(data):
        crc = ((crc << 8) & 0xFFFFFFFF) ^ _TABLE[(crc >> 24) ^ b]
    return crc


# --------------------------------------------------------------------------
# bit cursor over [start, end) bytes of a buffer

class _Bits:
    __slots__ = ("value", "nbits", "pos", "end", "reserved_ok", "what", "overrun")

    def __init__(self, data: bytes, start: int, end: int, what: str, overrun: str = "truncated"):
        self.value = int.from_bytes(data, "big")
        self.nbits = 8 * len(data)
        self.pos = 8 * start
        self.end = 8 * end
        self.reserved_ok = True
        self.what = what              # whose fields are being read
        self.overrun = overrun        # error kind when the fields need more than [start, end)

    def u(self, k: int) -> int:
        if self.pos + k > self.end:
            raise ScteError(self.overrun, f"{k} bits needed at bit {self.pos}, limit is bit {self.end}", self.what)
        v = (self.value >> (self.nbits - self.pos - k)) & ((1 << k) - 1)
        self.pos += k
        return v

    def flag(self) -> bool:
        return bool(self.u(1))

    def reserved(self, k: int) -> None:
        if self.u(k) != (1 << k) - 1:
            self.reserved_ok = False

    def raw(self, n: int) -> bytes:
        if self.pos % 8:
            raise ScteError("unaligned", f"byte string at bit {self.pos}", self.what)
        return self.u(8 * n).to_bytes(n, "big") if n else b""

    def bytepos(self) -> int:
        if self.pos % 8:
            raise ScteError("unaligned", f"structure ends at bit {self.pos}", self.what)
        return self.pos // 8

    def left(self) -> int:
        return self.end - self.pos


# --------------------------------------------------------------------------
# 9.8 time structures

def _splice_time(r: _Bits) -> dict:
    if r.flag():                       # time_specified_flag
        r.reserved(6)
        return {"time_specified": True, "pts": r.u(33)}
    r.reserved(7)
    return {"time_specified": False, "pts": None}


def _break_duration(r: _Bits) -> dict:
    auto_return = r.flag()
    r.reserved(6)
    return {"auto_return": auto_return, "duration": r.u(33)}


# --------------------------------------------------------------------------
# 9.7 commands

def _splice_insert(r: _Bits) -> dict:
    c: dict = {"splice_event_id": r.u(32), "cancel": r.flag()}
    r.reserved(7)
    if c["cancel"]:
        return c
    c["out_of_network"] = r.flag()
    c["program_splice"] = r.flag()
    c["duration_flag"] = r.flag()
    c["immediate"] = r.flag()
    r.reserved(4)
    c["splice_time"] = None
    c["components"] = []
    if c["program_splice"] and not c["immediate"]:
        c["splice_time"] = _splice_time(r)
    if not c["program_splice"]:
        for _ in range(r.u(8)):        # component_count
            comp = {"tag": r.u(8), "splice_time": None}
            if not c["immediate"]:
                comp["splice_time"] = _splice_time(r)
            c["components"].append(comp)
    c["break_duration"] = _break_duration(r) if c["duration_flag"] else None
    c["unique_program_id"] = r.u(16)
    c["avail_num"] = r.u(8)
    c["avails_expected"] = r.u(8)
    return c


def _splice_schedule(r: _Bits) -> dict:
    splices = []
    for _ in range(r.u(8)):            # splice_count
        s: dict = {"splice_event_id": r.u(32), "cancel": r.flag()}
        r.reserved(7)
        if not s["cancel"]:
            s["out_of_network"] = r.flag()
            s["program_splice"] = r.flag()
            s["duration_flag"] = r.flag()
            r.reserved(5)
            s["utc_splice_time"] = None
            s["components"] = []
            if s["program_splice"]:
                s["utc_splice_time"] = r.u(32)
            else:
                for _c in range(r.u(8)):
                    s["components"].append({"tag": r.u(8), "utc_splice_time": r.u(32)})
            s["break_duration"] = _break_duration(r) if s["duration_flag"] else None
            s["unique_program_id"] = r.u(16)
            s["avail_num"] = r.u(8)
            s["avails_expected"] = r.u(8)
        splices.append(s)
    return {"splices": splices}


def _command(r: _Bits, ctype: int, clen: int | None) -> dict:
    """clen is None when splice_command_length carries the legacy value 0xFFF."""
    if ctype in (0x00, 0x07):
        return {}
    if ctype == 0x04:
        return _splice_schedule(r)
    if ctype == 0x05:
        return _splice_insert(r)
    if ctype == 0x06:
        return {"splice_time": _splice_time(r)}
    if ctype == 0xFF:
        if clen is None:
            raise ScteError("command-length", "0xFFF: extent unknown", "private_command")
        if clen < 4:
            raise ScteError("command-length", "shorter than the identifier", "private_command")
        return {"identifier": r.u(32), "private_bytes": r.raw(clen - 4)}
    if clen is None:
        raise ScteError("command-length", f"0xFFF with reserved splice_command_type 0x{ctype:02x}", "reserved")
    return {"raw": r.raw(clen)}


# --------------------------------------------------------------------------
# 10 descriptors

def _segmentation(r: _Bits, d: dict) -> None:
    d["segmentation_event_id"] = r.u(32)
    d["cancel"] = r.flag()
    r.reserved(7)
    if d["cancel"]:
        return
    d["program_segmentation"] = r.flag()
    d["duration_flag"] = r.flag()
    d["delivery_not_restricted"] = r.flag()
    if d["delivery_not_restricted"]:
        r.reserved(5)
        d["web_delivery_allowed"] = d["no_regional_blackout"] = d["archive_allowed"] = None
        d["device_restrictions"] = None
    else:
        d["web_delivery_allowed"] = r.flag()
        d["no_regional_blackout"] = r.flag()
        d["archive_allowed"] = r.flag()
        d["device_restrictions"] = r.u(2)
    d["components"] = []
    if not d["program_segmentation"]:
        for _ in range(r.u(8)):        # component_count
            tag = r.u(8)
            r.reserved(7)
            d["components"].append({"tag": tag, "pts_offset": r.u(33)})
    d["segmentation_duration"] = r.u(40) if d["duration_flag"] else None
    d["upid_type"] = r.u(8)
    d["upid"] = r.raw(r.u(8))
    d["segmentation_type_id"] = r.u(8)
    d["segment_num"] = r.u(8)
    d["segments_expected"] = r.u(8)
    d["sub_segment_num"] = d["sub_segments_expected"] = None
    # The two sub-segment bytes follow these type ids; sections made before they were
    # introduced end here, which descriptor_length tells.
    if d["segmentation_type_id"] in SUB_SEGMENT_TYPES and r.left() >= 16:
        d["sub_segment_num"] = r.u(8)
        d["sub_segments_expected"] = r.u(8)


def _descriptor(data: bytes, pos: int, loop_end: int) -> tuple[dict, int]:
    if pos + 2 > loop_end:
        raise ScteError("loop-length", "a descriptor header crosses the end of the descriptor loop")
    tag, length = data[pos], data[pos + 1]
    name = DESCRIPTOR_NAMES.get(tag, "private_descriptor")
    end = pos + 2 + length
    if end > loop_end:
        raise ScteError("loop-length", f"descriptor_length {length} crosses the end of the descriptor loop", name)
    r = _Bits(data, pos + 2, end, name, "descriptor-length")
    d: dict = {"tag": tag, "name": name, "length": length, "identifier": r.u(32)}
    if tag == 0:
        d["provider_avail_id"] = r.u(32)
    elif tag == 1:
        d["preroll"] = r.u(8)
        count = r.u(3)
        r.reserved(5)
        d["dtmf_chars"] = r.raw(count)
    elif tag == 2:
        _segmentation(r, d)
    elif tag == 3:
        d["tai_seconds"] = r.u(48)
        d["tai_ns"] = r.u(32)
        d["utc_offset"] = r.u(16)
    elif tag == 4:
        count = r.u(4)
        r.reserved(4)
        d["audio_components"] = [
            {"tag": r.u(8), "iso_code": r.u(24), "bit_stream_mode": r.u(3), "num_channels": r.u(4),
             "full_srvc_audio": r.flag()} for _ in range(count)]
    else:
        d["private_bytes"] = r.raw(length - 4)
    # bytes the descriptor_length covers beyond the fields of the syntax
    d["trailing"] = r.raw(r.left() // 8) if r.left() else b""
    d["reserved_ok"] = r.reserved_ok
    return d, end


# --------------------------------------------------------------------------
# 9.6 splice_info_section

def decode_section(data: bytes) -> dict:
    data = bytes(data)
    if len(data) < 3:
        raise ScteError("truncated", "no section header")
    h = _Bits(data, 0, 3, "section header")
    out: dict = {"table_id": h.u(8), "section_syntax_indicator": h.flag(), "private_indicator": h.flag(),
                 "sap_type": h.u(2), "section_length": h.u(12)}
    total = 3 + out["section_length"]
    out["length_ok"] = total == len(data)
    if total > len(data):
        raise ScteError("truncated", f"section_length {out['section_length']} needs {total} bytes, have {len(data)}")
    if out["section_length"] < 11 + 2 + 4:
        raise ScteError("section-length", f"{out['section_length']} cannot hold the fixed fields")
    sec = data[:total]
    out["crc_32"] = int.from_bytes(sec[-4:], "big")
    out["crc_ok"] = crc32_mpeg2(sec) == 0
    body_end = total - 4                                  # CRC_32 excluded
    r = _Bits(sec, 3, body_end, "section")
    out["protocol_version"] = r.u(8)
    out["encrypted_packet"] = r.flag()
    out["encryption_algorithm"] = r.u(6)
    out["pts_adjustment"] = r.u(33)
    out["cw_index"] = r.u(8)
    out["tier"] = r.u(12)
    out["splice_command_length"] = r.u(12)
    out["splice_command_type"] = None
    out["command_name"] = None
    out["command"] = None
    out["descriptor_loop_length"] = None
    out["descriptors"] = None
    out["reserved_ok"] = True
    if out["encrypted_packet"]:
        # splice_command_type .. E_CRC_32 are cipher text
        out["encrypted_payload"] = sec[r.bytepos():body_end]
        return out
    out["splice_command_type"] = ctype = r.u(8)
    out["command_name"] = cname = COMMAND_NAMES.get(ctype, "reserved")
    r.what = cname
    clen = None if out["splice_command_length"] == 0xFFF else out["splice_command_length"]
    start = r.bytepos()
    if clen is not None:
        if start + clen > body_end - 2:
            raise ScteError("command-length", f"{clen} leaves no room for descriptor_loop_length", cname)
        c = _Bits(sec, start, start + clen, cname, "command-length")
        out["command"] = _command(c, ctype, clen)
        if c.left():
            raise ScteError("command-length", f"{clen} but the fields end {c.left()} bits earlier", cname)
        out["reserved_ok"] = c.reserved_ok
        r.pos = 8 * (start + clen)
    else:
        out["command"] = _command(r, ctype, None)
        r.bytepos()
        out["reserved_ok"] = r.reserved_ok
    r.what = "section"
    out["descriptor_loop_length"] = r.u(16)
    pos = r.bytepos()
    loop_end = pos + out["descriptor_loop_length"]
    if loop_end != body_end:
        raise ScteError("loop-length", f"descriptor_loop_length {out['descriptor_loop_length']} ends at byte "
                        f"{loop_end}, CRC_32 starts at byte {body_end}")
    out["descriptors"] = []
    while pos < loop_end:
        d, pos = _descriptor(sec, pos, loop_end)
        out["descriptors"].append(d)
        out["reserved_ok"] = out["reserved_ok"] and d["reserved_ok"]
    return out


# --------------------------------------------------------------------------
# self-test: the binary examples of /repo/tests/test_scte35.py (copied here as text, the
# values are the ones those tests assert), the 14.1 example of the standard, and
# hand-assembled sections for the syntax branches the examples do not reach.

if __name__ == "__main__":
    import base64

    class _W:
        def __init__(self):
            self.bits = ""

        def u(self, k, v):
            assert 0 <= v < (1 << k), (k, v)
            self.bits += format(v, f"0{k}b") if k else ""
            return self

        def raw(self, b):
            for x in b:
                self.u(8, x)
            return self

        def bytes(self):
            assert len(self.bits) % 8 == 0, len(self.bits)
            return int(self.bits, 2).to_bytes(len(self.bits) // 8, "big") if self.bits else b""

    def section(ctype, command: bytes, descriptors: bytes = b"", pts_adjustment=0, tier=0xFFF, cw=0xFF,
                clen=None):
        body = _W().u(8, 0).u(1, 0).u(6, 0).u(33, pts_adjustment).u(8, cw).u(12, tier)
        body.u(12, len(command) if clen is None else clen).u(8, ctype).raw(command)
        body.u(16, len(descriptors)).raw(descriptors)
        b = body.bytes()
        head = _W().u(8, 0xFC).u(1, 0).u(1, 0).u(2, 3).u(12, len(b) + 4).bytes()
        return head + b + crc32_mpeg2(head + b).to_bytes(4, "big")

    checks = 0

    def eq(got, want, what):
        global checks
        checks += 1
        assert got == want, f"{what}: got {got!r} want {want!r}"

    # CRC check value of the CRC catalogue for CRC-32/MPEG-2
    eq(crc32_mpeg2(b"123456789"), 0x0376E6E7, "crc check value")

    T = 90000 / 10000000.0
    repo_cases = [
        # (name, input, header expectations, splice_insert expectations)
        ("14.2 splice_insert", "/DAvAAAAAAAA///wFAVIAACPf+/+c2nALv4AUsz1AAAAAAAKAAhDVUVJAAABNWLbowo=",
         dict(table_id=0xFC, private_indicator=False, section_length=47, protocol_version=0,
              encrypted_packet=False, pts_adjustment=0, tier=0xFFF, splice_command_length=0x14,
              splice_command_type=5, crc_32=0x62DBA30A),
         dict(splice_event_id=0x4800008F, cancel=False, out_of_network=True, program_splice=True,
              duration_flag=True, immediate=False, splice_time={"time_specified": True, "pts": 0x07369C02E},
              break_duration={"auto_return": True, "duration": 0x00052CCF5}, avail_num=0, avails_expected=0,
              unique_program_id=0)),
        ("DASH 400063803", "/DAlAAAAAA4QAP/wFAVCaTagf+/+iWAjMP4BSZFQxhQCAwAAQ6Xd5w==",
         dict(table_id=0xFC, cw_index=0, pts_adjustment=3600),
         dict(splice_event_id=0x426936A0, unique_program_id=0xC614, program_splice=True, immediate=False,
              avail_num=2, avails_expected=3,
              break_duration={"auto_return": True, "duration": int(round(2399838222.0 * T))},
              splice_time={"time_specified": True, "pts": 2304779056})),
        ("DASH 325059779", "/DAlAAAAAA4QAP/wFAUDin0Jf+/+ibKI8P4AKS0wBhQDCAAAq6YflA==",
         dict(cw_index=0, pts_adjustment=3600),
         dict(splice_event_id=0x38A7D09, unique_program_id=0x614, avail_num=3, avails_expected=8,
              break_duration={"auto_return": True, "duration": int(round(299838222.0 * T))},
              splice_time={"time_specified": True, "pts": 2310179056})),
        ("DASH 3116305481", "/DAlAAAAAA4QAP/wFAUDin0Kf+/+idu70P4AKS0wBhQECAAAqX1jjQ==",
         dict(cw_index=0, pts_adjustment=3600),
         dict(splice_event_id=0x38A7D0A, unique_program_id=0x614, avail_num=4, avails_expected=8,
              break_duration={"auto_return": True, "duration": int(round(299838222.0 * T))},
              splice_time={"time_specified": True, "pts": 2312879056})),
        ("DASH 176443115", "/DAlAAAAAA4QAP/wFAUDjfWzf+/+igTusP4AKS0wBhQFCAAAUfpPSg==",
         dict(cw_index=0, pts_adjustment=3600),
         dict(splice_event_id=0x38DF5B3, unique_program_id=0x614, avail_num=5, avails_expected=8,
              break_duration={"auto_return": True, "duration": int(round(299838222.0 * T))},
              splice_time={"time_specified": True, "pts": 2315579056})),
        ("DASH 1340092364", "/DAlAAAAAA4QAP/wFAUDjfogf+/+ii4hkP4AKS0wBhQGCAAAmZLEyA==",
         dict(cw_index=0, pts_adjustment=3600),
         dict(splice_event_id=0x38DFA20, unique_program_id=0x614, avail_num=6, avails_expected=8,
              break_duration={"auto_return": True, "duration": int(round(299838222.0 * T))},
              splice_time={"time_specified": True, "pts": 2318279056})),
        ("DASH 4093099307", "/DAlAAAAAA4QAP/wFAUDin0Gf+/+iYlWEP4AKS0wBhQCCAAATqxqgQ==",
         dict(cw_index=0, pts_adjustment=3600),
         dict(splice_event_id=0x38A7D06, unique_program_id=1556, avail_num=2, avails_expected=8,
              break_duration={"auto_return": True, "duration": int(round(299838222.0 * T))},
              splice_time={"time_specified": True, "pts": 2307479056})),
        ("DASH 3231984362", "/DAlAAAAAA4QAP/wFAVCaTavf+/+jrfvcP4BSZFQxlQDAwAA/xNaEQ==",
         dict(cw_index=0, pts_adjustment=3600),
         dict(splice_event_id=0x426936AF, unique_program_id=50772, avail_num=3, avails_expected=3,
              break_duration={"auto_return": True, "duration": int(round(2399838222.0 * T))},
              splice_time={"time_specified": True, "pts": 2394419056})),
        ("DASH 1505300925", "/DAlAAAAAA4QAP/wFAUDin0Yf+/+j1y68P4AUmAQBlQGBwAAh0Grdg==",
         dict(cw_index=0, pts_adjustment=3600),
         dict(splice_event_id=0x38A7D18, unique_program_id=1620, avail_num=6, avails_expected=7,
              break_duration={"auto_return": True, "duration": int(round(599838222.0 * T))},
              splice_time={"time_specified": True, "pts": 2405219056})),
        ("DASH 1182175218", "/DAlAAAAAA4QAP/wFAUDjwlrf+/+j68gsP4AUmAQBlQHBwAAA123CQ==",
         dict(cw_index=0, pts_adjustment=3600),
         dict(splice_event_id=0x38F096B, unique_program_id=1620, avail_num=7, avails_expected=7,
              break_duration={"auto_return": True, "duration": int(round(599838222.0 * T))},
              splice_time={"time_specified": True, "pts": 2410619056})),
    ]
    for name, text, head, cmd in repo_cases:
        raw = base64.b64decode(text)
        s = decode_section(raw)
        eq((s["crc_ok"], s["length_ok"], s["reserved_ok"]), (True, True, True), name + " crc/length/reserved")
        eq(s["command_name"], "splice_insert", name)
        eq(s["crc_32"], crc32_mpeg2(raw[:-4]), name + " crc value")
        for k, v in head.items():
            eq(s[k], v, f"{name} {k}")
        for k, v in cmd.items():
            eq(s["command"][k], v, f"{name} splice_insert.{k}")
    s = decode_section(base64.b64decode(repo_cases[0][1]))
    eq(len(s["descriptors"]), 1, "14.2 descriptor count")
    d = s["descriptors"][0]
    eq((d["tag"], d["length"], d["identifier"], d["provider_avail_id"], d["trailing"]),
       (0, 8, 0x43554549, 0x135, b""), "14.2 avail_descriptor")

    raw = base64.b64decode("/DAvAAAAAAAA///wBQb+dGKQoAAZAhdDVUVJSAAAjn+fCAgAAAAALKChijUCAKnMZ1g=")
    s = decode_section(raw)
    eq((s["crc_ok"], s["length_ok"], s["reserved_ok"]), (True, True, True), "14.3 crc/length/reserved")
    for k, v in dict(table_id=0xFC, private_indicator=False, section_length=47, protocol_version=0,
                     encrypted_packet=False, pts_adjustment=0, tier=0xFFF, splice_command_length=5,
                     splice_command_type=6, crc_32=0xA9CC6758).items():
        eq(s[k], v, "14.3 " + k)
    eq(s["command"], {"splice_time": {"time_specified": True, "pts": 0x0746290A0}}, "14.3 time_signal")
    d = s["descriptors"][0]
    for k, v in dict(tag=2, length=23, segmentation_event_id=0x4800008E, segmentation_type_id=0x35,
                     device_restrictions=3, cancel=False, delivery_not_restricted=False,
                     web_delivery_allowed=True, no_regional_blackout=True, archive_allowed=True,
                     program_segmentation=True, upid_type=8, upid=base64.b64decode("AAAAACygoYo="),
                     segment_num=2, segments_expected=0, segmentation_duration=None, sub_segment_num=None,
                     trailing=b"").items():
        eq(d[k], v, "14.3 segmentation." + k)

    # 14.1 of the standard: time_signal + placement opportunity start with a duration
    raw = base64.b64decode("/DA0AAAAAAAA///wBQb+cr0AUAAeAhxDVUVJSAAAjn/PAAGlmbAICAAAAAAsoKGKNAIAmsnRfg==")
    s = decode_section(raw)
    eq((s["crc_ok"], s["length_ok"], s["reserved_ok"]), (True, True, True), "14.1 crc/length/reserved")
    eq(s["command"]["splice_time"]["pts"], 0x072BD0050, "14.1 pts")
    d = s["descriptors"][0]
    eq((d["segmentation_event_id"], d["segmentation_duration"], d["upid_type"], d["upid"].hex(),
        d["segmentation_type_id"], d["segment_num"], d["segments_expected"], d["sub_segment_num"]),
       (0x4800008E, 0x0001A599B0, 8, "000000002ca0a18a", 0x34, 2, 0, None), "14.1 segmentation")

    # ---- hand-assembled sections
    # splice_null, no descriptors
    s = decode_section(section(0x00, b""))
    eq((s["command_name"], s["command"], s["descriptors"], s["crc_ok"], s["length_ok"]),
       ("splice_null", {}, [], True, True), "splice_null")
    # time_signal without a time: one flag bit + 7 reserved bits = exactly one byte
    s = decode_section(section(0x06, _W().u(1, 0).u(7, 0x7F).bytes(), pts_adjustment=(1 << 33) - 1, tier=0, cw=0))
    eq((s["command"], s["pts_adjustment"], s["tier"], s["cw_index"], s["splice_command_length"]),
       ({"splice_time": {"time_specified": False, "pts": None}}, (1 << 33) - 1, 0, 0, 1), "time_signal no time")
    # splice_insert: cancel
    s = decode_section(section(0x05, _W().u(32, 0xFFFFFFFF).u(1, 1).u(7, 0x7F).bytes()))
    eq(s["command"], {"splice_event_id": 0xFFFFFFFF, "cancel": True}, "splice_insert cancel")
    # splice_insert: program mode, immediate, no duration
    w = _W().u(32, 7).u(1, 0).u(7, 0x7F).u(1, 0).u(1, 1).u(1, 0).u(1, 1).u(4, 0xF).u(16, 0xFFFF).u(8, 255).u(8, 255)
    s = decode_section(section(0x05, w.bytes()))
    eq(s["command"], {"splice_event_id": 7, "cancel": False, "out_of_network": False, "program_splice": True,
                      "duration_flag": False, "immediate": True, "splice_time": None, "components": [],
                      "break_duration": None, "unique_program_id": 0xFFFF, "avail_num": 255,
                      "avails_expected": 255}, "splice_insert immediate")
    # splice_insert: component mode, not immediate: each component carries a splice_time()
    w = _W().u(32, 1).u(1, 0).u(7, 0x7F).u(1, 1).u(1, 0).u(1, 1).u(1, 0).u(4, 0xF).u(8, 2)
    w.u(8, 0x11).u(1, 1).u(6, 0x3F).u(33, (1 << 33) - 1)
    w.u(8, 0x22).u(1, 0).u(7, 0x7F)
    w.u(1, 0).u(6, 0x3F).u(33, 1).u(16, 2).u(8, 3).u(8, 4)
    s = decode_section(section(0x05, w.bytes()))
    eq(s["command"]["components"], [{"tag": 0x11, "splice_time": {"time_specified": True, "pts": (1 << 33) - 1}},
                                    {"tag": 0x22, "splice_time": {"time_specified": False, "pts": None}}],
       "splice_insert components")
    eq((s["command"]["break_duration"], s["command"]["unique_program_id"], s["command"]["avail_num"],
        s["command"]["avails_expected"], s["reserved_ok"]),
       ({"auto_return": False, "duration": 1}, 2, 3, 4, True), "splice_insert component tail")
    # splice_insert: component mode, immediate: components are bare tags
    w = _W().u(32, 1).u(1, 0).u(7, 0x7F).u(1, 1).u(1, 0).u(1, 0).u(1, 1).u(4, 0xF).u(8, 2).u(8, 5).u(8, 6)
    w.u(16, 0).u(8, 0).u(8, 0)
    s = decode_section(section(0x05, w.bytes()))
    eq(s["command"]["components"], [{"tag": 5, "splice_time": None}, {"tag": 6, "splice_time": None}],
       "splice_insert immediate components")
    # splice_schedule: one cancel, one program splice with duration, one component splice
    w = _W().u(8, 3)
    w.u(32, 10).u(1, 1).u(7, 0x7F)
    w.u(32, 11).u(1, 0).u(7, 0x7F).u(1, 1).u(1, 1).u(1, 1).u(5, 0x1F).u(32, 0xDEADBEEF)
    w.u(1, 1).u(6, 0x3F).u(33, 900000).u(16, 1).u(8, 2).u(8, 3)
    w.u(32, 12).u(1, 0).u(7, 0x7F).u(1, 0).u(1, 0).u(1, 0).u(5, 0x1F).u(8, 1).u(8, 9).u(32, 5)
    w.u(16, 4).u(8, 5).u(8, 6)
    s = decode_section(section(0x04, w.bytes()))
    sp = s["command"]["splices"]
    eq(sp[0], {"splice_event_id": 10, "cancel": True}, "schedule cancel")
    eq((sp[1]["utc_splice_time"], sp[1]["break_duration"], sp[1]["avails_expected"]),
       (0xDEADBEEF, {"auto_return": True, "duration": 900000}, 3), "schedule program splice")
    eq((sp[2]["components"], sp[2]["break_duration"], sp[2]["unique_program_id"], sp[2]["program_splice"]),
       ([{"tag": 9, "utc_splice_time": 5}], None, 4, False), "schedule component splice")
    # private_command and bandwidth_reservation
    s = decode_section(section(0xFF, b"ABCD\x01\x02"))
    eq(s["command"], {"identifier": 0x41424344, "private_bytes": b"\x01\x02"}, "private_command")
    eq(decode_section(section(0x07, b""))["command_name"], "bandwidth_reservation", "bandwidth_reservation")
    # descriptors: DTMF, time, audio, private, segmentation with components and sub-segments
    cuei = b"CUEI"
    dtmf = bytes([1, 4 + 2 + 3]) + cuei + _W().u(8, 30).u(3, 3).u(5, 0x1F).raw(b"12#").bytes()
    tim = bytes([3, 4 + 12]) + cuei + _W().u(48, (1 << 48) - 1).u(32, 999999999).u(16, 37).bytes()
    aud = bytes([4, 4 + 1 + 5]) + cuei + _W().u(4, 1).u(4, 0xF).u(8, 7).u(24, 0x656E67).u(3, 5).u(4, 9).u(1, 1).bytes()
    prv = bytes([0xF0, 4 + 3]) + b"XYZW" + b"\x00\x01\x02"
    segw = _W().u(32, 99).u(1, 0).u(7, 0x7F).u(1, 0).u(1, 1).u(1, 0).u(1, 0).u(1, 1).u(1, 0).u(2, 2)
    segw.u(8, 2).u(8, 1).u(7, 0x7F).u(33, 1).u(8, 2).u(7, 0x7F).u(33, (1 << 33) - 1)
    segw.u(40, (1 << 40) - 1).u(8, 0x0C).u(8, 3).raw(b"abc").u(8, 0x36).u(8, 1).u(8, 2).u(8, 3).u(8, 4)
    segb = segw.bytes()
    seg = bytes([2, 4 + len(segb)]) + cuei + segb
    cancel = bytes([2, 4 + 5]) + cuei + _W().u(32, 5).u(1, 1).u(7, 0x7F).bytes()
    s = decode_section(section(0x00, b"", dtmf + tim + aud + prv + seg + cancel))
    ds = s["descriptors"]
    eq([x["tag"] for x in ds], [1, 3, 4, 0xF0, 2, 2], "descriptor tags")
    eq((ds[0]["preroll"], ds[0]["dtmf_chars"]), (30, b"12#"), "DTMF")
    eq((ds[1]["tai_seconds"], ds[1]["tai_ns"], ds[1]["utc_offset"]), ((1 << 48) - 1, 999999999, 37), "time")
    eq(ds[2]["audio_components"], [{"tag": 7, "iso_code": 0x656E67, "bit_stream_mode": 5, "num_channels": 9,
                                    "full_srvc_audio": True}], "audio")
    eq((ds[3]["identifier"], ds[3]["private_bytes"]), (0x58595A57, b"\x00\x01\x02"), "private descriptor")
    g = ds[4]
    eq((g["program_segmentation"], g["components"], g["segmentation_duration"], g["upid_type"], g["upid"],
        g["segmentation_type_id"], g["segment_num"], g["segments_expected"], g["sub_segment_num"],
        g["sub_segments_expected"], g["web_delivery_allowed"], g["no_regional_blackout"], g["archive_allowed"],
        g["device_restrictions"], g["trailing"]),
       (False, [{"tag": 1, "pts_offset": 1}, {"tag": 2, "pts_offset": (1 << 33) - 1}], (1 << 40) - 1, 0x0C,
        b"abc", 0x36, 1, 2, 3, 4, False, True, False, 2, b""), "segmentation components")
    eq((ds[5]["segmentation_event_id"], ds[5]["cancel"]), (5, True), "segmentation cancel")
    eq(s["reserved_ok"], True, "reserved bits")

    # ---- failure reporting
    good = section(0x06, _W().u(1, 1).u(6, 0x3F).u(33, 12345).bytes(), dtmf)
    flipped = bytearray(good)
    flipped[9] ^= 0x10
    s = decode_section(bytes(flipped))
    eq((s["crc_ok"], s["length_ok"]), (False, True), "bit flip is seen by the CRC")
    s = decode_section(good + b"\x00")
    eq((s["crc_ok"], s["length_ok"]), (True, False), "trailing byte")

    def raises(buf, kind, where, what):
        global checks
        checks += 1
        try:
            decode_section(buf)
        except ScteError as exc:
            assert (exc.kind, exc.where) == (kind, where), f"{what}: {exc.kind}/{exc.where}"
            return
        raise AssertionError(what + ": no ScteError")

    raises(good[:-1], "truncated", "section", "truncated section")
    raises(b"\xfc\x30", "truncated", "section", "two bytes")
    raises(section(0x06, _W().u(1, 1).u(6, 0x3F).u(33, 1).bytes(), clen=4), "command-length", "time_signal",
           "command length too short")
    raises(section(0x06, _W().u(1, 1).u(6, 0x3F).u(33, 1).bytes() + b"\xff", b""), "command-length", "time_signal",
           "command length too long")
    bad_desc = bytes([0, 9]) + cuei + b"\x00\x00\x00\x01"       # descriptor_length beyond the loop
    raises(section(0x00, b"", bad_desc), "loop-length", "avail_descriptor", "descriptor length beyond loop")
    short = bytes([0, 6]) + cuei + b"\x00\x00"                   # avail_descriptor too short for its field
    raises(section(0x00, b"", short), "descriptor-length", "avail_descriptor", "descriptor shorter than its fields")
    # legacy splice_command_length 0xFFF
    s = decode_section(section(0x06, _W().u(1, 1).u(6, 0x3F).u(33, 77).bytes(), dtmf, clen=0xFFF))
    eq((s["command"]["splice_time"]["pts"], len(s["descriptors"])), (77, 1), "legacy command length")
    print(f"scte.py self-test ok: {checks} checks")
