"""Minimal RFC 5261 <replace> applier for the selector shapes a DASH MPD patch uses:
   /MPD/@attr            /MPD/Elem[1]            /MPD/Elem[@id='x']/Elem[@id='y']/Elem[1]
Unprefixed element names in a selector denote elements of the MPD namespace.  Independent of dashlive."""
from __future__ import annotations

import copy
import re

from lxml import etree

MPD_NS = "urn:mpeg:dash:schema:mpd:2011"
PATCH_NS = "urn:mpeg:dash:schema:mpd-patch:2020"
STEP = re.compile(r"^(?P<name>[A-Za-z_][\w.\-]*)(?:\[(?:(?P<idx>\d+)|@(?P<attr>[\w:.\-]+)=(?P<q>['\"])(?P<val>.*?)(?P=q))\])?$")


class PatchError(Exception):
    pass


def resolve(root, sel: str):
    """-> ('attr', element, name) | ('elem', element).  Raises PatchError unless exactly one node matches."""
    if not sel.startswith("/"):
        raise PatchError(f"selector is not absolute: {sel!r}")
    parts = sel[1:].split("/")
    attr = None
    if parts and parts[-1].startswith("@"):
        attr = parts.pop()[1:]
    if not parts:
        raise PatchError(f"empty selector {sel!r}")
    m = STEP.match(parts[0])
    if not m or root.tag != "{%s}%s" % (MPD_NS, m.group("name")):
        raise PatchError(f"root step {parts[0]!r} does not select the document element {root.tag}")
    cur = [root]
    for step in parts[1:]:
        m = STEP.match(step)
        if not m:
            raise PatchError(f"unsupported selector step {step!r} in {sel!r}")
        nxt = []
        for el in cur:
            kids = [c for c in el if isinstance(c.tag, str) and c.tag == "{%s}%s" % (MPD_NS, m.group("name"))]
            if m.group("idx"):
                i = int(m.group("idx"))
                kids = kids[i - 1:i]
            elif m.group("attr"):
                kids = [c for c in kids if c.get(m.group("attr")) == m.group("val")]
            nxt.extend(kids)
        cur = nxt
    if len(cur) != 1:
        raise PatchError(f"selector {sel!r} matches {len(cur)} nodes")
    if attr is not None:
        if cur[0].get(attr) is None:
            raise PatchError(f"selector {sel!r}: attribute absent")
        return ("attr", cur[0], attr)
    return ("elem", cur[0])


def _rebuild(el):
    """Fresh copy of el; content written with the Patch document's default namespace denotes MPD elements."""
    tag = el.tag
    if tag.startswith("{%s}" % PATCH_NS):
        tag = "{%s}%s" % (MPD_NS, etree.QName(el).localname)
    new = etree.Element(tag, nsmap={None: MPD_NS})
    for k, v in el.attrib.items():
        new.set(k, v)
    new.text = el.text
    for c in el:
        if isinstance(c.tag, str):
            n = _rebuild(c)
            n.tail = c.tail
            new.append(n)
    return new


def apply(mpd_root, patch_root):
    """Returns a patched deep copy of mpd_root; raises PatchError on anything it cannot apply faithfully."""
    if patch_root.tag != "{%s}Patch" % PATCH_NS:
        raise PatchError(f"not a Patch document: {patch_root.tag}")
    doc = copy.deepcopy(mpd_root)
    for op in patch_root:
        if not isinstance(op.tag, str):
            continue
        name = etree.QName(op).localname
        if name != "replace":
            raise PatchError(f"unsupported operation {name}")
        target = resolve(doc, op.get("sel", ""))
        if target[0] == "attr":
            target[1].set(target[2], (op.text or "").strip())
        else:
            kids = [c for c in op if isinstance(c.tag, str)]
            if len(kids) != 1:
                raise PatchError(f"<replace sel={op.get('sel')!r}> must hold exactly one element, has {len(kids)}")
            new = _rebuild(kids[0])
            new.tail = target[1].tail
            parent = target[1].getparent()
            parent.replace(target[1], new)
    return doc
