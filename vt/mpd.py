"""Independent MPD reader (ISO/IEC 23009-1).  lxml + stdlib only: imports NOTHING from dashlive.

URL resolution (5.6), SegmentTemplate identifier substitution (5.3.9.4.4),
SegmentTimeline expansion (5.3.9.6), segment availability (5.3.9.5.3) in exact
rationals, xs:duration / xs:dateTime lexers.
"""
from __future__ import annotations

import datetime as _dt
import re
from fractions import Fraction
from urllib.parse import urljoin

from lxml import etree

NS = "urn:mpeg:dash:schema:mpd:2011"
Q = "{%s}" % NS
_REAL_DT = getattr(_dt.datetime, "__mro__", [_dt.datetime])[-2] if False else None


class MpdError(Exception):
    pass


XS_DURATION = re.compile(
    r"^(?P<neg>-)?P(?:(?P<Y>\d+)Y)?(?:(?P<Mo>\d+)M)?(?:(?P<D>\d+)D)?"
    r"(?:T(?:(?P<H>\d+)H)?(?:(?P<M>\d+)M)?(?:(?P<S>\d+(?:\.\d+)?)S)?)?$")


def parse_duration(text: str):
    """-> (Fraction seconds, field dict) ; raises MpdError when not a valid xs:duration."""
    m = XS_DURATION.match(text or "")
    if not m:
        raise MpdError(f"not an xs:duration: {text!r}")
    g = m.groupdict()
    if all(g[k] is None for k in ("Y", "Mo", "D", "H", "M", "S")):
        raise MpdError(f"not an xs:duration: {text!r}")
    if "T" in text and g["H"] is None and g["M"] is None and g["S"] is None:
        raise MpdError(f"not an xs:duration: {text!r}")
    total = Fraction(0)
    for key, mult in (("Y", 365 * 86400), ("Mo", 30 * 86400), ("D", 86400), ("H", 3600), ("M", 60)):
        if g[key]:
            total += int(g[key]) * mult
    if g["S"]:
        total += Fraction(g["S"])
    if g["neg"]:
        total = -total
    return total, g


XS_DATETIME = re.compile(
    r"^(-?\d{4,})-(\d\d)-(\d\d)T(\d\d):(\d\d):(\d\d)(\.\d+)?(Z|[+-]\d\d:\d\d)?$")
_DAYS_BEFORE = None


def _days_from_civil(y, m, d):
    y -= m <= 2
    era = (y if y >= 0 else y - 399) // 400
    yoe = y - era * 400
    doy = (153 * (m + (-3 if m > 2 else 9)) + 2) // 5 + d - 1
    doe = yoe * 365 + yoe // 4 - yoe // 100 + doy
    return era * 146097 + doe - 719468


def parse_datetime(text: str) -> Fraction:
    """xs:dateTime -> exact seconds since 1970-01-01T00:00:00Z (no tz = UTC, as DASH says)."""
    m = XS_DATETIME.match(text or "")
    if not m:
        raise MpdError(f"not an xs:dateTime: {text!r}")
    y, mo, d, h, mi, s = (int(m.group(i)) for i in range(1, 7))
    if not (1 <= mo <= 12 and 1 <= d <= 31 and h <= 24 and mi <= 59 and s <= 60):
        raise MpdError(f"not an xs:dateTime: {text!r}")
    frac = Fraction(m.group(7)[1:]) / (10 ** len(m.group(7)[1:])) if m.group(7) else Fraction(0)
    secs = Fraction(_days_from_civil(y, mo, d) * 86400 + h * 3600 + mi * 60 + s) + frac
    tz = m.group(8)
    if tz and tz != "Z":
        off = int(tz[1:3]) * 3600 + int(tz[4:6]) * 60
        secs -= off if tz[0] == "+" else -off
    return secs


def epoch_seconds(dt) -> Fraction:
    """aware datetime -> exact seconds since the epoch."""
    off = dt.utcoffset()
    secs = Fraction(_days_from_civil(dt.year, dt.month, dt.day) * 86400 + dt.hour * 3600 + dt.minute * 60 + dt.second)
    secs += Fraction(dt.microsecond, 10**6)
    if off is not None:
        secs -= Fraction(off.days * 86400 + off.seconds) + Fraction(off.microseconds, 10**6)
    return secs


IDENT = re.compile(r"\$(?:(RepresentationID)|(Number|Time|Bandwidth|SubNumber)(%0(\d+)d)?)?\$")


def expand_template(tpl: str, rep_id: str, bandwidth=None, number=None, time=None) -> str:
    def sub(m):
        if m.group(0) == "$$":
            return "$"
        if m.group(1):
            return rep_id
        name, width = m.group(2), m.group(4)
        val = {"Number": number, "Time": time, "Bandwidth": bandwidth}.get(name)
        if val is None:
            raise MpdError(f"template {tpl!r} needs ${name}$ which is not available")
        return ("%0" + (width or "1") + "d") % int(val)
    return IDENT.sub(sub, tpl)


def template_identifiers(tpl: str) -> list[str]:
    """every $...$ token of a template, verbatim (for rule checking)."""
    return re.findall(r"\$[^$]*\$", tpl)


class SegTemplate:
    ATTRS = ("media", "initialization", "index", "startNumber", "timescale", "duration",
             "presentationTimeOffset", "availabilityTimeOffset")

    def __init__(self):
        self.attrs: dict[str, str] = {}
        self.timeline_el = None

    def inherit(self, el):
        for a in self.ATTRS:
            if el.get(a) is not None:
                self.attrs[a] = el.get(a)
        tl = el.find(Q + "SegmentTimeline")
        if tl is not None:
            self.timeline_el = tl

    def copy(self):
        c = SegTemplate()
        c.attrs = dict(self.attrs)
        c.timeline_el = self.timeline_el
        return c

    def _int(self, name, default):
        v = self.attrs.get(name)
        if v is None:
            return default
        if not re.match(r"^\d+$", v):
            raise MpdError(f"SegmentTemplate@{name}={v!r} is not an unsigned integer")
        return int(v)

    @property
    def start_number(self):
        return self._int("startNumber", 1)

    @property
    def timescale(self):
        return self._int("timescale", 1)

    @property
    def duration(self):
        return self._int("duration", None)

    @property
    def pto(self):
        return self._int("presentationTimeOffset", 0)

    @property
    def media(self):
        return self.attrs.get("media")

    @property
    def initialization(self):
        return self.attrs.get("initialization")

    def timeline(self, limit: int = 200000) -> list[tuple[int, int]] | None:
        """Expanded (t, d) list, or None when there is no SegmentTimeline."""
        if self.timeline_el is None:
            return None
        out = []
        t = None
        s_els = self.timeline_el.findall(Q + "S")
        for i, s in enumerate(s_els):
            d = s.get("d")
            if d is None or not re.match(r"^\d+$", d):
                raise MpdError(f"S@d={d!r}")
            d = int(d)
            if s.get("t") is not None:
                if not re.match(r"^\d+$", s.get("t")):
                    raise MpdError(f"S@t={s.get('t')!r}")
                t = int(s.get("t"))
            elif t is None:
                t = 0
            r = s.get("r", "0")
            if not re.match(r"^-?\d+$", r):
                raise MpdError(f"S@r={r!r}")
            r = int(r)
            if r < 0:
                raise MpdError("S@r=-1 (open-ended repeat) is not expanded by this reader")
            for _ in range(r + 1):
                out.append((t, d))
                t += d
                if len(out) > limit:
                    raise MpdError("timeline longer than limit")
        return out


class Rep:
    def __init__(self, el, aset, period, mpd, template, base):
        self.el, self.aset, self.period, self.mpd = el, aset, period, mpd
        self.id = el.get("id")
        self.bandwidth = el.get("bandwidth")
        self.template: SegTemplate | None = template
        self.base = base
        self.content_type = (aset.get("contentType") or (el.get("mimeType") or aset.get("mimeType") or "").split("/")[0])
        self.mime = el.get("mimeType") or aset.get("mimeType")
        self.segment_list = el.find(Q + "SegmentList")
        if self.segment_list is None:
            self.segment_list = aset.find(Q + "SegmentList")

    def init_url(self) -> str | None:
        if self.template is None or self.template.initialization is None:
            return None
        return urljoin(self.base, expand_template(self.template.initialization, self.id, self.bandwidth))

    def media_url(self, number=None, time=None) -> str:
        return urljoin(self.base, expand_template(self.template.media, self.id, self.bandwidth, number, time))

    @property
    def uses_time(self) -> bool:
        return self.template is not None and self.template.media is not None and "$Time" in self.template.media

    @property
    def uses_number(self) -> bool:
        return self.template is not None and self.template.media is not None and "$Number" in self.template.media


class Period:
    def __init__(self, el):
        self.el = el
        self.id = el.get("id")
        self.start = parse_duration(el.get("start"))[0] if el.get("start") is not None else None
        self.duration = parse_duration(el.get("duration"))[0] if el.get("duration") is not None else None
        self.reps: list[Rep] = []


class MPD:
    def __init__(self, body: bytes, url: str):
        try:
            self.root = etree.fromstring(body)
        except etree.XMLSyntaxError as exc:
            raise MpdError(f"not well-formed XML: {exc}")
        if self.root.tag != Q + "MPD":
            raise MpdError(f"root element is {self.root.tag}")
        self.url = url
        r = self.root
        self.type = r.get("type", "static")
        self.id = r.get("id")
        self.ast = parse_datetime(r.get("availabilityStartTime")) if r.get("availabilityStartTime") else None
        self.publish = parse_datetime(r.get("publishTime")) if r.get("publishTime") else None
        self.tsbd = parse_duration(r.get("timeShiftBufferDepth"))[0] if r.get("timeShiftBufferDepth") else None
        self.mup = parse_duration(r.get("minimumUpdatePeriod"))[0] if r.get("minimumUpdatePeriod") else None
        self.mpd_duration = (parse_duration(r.get("mediaPresentationDuration"))[0]
                             if r.get("mediaPresentationDuration") else None)
        self.periods: list[Period] = []
        mpd_base = self._base(url, r)
        prev_end = Fraction(0)
        for pel in r.findall(Q + "Period"):
            p = Period(pel)
            if p.start is None:
                p.start = prev_end if (self.type == "static" or self.periods) else Fraction(0)
            if p.duration is not None:
                prev_end = p.start + p.duration
            p_base = self._base(mpd_base, pel)
            p_tpl = SegTemplate()
            st = pel.find(Q + "SegmentTemplate")
            if st is not None:
                p_tpl.inherit(st)
            for ael in pel.findall(Q + "AdaptationSet"):
                a_base = self._base(p_base, ael)
                a_tpl = p_tpl.copy()
                st = ael.find(Q + "SegmentTemplate")
                has_tpl = st is not None or pel.find(Q + "SegmentTemplate") is not None
                if st is not None:
                    a_tpl.inherit(st)
                for rel in ael.findall(Q + "Representation"):
                    r_base = self._base(a_base, rel)
                    r_tpl = a_tpl.copy()
                    st = rel.find(Q + "SegmentTemplate")
                    if st is not None:
                        r_tpl.inherit(st)
                    p.reps.append(Rep(rel, ael, p, self, r_tpl if (has_tpl or st is not None) else None, r_base))
            self.periods.append(p)

    @staticmethod
    def _base(parent: str, el) -> str:
        b = el.find(Q + "BaseURL")
        if b is not None and b.text:
            return urljoin(parent, b.text.strip())
        return parent

    @property
    def reps(self) -> list[Rep]:
        return [r for p in self.periods for r in p.reps]

    def patch_location(self):
        el = self.root.find(Q + "PatchLocation")
        if el is None:
            return None
        return urljoin(self.url, (el.text or "").strip()), el.get("ttl")


# ---------------------------------------------------------------- availability (5.3.9.5.3)

def number_window(rep: Rep, now: Fraction, max_count: int = 5000):
    """All $Number$ values whose availability window [ASAST, ASAET] contains `now`
    computed ONLY from AST, TSBD, Period start, startNumber, duration, timescale.
    Returns (first, last) inclusive or None if empty."""
    mpd, tpl = rep.mpd, rep.template
    if tpl.duration is None:
        return None
    d = Fraction(tpl.duration, tpl.timescale)
    elapsed = now - mpd.ast - rep.period.start
    # availability start of index k (0-based): (k+1)*d ; end: (k+1)*d + d + TSBD
    tsbd = mpd.tsbd if mpd.tsbd is not None else None
    k_last = int(elapsed // d) - 1                      # largest k with (k+1)d <= elapsed
    if tsbd is None:
        k_first = 0
    else:
        # smallest k with (k+2)d + tsbd >= elapsed
        x = (elapsed - tsbd) / d - 2
        k_first = max(0, -((-x.numerator) // x.denominator))   # ceil
    if rep.period.duration is not None:
        # numbers whose start lies inside the Period
        k_end = -((-(rep.period.duration / d).numerator) // (rep.period.duration / d).denominator) - 1
        k_last = min(k_last, k_end)
    if k_last < k_first:
        return None
    return tpl.start_number + k_first, tpl.start_number + k_last


def timeline_available(rep: Rep, now: Fraction) -> list[tuple[int, int]]:
    """Timeline entries (t, d) whose end is not later than `now`."""
    mpd, tpl = rep.mpd, rep.template
    tl = tpl.timeline()
    out = []
    origin = mpd.ast + rep.period.start
    for t, d in tl:
        end = origin + Fraction(t + d - tpl.pto, tpl.timescale)
        if end <= now:
            out.append((t, d))
    return out


# ---------------------------------------------------------------- structural rule set (ISO/IEC 23009-1)

DURATION_ATTRS = {"mediaPresentationDuration", "minimumUpdatePeriod", "minBufferTime", "timeShiftBufferDepth",
                  "suggestedPresentationDelay", "maxSegmentDuration", "maxSubsegmentDuration"}
PERIOD_DURATION_ATTRS = {"start", "duration"}
DATETIME_ATTRS = {"availabilityStartTime", "availabilityEndTime", "publishTime"}
UNSIGNED = {
    "SegmentTemplate": {"timescale", "duration", "startNumber", "presentationTimeOffset"},
    "SegmentList": {"timescale", "duration", "startNumber", "presentationTimeOffset"},
    "SegmentBase": {"timescale", "presentationTimeOffset"},
    "S": {"t", "d"},
    "Representation": {"bandwidth", "width", "height"},
    "AdaptationSet": {"id", "group", "maxWidth", "maxHeight", "minWidth", "minHeight", "maxBandwidth", "minBandwidth"},
    "ContentComponent": {"id"},
    "EventStream": {"timescale"},
    "InbandEventStream": {"timescale"},
    "Event": {"presentationTime", "duration", "id"},
}
UINT = re.compile(r"^\d+$")
TEMPLATE_ID = re.compile(r"^\$(?:RepresentationID|(?:Number|Time|Bandwidth)(?:%0\d+d)?)?\$$")


def check_rules(root) -> list[tuple[str, str]]:
    """Violations of the structural MPD rules clients depend on: [(signature, detail)]."""
    out = []
    typ = root.get("type", "static")
    for req in ("profiles", "minBufferTime"):
        if root.get(req) is None:
            out.append((f"mpd-required-attribute-missing/{req}", f"MPD@{req}"))
    if typ == "dynamic":
        for req in ("availabilityStartTime", "publishTime"):
            if root.get(req) is None:
                out.append((f"mpd-required-attribute-missing/{req}", f"MPD@type=dynamic without @{req}"))
    else:
        periods = root.findall(Q + "Period")
        if root.get("mediaPresentationDuration") is None and not (periods and periods[-1].get("duration") is not None):
            out.append(("mpd-required-attribute-missing/mediaPresentationDuration",
                        "static MPD with neither @mediaPresentationDuration nor a duration on the last Period"))
    for el in root.iter():
        if not isinstance(el.tag, str) or not el.tag.startswith(Q):
            continue
        name = el.tag[len(Q):]
        for a, v in el.attrib.items():
            if a.startswith("{"):
                continue
            is_dur = a in DURATION_ATTRS or (name == "Period" and a in PERIOD_DURATION_ATTRS)
            if is_dur:
                try:
                    val, _ = parse_duration(v)
                    if val < 0:
                        out.append((f"negative-duration/{name}@{a}", v))
                except MpdError:
                    out.append((f"invalid-xs-duration/{name}@{a}", repr(v)))
            elif a in DATETIME_ATTRS and name == "MPD":
                try:
                    parse_datetime(v)
                except MpdError:
                    out.append((f"invalid-xs-dateTime/{name}@{a}", repr(v)))
            elif a in UNSIGNED.get(name, ()):
                if not UINT.match(v):
                    out.append((f"invalid-unsigned-integer/{name}@{a}", repr(v)))
            elif a == "startWithSAP":
                if v not in {"0", "1", "2", "3", "4", "5", "6"}:
                    out.append((f"invalid-SAPType/{name}@startWithSAP", repr(v)))
            elif name == "S" and a == "r":
                if not re.match(r"^-?\d+$", v) or int(v) < -1:
                    out.append(("invalid-S@r", repr(v)))
            if name in ("SegmentTemplate",) and a in ("media", "initialization", "index", "bitstreamSwitching"):
                for tok in template_identifiers(v.split("?")[0]) + template_identifiers("?".join(v.split("?")[1:])):
                    if not TEMPLATE_ID.match(tok):
                        out.append((f"invalid-template-identifier/{a}", f"{tok!r} in {v!r}"))
    # id uniqueness
    pids = [p.get("id") for p in root.findall(Q + "Period") if p.get("id") is not None]
    if len(pids) != len(set(pids)):
        out.append(("duplicate-id/Period", str(pids)))
    for p in root.findall(Q + "Period"):
        aids = [a.get("id") for a in p.findall(Q + "AdaptationSet") if a.get("id") is not None]
        if len(aids) != len(set(aids)):
            out.append(("duplicate-id/AdaptationSet", f"Period {p.get('id')}: {aids}"))
        rids = [r.get("id") for a in p.findall(Q + "AdaptationSet") for r in a.findall(Q + "Representation")]
        if len(rids) != len(set(rids)):
            out.append(("duplicate-id/Representation", f"Period {p.get('id')}: {rids}"))
        for a in p.findall(Q + "AdaptationSet"):
            if not a.findall(Q + "Representation"):
                out.append((f"empty-AdaptationSet/{a.get('contentType') or a.get('mimeType')}", f"Period {p.get('id')} AdaptationSet {a.get('id')}"))
    if not root.findall(Q + "Period"):
        out.append(("no-Period", ""))
    return out


def shape(root) -> dict:
    """multiset of (element path, sorted attribute names)"""
    from collections import Counter
    c = Counter()

    def walk(el, path):
        if not isinstance(el.tag, str):
            return
        p = path + "/" + el.tag
        c[(p, tuple(sorted(el.attrib.keys())))] += 1
        for ch in el:
            walk(ch, p)
    walk(root, "")
    return c
