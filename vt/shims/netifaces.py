"""Verification-side stand-in for netifaces (only consulted by create_app(wss=True) in debug mode)."""
AF_INET = 2


def interfaces():
    return []


def ifaddresses(name):
    return {}
