"""Verification-side stand-in for python-dotenv: the harness always passes an explicit config."""


def load_dotenv(*args, **kwargs):
    return False
