"""Verification-side stand-in for SQLAlchemy-JSONField (absent from /venv and the wheelhouse).
Behaviour of JSONField(enforce_string=True, enforce_unicode=False): JSON text in a TEXT column."""
import json

import sqlalchemy as sa
from sqlalchemy.types import TypeDecorator


class JSONField(TypeDecorator):
    impl = sa.Text
    cache_ok = True

    def __init__(self, enforce_string=False, enforce_unicode=False, json=json, json_type=None):
        super().__init__()
        self._json = json
        self._enforce_unicode = enforce_unicode

    def process_bind_param(self, value, dialect):
        if value is None:
            return None
        return self._json.dumps(value, ensure_ascii=not self._enforce_unicode)

    def process_result_value(self, value, dialect):
        if value is None:
            return None
        if isinstance(value, (bytes, bytearray)):
            value = value.decode("utf-8")
        if isinstance(value, str):
            return self._json.loads(value)
        return value


mutable_json_field = JSONField
