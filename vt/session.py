"""Session engine shared by the serving properties: resolve a case to (clock, manifest URL),
fetch and parse the manifest independently, enumerate what it advertises, fetch media.
"""
from __future__ import annotations

from fractions import Fraction
from urllib.parse import urlsplit

from . import app, clock, isobox, mpd, strategies

_scan_cache: dict[str, dict] = {}


def _decode_times(frs) -> list[int]:
    """tfdt where present; otherwise (14496-12 8.8.12) the end of the previous fragment, 0 for the first."""
    out, end = [], 0
    for f in frs:
        t = f.decode_time if f.decode_time is not None else end
        out.append(t)
        end = t + f.duration()
    return out


def scan(path: str) -> dict:
    """Independent ground truth for a stored file (cached per process)."""
    if path not in _scan_cache:
        data = open(path, "rb").read()
        info = isobox.scan_file(data)
        frs = info["fragments"]
        _scan_cache[path] = {
            "size": len(data), "timescale": info.get("timescale"), "track_id": info.get("track_id"),
            "iv_size": info.get("iv_size"), "kid": info.get("kid"),
            "init_end": info["init_end"],
            "durations": [f.duration() for f in frs],
            "decode_times": _decode_times(frs), "has_tfdt": [f.decode_time is not None for f in frs],
            "frag_start": [f.start for f in frs], "frag_end": [f.end for f in frs],
            "moof_start": [f.moof.start for f in frs],
            "payload_off": [(f.mdat.start + f.mdat.hdr, f.mdat.end) for f in frs],
            "has_mehd": info.get("mehd") is not None,
            "box_starts": [b.start for b in info["root"].children],
        }
    return _scan_cache[path]


def stream_constants(env: app.Env, stream: str) -> dict:
    """(reference duration, nominal segment duration) in microseconds from the independent scan
    of the stream's timing-reference file."""
    info = env.streams[stream]
    ref = info["timing_ref"]
    sc = scan(info["files"][ref]["path"])
    ts = sc["timescale"]
    total = sum(sc["durations"])
    return {"ref_us": total * 10**6 // ts, "seg_us": max(1, sc["durations"][0] * 10**6 // ts),
            "tick_us": max(1, 10**6 // ts), "timescale": ts, "ref_ticks": total}


def rel(url: str) -> str:
    """path?query of an absolute URL on the test host (the client also accepts absolute URLs;
    a foreign host in a manifest would be requested as such)."""
    sp = urlsplit(url)
    if sp.netloc in ("localhost", ""):
        return sp.path + ("?" + sp.query if sp.query else "")
    return url


class Session:
    def __init__(self, env: app.Env, T, url: str):
        self.env, self.T, self.url = env, T, url
        self.client = env.client()
        self.now = mpd.epoch_seconds(T)
        self.resp = None
        self.mpd: mpd.MPD | None = None
        self.error: str | None = None

    def load(self):
        clock.set_now(self.T)
        self.resp = self.env.get(self.url, client=self.client)
        if self.resp.status != 200:
            return self
        try:
            self.mpd = mpd.MPD(self.resp.body, "http://localhost" + self.url)
        except mpd.MpdError as exc:
            self.error = str(exc)
        return self

    def fetch(self, url: str, **kw):
        clock.set_now(self.T)
        return self.env.get(rel(url), client=self.client, **kw)


_synth_order: list[str] = []


def resolve_stream(env: app.Env, stream) -> str:
    """'bbb' | 'tears' | {"synth": spec} -> directory name (synthetic streams are created on demand;
    the shared app is rebuilt after 250 of them)."""
    if isinstance(stream, str):
        return stream
    sid = app.add_synth_stream(env, stream["synth"])
    return sid


def stream_label(stream) -> str:
    return stream if isinstance(stream, str) else "synthetic"


def live_case_to_request(env: app.Env, case: dict):
    """case: {stream, template, opts, clock} -> (T, url)."""
    case = dict(case, stream=resolve_stream(env, case["stream"]))
    consts = stream_constants(env, case["stream"])
    d = str(case["opts"].get("depth", "1800"))
    depth_us = (int(d) if d.isdigit() and int(d) > 0 else 60) * 10**6
    T, start = strategies.resolve_clock(case["clock"], consts["ref_us"], consts["seg_us"], consts["tick_us"], depth_us)
    opts = dict(case["opts"])
    if start is not None:
        opts["start"] = start
    url = f"/dash/live/{case['stream']}/{case['template']}" + strategies.query_string(opts)
    consts["stream"] = case["stream"]
    return T, url, consts


def pick_indices(n: int, edge: int, interior: list[int]) -> list[int]:
    """indices 0..n-1: all within `edge` of either end plus the chosen interior ones."""
    if n <= 2 * edge + len(interior):
        return list(range(n))
    s = set(range(edge)) | set(range(n - edge, n))
    for i in interior:
        s.add(edge + i % (n - 2 * edge))
    return sorted(s)


def advertised_live(rep, now: Fraction, interior: list[int], edge: int = 3):
    """What a live manifest makes addressable for one Representation at `now`, restricted to the
    window edges plus chosen interior indices.  -> dict(mode, total, items) or None.
    items: (window index, label, url, number or None, time or None, d in ticks or None)"""
    m, tpl = rep.mpd, rep.template
    if tpl is None or tpl.media is None:
        return None
    tl = tpl.timeline()
    if tl is not None:
        origin = m.ast + rep.period.start
        avail = [(i, t, d) for i, (t, d) in enumerate(tl)
                 if origin + Fraction(t + d - tpl.pto, tpl.timescale) <= now]
        mode = "time" if rep.uses_time else "tl-number"
        total = len(avail)
    else:
        if tpl.duration is None:
            return None
        mode = "number"
        win = mpd.number_window(rep, now)
        total = 0 if win is None else win[1] - win[0] + 1
    items = []
    if total:
        for j in pick_indices(total, edge, interior):
            if tl is not None:
                i, t, d = avail[j]
                if rep.uses_time:
                    items.append((j, f"$Time$={t} d={d}", rep.media_url(time=t), None, t, d))
                else:
                    n = tpl.start_number + i
                    items.append((j, f"$Number$={n} (S t={t})", rep.media_url(number=n), n, t, d))
            else:
                n = win[0] + j
                items.append((j, f"$Number$={n}", rep.media_url(number=n), n, None, tpl.duration))
    return {"mode": mode, "total": total, "items": items, "timeline": tl}
