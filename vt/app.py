"""In-process dash-live application for HTTP-level checks.

boot() must be called before anything from dashlive/flask is imported: it
installs the controlled clock and puts the shim directory at the end of
sys.path.  make_env() builds an app on sqlite:///:memory: with the fixture
streams indexed BY THE CURRENT CODE (MediaFile.parse_media_file), role
accounts, and an exception recorder.
"""
from __future__ import annotations

import atexit
import logging
import os
import shutil
import sys
import tempfile
import time
import traceback
from pathlib import Path

from . import clock, deps

REPO = deps.REPO
FIXTURES = REPO / "tests" / "fixtures"
_booted = False

USERS = {
    "admin": ("admin", "admin@dashlive.unit.test", "suuuperSecret!"),
    "user": ("user", "user@dashlive.unit.test", "pa55word"),
    "media": ("media", "media@dashlive.unit.test", "m3d!a"),
}
_hash_cache: dict[str, str] = {}


def boot() -> None:
    global _booted
    if _booted:
        return
    os.environ["TZ"] = "UTC"
    time.tzset()
    deps.setup_paths()
    clock.install()
    logging.disable(logging.CRITICAL)
    _booted = True


def tmp_root(prefix: str) -> Path:
    base = os.environ.get("VT_TMP")
    if base and Path(base).is_dir():
        return Path(tempfile.mkdtemp(prefix=prefix, dir=base))
    p = Path(tempfile.mkdtemp(prefix="vt-" + prefix))
    atexit.register(shutil.rmtree, p, True)
    return p


class Resp:
    __slots__ = ("status", "headers", "body", "exc", "exc_where", "exc_tb")

    def __init__(self, status, headers, body, exc=None, exc_where=None, exc_tb=None):
        self.status, self.headers, self.body = status, headers, body
        self.exc, self.exc_where, self.exc_tb = exc, exc_where, exc_tb

    @property
    def text(self):
        return self.body.decode("utf-8", errors="replace")


def innermost_repo_frame(tb) -> str:
    """'module.py:function' of the innermost frame that belongs to the repository."""
    where = "?"
    for fr in traceback.extract_tb(tb):
        fn = fr.filename
        if "/dashlive/" in fn or fn.startswith(str(REPO)):
            where = f"{Path(fn).name}:{fr.name}"
    return where


class Env:
    def __init__(self, app, root: Path):
        self.app = app
        self.root = root
        self.blob_folder = Path(app.config["BLOB_FOLDER"])
        self.last_exc = None
        self.streams: dict[str, dict] = {}

    # ---- request helpers
    def client(self):
        return self.app.test_client()

    def request(self, method: str, url: str, client=None, **kw) -> Resp:
        c = client or self.app.test_client()
        self.last_exc = None
        r = c.open(url, method=method, **kw)
        body = r.get_data()
        exc = where = tb = None
        if self.last_exc is not None:
            exc, etb = self.last_exc
            where = innermost_repo_frame(etb)
            tb = "".join(traceback.format_exception(type(exc), exc, etb)[-6:])
            self.last_exc = None
        return Resp(r.status_code, r.headers, body, exc, where, tb)

    def get(self, url: str, client=None, **kw) -> Resp:
        return self.request("GET", url, client=client, **kw)

    def close(self):
        try:
            from dashlive.server import models
            with self.app.app_context():
                models.db.session.remove()
                models.db.engine.dispose()
        except Exception:
            pass
        shutil.rmtree(self.root, ignore_errors=True)


def _password_hash(pw: str) -> str:
    from dashlive.server import models
    if pw not in _hash_cache:
        _hash_cache[pw] = models.User.hash_password(pw)
    return _hash_cache[pw]


def make_env(fixtures=("bbb", "tears"), users: bool = True, link_fixtures: bool = True,
             extra_config: dict | None = None) -> Env:
    boot()
    from dashlive.server import models
    from dashlive.server.app import create_app
    import flask

    root = tmp_root("app-")
    config = {
        "DASH": {
            "ALLOWED_DOMAINS": "*",
            "CSRF_SECRET": "test.csrf.secret",
            "DEFAULT_ADMIN_USERNAME": "admin",
            "DEFAULT_ADMIN_PASSWORD": USERS["admin"][2],
        },
        "SECRET_KEY": "cookie.secret",
        "JWT_SECRET_KEY": "jwt.secret.for.verification",
        "SQLALCHEMY_DATABASE_URI": "sqlite:///:memory:",
        "TESTING": False,
        "PROPAGATE_EXCEPTIONS": False,
        "LOG_LEVEL": "critical",
        "PREFERRED_URL_SCHEME": "http",
    }
    if extra_config:
        config.update(extra_config)
    app = create_app(config=config, instance_path=str(root), create_default_user=False, wss=False)
    logging.disable(logging.CRITICAL)
    env = Env(app, root)

    def _record(sender, exception, **extra):
        env.last_exc = (exception, exception.__traceback__)
    flask.got_request_exception.connect(_record, app, weak=False)

    with app.app_context():
        if users:
            for role, (name, email, pw) in USERS.items():
                mask = {"admin": models.Group.ADMIN, "user": models.Group.USER,
                        "media": models.Group.USER + models.Group.MEDIA}[role]
                models.db.session.add(models.User(
                    username=name, email=email, password=_password_hash(pw),
                    groups_mask=mask, must_change=False))
            models.User.get_guest_user()
            models.db.session.commit()
        for name in fixtures:
            load_fixture_stream(env, name, link=link_fixtures)
    return env


FIXTURE_TITLES = {"bbb": "Big Buck Bunny", "tears": "Tears of Steel"}


def load_fixture_stream(env: Env, name: str, link: bool = True, title: str | None = None,
                        timing_ref: str | None = None) -> None:
    """Create Stream + Blob + MediaFile rows for tests/fixtures/<name>/*.mp4 and index
    every file with the repository's current parser."""
    from dashlive.drm.playready import PlayReady
    from dashlive.server import models

    src_dir = FIXTURES / name
    dest = env.blob_folder / name
    if link:
        if not dest.exists():
            dest.symlink_to(src_dir)
    else:
        dest.mkdir(exist_ok=True)
        for f in src_dir.glob("*.mp4"):
            shutil.copy(f, dest / f.name)
    add_stream(env, name, title or FIXTURE_TITLES.get(name, name), sorted(p.name for p in src_dir.glob(f"{name}_*.mp4")),
               timing_ref=timing_ref, marlin=f"ms3://localhost/marlin/{name}", playready=PlayReady.TEST_LA_URL)


def add_stream(env: Env, directory: str, title: str, filenames: list[str], timing_ref: str | None = None,
               marlin: str | None = None, playready: str | None = None, defaults: dict | None = None) -> None:
    """Rows for files that already exist under BLOB_FOLDER/<directory>/ ; indexes each."""
    from dashlive.server import models

    stream = models.Stream(title=title, directory=directory, marlin_la_url=marlin,
                           playready_la_url=playready, defaults=defaults)
    models.db.session.add(stream)
    info = {"directory": directory, "title": title, "files": {}}
    folder = env.blob_folder / directory
    for fname in filenames:
        path = folder / fname
        stem = Path(fname).stem
        blob = models.Blob(filename=fname, size=path.stat().st_size, sha1_hash=f"vt-{directory}-{stem}",
                           content_type="video/mp4", auto_delete=False)
        models.db.session.add(blob)
        mf = models.MediaFile(name=stem, stream=stream, blob=blob)
        models.db.session.add(mf)
        models.db.session.flush()
        ok = mf.parse_media_file()
        info["files"][stem] = {"path": str(path), "indexed": bool(ok)}
        if ok:
            rep = mf.representation
            info["files"][stem].update(content_type=rep.content_type, encrypted=bool(rep.encrypted),
                                       track_id=rep.track_id, timescale=rep.timescale)
    # the server sets the timing reference in a later request, from re-loaded rows: do the same
    # (a freshly parsed Representation object has not computed num_media_segments yet)
    models.db.session.commit()
    models.db.session.expire_all()
    stream = models.Stream.get(directory=directory)
    ref_mf = None
    if timing_ref is not None:
        ref_mf = models.MediaFile.get(name=timing_ref)
    else:
        for mf in sorted(stream.media_files, key=lambda m: m.name):
            if mf.representation is not None and mf.content_type == "video":
                ref_mf = mf
                break
    if ref_mf is not None and ref_mf.representation is not None:
        stream.timing_reference = ref_mf.as_stream_timing_reference()
        info["timing_ref"] = ref_mf.name
    models.db.session.commit()
    info["pk"] = stream.pk
    env.streams[directory] = info


_shared: dict[str, Env] = {}


def shared_env(key: str = "default", **kw) -> Env:
    """One read-only serving app per process."""
    env = _shared.get(key)
    if env is not None and sum(1 for v in env.streams.values() if "spec" in v) > 250:
        # bound memory/disk: start again with a fresh app (only between cases)
        env.close()
        env = None
        from . import session
        session._scan_cache.clear()
    if env is None:
        env = _shared[key] = make_env(**kw)
    return env


def add_synth_stream(env: Env, spec: dict) -> str:
    """Write the synthetic files of `spec` under BLOB_FOLDER and register+index them (idempotent)."""
    from . import synth
    sid = synth.spec_id(spec)
    if sid in env.streams:
        return sid
    with env.app.app_context():
        sid, names = synth.write_stream(env.blob_folder, FIXTURES, spec)
        ref = Path(names[spec.get("ref", 0)]).stem
        add_stream(env, sid, f"synthetic {sid}", names, timing_ref=ref,
                   marlin=f"ms3://localhost/marlin/{sid}", playready="https://test.playready.microsoft.com/service/rightsmanager.asmx?cfg={cfgs}")
    env.streams[sid]["spec"] = spec
    return sid


def drop_stream(env: Env, directory: str) -> None:
    from dashlive.server import models
    with env.app.app_context():
        st = models.Stream.get(directory=directory)
        if st is not None:
            for mf in list(st.media_files):
                models.db.session.delete(mf)
            models.db.session.delete(st)
            models.db.session.commit()
    shutil.rmtree(env.blob_folder / directory, ignore_errors=True)
    env.streams.pop(directory, None)


def add_mps(env: Env, name: str, title: str, periods: list[dict]) -> None:
    """MultiPeriodStream rows, written the way the upstream fixtures do.
    periods: [{"pid": str, "stream": directory, "start": seconds, "duration": seconds,
               "tracks": [[content_type, track_id, role_name], ...]}]"""
    import datetime as _dt
    from dashlive.mpeg.dash.content_role import ContentRole
    from dashlive.server import models
    with env.app.app_context():
        mps = models.MultiPeriodStream(name=name, title=title)
        models.db.session.add(mps)
        for idx, p in enumerate(periods, start=1):
            stream = models.Stream.get(directory=p["stream"])
            prd = models.Period(pid=p["pid"], parent=mps, ordering=idx, stream=stream,
                                start=_dt.timedelta(seconds=p["start"]), duration=_dt.timedelta(seconds=p["duration"]))
            models.db.session.add(prd)
            for ttype, tid, role in p["tracks"]:
                ct = models.ContentType.get(name=ttype)
                models.db.session.add(models.AdaptationSet(
                    period=prd, track_id=tid, role=ContentRole[role.upper()], content_type=ct))
        models.db.session.commit()
