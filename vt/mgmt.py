"""Driver for the management HTTP API of dash-live (shared by C15 and C17).

Two things live here:

* ``World`` - one in-process application per worker process (sqlite :memory:, fixture blobs COPIED),
  a pristine snapshot of database + blob folder that is restored in a few milliseconds, a DIGEST of the
  persistent state (every table except ``Token``, rows in primary-key order, plus the blob-folder listing
  with file hashes) and raw-SQL read access that does not go through the code under test.

* ``Api(world, role, auth)`` - one cookie jar that obtains every credential the role can legitimately
  obtain (session login, JWT access/refresh tokens, guest JWT, CSRF tokens harvested from the JSON
  end points and from the HTML/JSON pages that embed them) and has one method per management
  operation.  Every method was written from the handler it targets (route, verb, form vs JSON body,
  ajax flag, CSRF service) and returns the ``Resp`` of vt/app.py.

Nothing in this module judges anything; the oracles are in vt/props/c15.py and c17.py.
"""
from __future__ import annotations

import hashlib
import io
import json
import os
import shutil
import sqlite3
import urllib.parse
from html.parser import HTMLParser
from pathlib import Path

FIXED_NOW = "2024-05-05T10:00:00Z"
AUTO = "@auto"                      # "obtain a fresh token for the right service the way a client would"
ROLES = ("anonymous", "user", "media", "admin")
RANK = {"anonymous": 0, "user": 1, "media": 2, "admin": 3}
FREE_KID = "00112233445566778899aabbccddeeff"
FREE_KEY = "0f1e2d3c4b5a69788796a5b4c3d2e1f0"
VICTIM = ("victim", "victim@dashlive.unit.test", "v1ct!mpass")
SPARE_TRACK = {"kind": "video", "enc": False, "timescale": 1000, "durations": [2000, 2000, 2000, 2000],
               "samples": 2, "first_dt": 0, "tfdt": True, "styp": False, "sidx": False, "base": "moof",
               "sample_size": 40, "per_sample": True}


# --------------------------------------------------------------------------------------------------
# the world: app + snapshot + digest

def _sha(data: bytes) -> str:
    return hashlib.sha256(data).hexdigest()


class World:
    """bbb + tears (fixtures, indexed), 'spare' (one synthetic file, NOT indexed), multi-period stream
    'mps1' (p1 over bbb, p2 over tears), one key that no file uses, users admin/user/media/victim/guest."""

    def __init__(self) -> None:
        from . import app, clock, synth
        clock_needed = FIXED_NOW
        self.env = app.make_env(link_fixtures=False)
        clock.set_now(clock_needed)
        self.app = self.env.app
        self.blob_folder = self.env.blob_folder
        app.add_mps(self.env, "mps1", "multi period one", [
            {"pid": "p1", "stream": "bbb", "start": 4, "duration": 32,
             "tracks": [["video", 1, "main"], ["audio", 2, "main"]]},
            {"pid": "p2", "stream": "tears", "start": 8, "duration": 44,
             "tracks": [["video", 1, "main"], ["audio", 2, "main"]]},
        ])
        from dashlive.server import models
        from dashlive.server.models.user import password_context
        with self.app.app_context():
            cheap = password_context.using(bcrypt__rounds=4)
            for role, (name, _email, pw) in app.USERS.items():
                models.User.get(username=name).password = cheap.hash(pw)      # still a valid bcrypt hash
            models.db.session.add(models.User(
                username=VICTIM[0], email=VICTIM[1], password=cheap.hash(VICTIM[2]),
                groups_mask=models.Group.USER, must_change=False))
            models.db.session.add(models.Key(hkid=FREE_KID, hkey=FREE_KEY, computed=False))
            folder = self.blob_folder / "spare"
            folder.mkdir(exist_ok=True)
            data = synth.make_file(app.FIXTURES, SPARE_TRACK, 9)
            (folder / "spare_v1.mp4").write_bytes(data)
            st = models.Stream(title="spare stream", directory="spare")
            models.db.session.add(st)
            blob = models.Blob(filename="spare_v1.mp4", size=len(data), sha1_hash=hashlib.sha1(data).hexdigest(),
                               content_type="video/mp4", auto_delete=True)
            models.db.session.add(blob)
            models.db.session.add(models.MediaFile(name="spare_v1", stream=st, blob=blob))
            models.db.session.commit()
            models.db.session.remove()
            raw = models.db.engine.raw_connection()
            self._raw = raw
            self.conn: sqlite3.Connection = raw.driver_connection
        self.spare_db = sqlite3.connect(":memory:", check_same_thread=False)
        self.conn.backup(self.spare_db)
        self.pristine = self.env.root / "pristine-blobs"
        shutil.copytree(self.blob_folder, self.pristine)
        self._pristine_listing = self._listing(self.pristine)
        self._pristine_hash = {rel: _sha((self.pristine / rel).read_bytes()) for rel in self._pristine_listing}
        self._hash_cache: dict = {}
        self.tables = [r[0] for r in self.conn.execute(
            "select name from sqlite_master where type='table' and name not like 'sqlite_%' order by name")]
        self._pk_cols = {}
        for t in self.tables:
            info = self.conn.execute(f'pragma table_info("{t}")').fetchall()
            pks = [c[1] for c in sorted(info, key=lambda c: c[5]) if c[5] > 0]
            self._pk_cols[t] = pks or [c[1] for c in info]
        self.users = {r[1]: r[0] for r in self.sql('select pk, username from "User"')}
        self.guest_pk = self.users["_AnonymousUser_"]

    # ---- raw SQL (never through the ORM of the code under test)
    def sql(self, query: str, params: tuple = ()) -> list[tuple]:
        return self.conn.execute(query, params).fetchall()

    def one(self, query: str, params: tuple = ()):
        rows = self.sql(query, params)
        return rows[0][0] if rows else None

    def user_pk(self, role: str) -> int:
        return self.guest_pk if role == "anonymous" else self.users[role]

    def ids(self) -> dict:
        """primary keys of the objects the pristine world contains (read through raw SQL)"""
        out = {
            "bbb": self.one("select pk from Stream where directory='bbb'"),
            "tears": self.one("select pk from Stream where directory='tears'"),
            "spare": self.one("select pk from Stream where directory='spare'"),
            "bbb_v7": self.one("select pk from media_file where name='bbb_v7'"),
            "bbb_a1": self.one("select pk from media_file where name='bbb_a1'"),
            "bbb_t1": self.one("select pk from media_file where name='bbb_t1'"),
            "spare_v1": self.one("select pk from media_file where name='spare_v1'"),
            "free_key": self.one("select pk from key where hkid=?", (FREE_KID,)),
            "used_key": self.one("select key_pk from mediafile_keys order by key_pk limit 1"),
            "mps1": self.one("select pk from mp_stream where name='mps1'"),
            "period": self.one("select pk from period order by pk limit 1"),
        }
        return out

    # ---- snapshot / restore
    @staticmethod
    def _listing(root: Path) -> dict[str, tuple]:
        out = {}
        for dirpath, _dirs, files in os.walk(root):
            for f in files:
                p = Path(dirpath) / f
                st = p.stat()
                out[str(p.relative_to(root))] = (st.st_size, st.st_mtime_ns)
        return out

    def restore(self) -> None:
        from . import clock
        from dashlive.server import models
        with self.app.app_context():
            models.db.session.remove()
        if self.conn.in_transaction:
            self.conn.rollback()
        self.spare_db.backup(self.conn)
        live = self._listing(self.blob_folder)
        if live != self._pristine_listing:
            for rel in live:
                if rel not in self._pristine_listing:
                    (self.blob_folder / rel).unlink()
            for rel, sig in self._pristine_listing.items():
                if live.get(rel) != sig:
                    dest = self.blob_folder / rel
                    dest.parent.mkdir(parents=True, exist_ok=True)
                    shutil.copy2(self.pristine / rel, dest)
        for dirpath, dirs, files in os.walk(self.blob_folder, topdown=False):
            if not dirs and not files and Path(dirpath) != self.blob_folder:
                rel = str(Path(dirpath).relative_to(self.blob_folder))
                if not (self.pristine / rel).is_dir():
                    os.rmdir(dirpath)
        clock.set_now(FIXED_NOW)

    # ---- digest
    def blob_state(self) -> dict[str, str]:
        out = {}
        for rel, sig in self._listing(self.blob_folder).items():
            if self._pristine_listing.get(rel) == sig:
                out[rel] = self._pristine_hash[rel]
                continue
            key = (rel, sig)
            if key not in self._hash_cache:
                if len(self._hash_cache) > 4000:
                    self._hash_cache.clear()
                self._hash_cache[key] = _sha((self.blob_folder / rel).read_bytes())
            out[rel] = self._hash_cache[key]
        for dirpath, dirs, files in os.walk(self.blob_folder):
            if not dirs and not files and Path(dirpath) != self.blob_folder:
                out[str(Path(dirpath).relative_to(self.blob_folder)) + "/"] = "dir"
        return out

    def state(self) -> dict[str, dict]:
        """{table: {primary key: sha256(row)}} for every table except Token, plus '@blobs'."""
        out: dict[str, dict] = {}
        for t in self.tables:
            if t == "Token":
                continue
            order = ", ".join(f'"{c}"' for c in self._pk_cols[t])
            npk = len(self._pk_cols[t])
            cols = [c[1] for c in self.conn.execute(f'pragma table_info("{t}")').fetchall()]
            idx = [cols.index(c) for c in self._pk_cols[t]]
            rows = {}
            for row in self.conn.execute(f'select * from "{t}" order by {order}'):
                key = row[idx[0]] if npk == 1 else tuple(row[i] for i in idx)
                rows[key] = _sha(repr(row).encode())
            out[t] = rows
        out["@blobs"] = self.blob_state()
        return out

    @staticmethod
    def digest(state: dict) -> str:
        h = hashlib.sha256()
        for t in sorted(state):
            h.update(t.encode())
            for k in sorted(state[t], key=repr):
                h.update(repr(k).encode())
                h.update(state[t][k].encode())
        return h.hexdigest()

    @staticmethod
    def diff(a: dict, b: dict, own_user_pk: int | None = None) -> list[str]:
        """sorted 'table:kind:key' descriptors of the differences; the requester's own User row is exempt"""
        out = []
        for t in sorted(set(a) | set(b)):
            ra, rb = a.get(t, {}), b.get(t, {})
            for k in sorted(set(ra) | set(rb), key=repr):
                if t == "User" and k == own_user_pk and k in ra and k in rb:
                    continue
                if k not in rb:
                    out.append(f"{t}:deleted:{k}")
                elif k not in ra:
                    out.append(f"{t}:inserted:{k}")
                elif ra[k] != rb[k]:
                    out.append(f"{t}:updated:{k}")
        return out

    def close(self) -> None:
        try:
            self.spare_db.close()
        except Exception:
            pass
        self.env.close()


_world: dict[str, World] = {}


def get_world() -> World:
    """one World per process (2-3 s to build); callers restore() it at the start of every case"""
    if "w" not in _world:
        _world["w"] = World()
    return _world["w"]


# --------------------------------------------------------------------------------------------------
# token extraction

class _TokenHTML(HTMLParser):
    """collects (container, token): hidden <input name=csrf_token> inside <form id=...> and data-csrf
    attributes of <table id=...>"""

    def __init__(self) -> None:
        super().__init__(convert_charrefs=True)
        self.form = None
        self.found: list[tuple[str, str]] = []

    def handle_starttag(self, tag, attrs):
        a = dict(attrs)
        if tag == "form":
            self.form = a.get("id") or a.get("name") or "form"
        elif tag == "input" and a.get("name") == "csrf_token" and a.get("value"):
            self.found.append((f"form:{self.form}", a["value"]))
        if a.get("data-csrf"):
            self.found.append((f"{tag}:{a.get('id')}", a["data-csrf"]))

    def handle_endtag(self, tag):
        if tag == "form":
            self.form = None


def extract_tokens(resp) -> list[tuple[str, str]]:
    """(label, token) pairs found in a response: JSON members csrf_token / csrf / csrf_tokens.* /
    csrfTokens.* , hidden inputs and data-csrf attributes of an HTML page."""
    out: list[tuple[str, str]] = []
    ctype = resp.headers.get("Content-Type", "") if resp.headers is not None else ""
    if "json" in ctype:
        try:
            js = json.loads(resp.body)
        except ValueError:
            return out
        if isinstance(js, dict):
            for k in ("csrf_token", "csrf", "csrfToken"):
                if isinstance(js.get(k), str):
                    out.append((k, js[k]))
            for k in ("csrf_tokens", "csrfTokens"):
                if isinstance(js.get(k), dict):
                    for name in sorted(js[k]):
                        if isinstance(js[k][name], str):
                            out.append((f"{k}.{name}", js[k][name]))
        return out
    if "html" in ctype:
        p = _TokenHTML()
        try:
            p.feed(resp.text)
        except Exception:
            return out
        out.extend(p.found)
    return out


# label -> service, for the containers whose meaning does not depend on the page
FIXED_LABELS = {
    "form:upload-form": "upload", "table:streams": "streams", "table:keys": "keys", "table:media-files": "files",
    "csrf_tokens.streams": "streams", "csrf_tokens.files": "files", "csrf_tokens.kids": "keys",
    "csrf_tokens.upload": "upload",
}
# /api/refresh/access and /api/refresh/csrf sign the 'kids' member for the service name 'kids', whereas
# every key handler verifies 'keys' (user_management.generate_csrf_tokens vs keypairs.py)
REFRESH_LABELS = {"csrfTokens.streams": "streams", "csrfTokens.files": "files", "csrfTokens.kids": "kids",
                  "csrfTokens.upload": "upload"}


def js(resp):
    try:
        return json.loads(resp.body)
    except (ValueError, TypeError):
        return None


# --------------------------------------------------------------------------------------------------
# one client

class Api:
    """auth: 'both' (session cookie and Authorization: Bearer), 'session' (cookies only),
    'jwt' (bearer only: the session cookie is dropped after login; the csrf cookie stays)."""

    def __init__(self, world: World, role: str, auth: str = "both", login: bool = True) -> None:
        from . import app
        self.w, self.env, self.role, self.auth = world, world.env, role, auth
        self.c = self.env.client()
        self.access: str | None = None
        self.refresh: str | None = None
        self.pool: dict[str, list[tuple[str, str]]] = {}      # service -> [(token, source)]
        self.trace: list[str] = []
        self.user = app.USERS.get(role)
        self.login_resp = None
        if login:
            if role != "anonymous":
                self.login_resp = self.login()
            elif auth in ("jwt", "both"):
                self.refresh_access()
            if auth == "jwt":
                self.drop_session()

    # ---- plumbing
    @property
    def send_jwt(self) -> bool:
        return self.auth in ("jwt", "both")

    def request(self, method: str, url: str, bearer="access", **kw):
        headers = dict(kw.pop("headers", None) or {})
        tok = None
        if bearer == "access":
            tok = self.access if self.send_jwt else None
        elif bearer == "refresh":
            tok = self.refresh if self.send_jwt else None
        elif isinstance(bearer, str):
            tok = bearer
        if tok and "Authorization" not in headers:
            headers["Authorization"] = f"Bearer {tok}"
        r = self.env.request(method, url, client=self.c, headers=headers, **kw)
        self.trace.append(f"{method} {url.split('?')[0]} -> {r.status}")
        return r

    def cookie(self, name: str) -> str | None:
        ck = self.c.get_cookie(name)
        return ck.value if ck is not None else None

    def drop_session(self) -> None:
        self.c.delete_cookie("session")

    def own_pk(self) -> int:
        return self.w.user_pk(self.role)

    # ---- credentials
    def login(self, username: str | None = None, password: str | None = None):
        """POST /api/login with a JSON body (LoginPage.post)"""
        if username is None:
            username, password = self.user[0], self.user[2]
        r = self.request("POST", "/api/login", bearer=None, json={"username": username, "password": password})
        data = js(r) or {}
        if data.get("success"):
            self.access = (data.get("accessToken") or {}).get("jwt")
            self.refresh = (data.get("refreshToken") or {}).get("jwt")
        if isinstance(data.get("csrf_token"), str):
            self._add("login", data["csrf_token"], "login")
        return r

    def logout(self):
        """GET /logout (LogoutPage.get: session logout, revokes the user's stored tokens)"""
        return self.request("GET", "/logout")

    def api_logout(self):
        """DELETE /api/login with the access token (LoginPage.delete)"""
        return self.request("DELETE", "/api/login")

    def refresh_access(self):
        """GET /api/refresh/access - with the refresh token when there is one, otherwise anonymously: the
        handler then answers with a GUEST access token and CSRF tokens (RefreshAccessToken.get)"""
        r = self.request("GET", "/api/refresh/access", bearer="refresh" if self.refresh else None)
        data = js(r) or {}
        tok = data.get("accessToken")
        if isinstance(tok, dict):
            tok = tok.get("jwt")
        elif isinstance(tok, list) and tok:
            tok = tok[0]
        if isinstance(tok, str) and (self.access is None or self.role == "anonymous"):
            self.access = tok
        self._collect(r, "refresh_access", REFRESH_LABELS)
        return r

    def refresh_csrf(self):
        """GET /api/refresh/csrf with the access token (RefreshCsrfTokens.get)"""
        r = self.request("GET", "/api/refresh/csrf")
        self._collect(r, "refresh_csrf", REFRESH_LABELS)
        return r

    # ---- CSRF token pool
    def _add(self, service: str, token: str, source: str) -> None:
        self.pool.setdefault(service, []).append((token, source))

    def _collect(self, resp, source: str, labels: dict | None = None, default: str | None = None) -> int:
        n = 0
        for label, token in extract_tokens(resp):
            service = (labels or {}).get(label) or FIXED_LABELS.get(label) or default
            if service and token:
                self._add(service, token, source)
                n += 1
        return n

    def harvest_page(self, url: str, service: str | None, source: str | None = None, **kw):
        """GET a page and keep every token it embeds; `service` is what the page's own form token is for"""
        r = self.request("GET", url, **kw)
        if r.status == 200:
            self._collect(r, source or url.split("?")[0], None, service)
        return r

    def harvest(self, pages: bool = True) -> dict[str, int]:
        """everything this role can obtain without knowing more than the public object ids"""
        ids = self.w.ids()
        self.refresh_access()
        if self.send_jwt and self.access:
            self.refresh_csrf()
        self.harvest_page("/streams?ajax=1", None, "list_streams")
        if "login" not in self.pool:
            r = self.request("POST", "/api/login", bearer=None, json={"username": "nobody", "password": "x"})
            self._collect(r, "login_failure", None, "login")
        if pages:
            self.harvest_page(f"/stream/{ids['bbb']}?ajax=1", None, "view_stream")
            self.harvest_page(f"/stream/{ids['bbb']}/{ids['bbb_v7']}?ajax=1", "files", "media_info")
            self.harvest_page(f"/stream/{ids['bbb']}/defaults", "streams", "stream_defaults_form")
            self.harvest_page("/media/inspect", "files", "inspect_form")
            if self.send_jwt and self.access:
                self.harvest_page("/api/multi-period-streams/mps1", None, "mps_json",
                                  headers={"Content-Type": "application/json"})
        return {k: len(v) for k, v in self.pool.items()}

    CHEAP_SOURCE = {"streams": "list", "files": "list", "keys": "list", "upload": "list", "kids": "refresh",
                    "login": "login"}

    def token(self, service: str, form_url: str | None = None) -> str | None:
        """a fresh token for `service`: from the form page of the operation when given and visible to this
        role, else from the pool, else from the generic sources; None when the role cannot obtain one"""
        if form_url is not None:
            before = len(self.pool.get(service, []))
            self.harvest_page(form_url, service)
            if len(self.pool.get(service, [])) > before:
                return self.pool[service].pop()[0]
        if not self.pool.get(service):
            how = self.CHEAP_SOURCE.get(service)
            if how == "list":
                self.harvest_page("/streams?ajax=1", None, "list_streams")
            elif how == "refresh":
                self.refresh_access()
            elif how == "login":
                r = self.request("POST", "/api/login", bearer=None, json={"username": "nobody", "password": "x"})
                self._collect(r, "login_failure", None, "login")
            if not self.pool.get(service) and service != "kids":
                self.refresh_access()
        if self.pool.get(service):
            return self.pool[service].pop(0)[0]
        return None

    def _csrf(self, csrf, service: str, form_url: str | None = None) -> str | None:
        if csrf == AUTO:
            return self.token(service, form_url)
        return csrf

    @staticmethod
    def _q(url: str, **params) -> str:
        items = [(k, v) for k, v in params.items() if v is not None]
        if not items:
            return url
        return url + ("&" if "?" in url else "?") + urllib.parse.urlencode(items)

    # ---- streams (requesthandler/streams.py) : CSRF service 'streams'
    def add_stream(self, directory: str, title: str, marlin: str = "", playready: str = "", csrf=AUTO,
                   as_json: bool = False, ajax: bool = False):
        """form POST /streams/add (AddStream.post) or JSON PUT /streams/add (AddStream.put)"""
        tok = self._csrf(csrf, "streams", None if as_json else "/streams/add")
        body = {"title": title, "directory": directory, "marlin_la_url": marlin, "playready_la_url": playready}
        if tok is not None:
            body["csrf_token"] = tok
        if as_json:
            return self.request("PUT", "/streams/add", json=body)
        if ajax:
            body["ajax"] = "1"
        return self.request("POST", "/streams/add", data=body)

    def edit_stream(self, spk: int, title: str, directory: str = "", marlin: str = "", playready: str = "",
                    timing_ref: str | None = "", csrf=AUTO, as_json: bool = False):
        """POST /stream/<spk> (EditStream.post): HTML form, or JSON body as the ajax variant"""
        tok = self._csrf(csrf, "streams")
        body = {"title": title, "directory": directory, "marlin_la_url": marlin, "playready_la_url": playready}
        if timing_ref is not None:
            body["timing_ref"] = timing_ref
        if tok is not None:
            body["csrf_token"] = tok
        if as_json:
            return self.request("POST", f"/stream/{spk}", json=body)
        return self.request("POST", f"/stream/{spk}", data=body)

    def delete_stream(self, spk: int, csrf=AUTO, how: str = "ajax"):
        """how='ajax': DELETE /stream/<spk>?ajax=1&csrf_token= (EditStream.delete, what static/js/media.js sends);
        'form': POST /stream/<spk>/delete (confirm form, DeleteModelBase.post);
        'api': DELETE /stream/<spk>/delete?csrf_token= (DeleteModelBase.delete)"""
        if how == "form":
            tok = self._csrf(csrf, "streams", f"/stream/{spk}/delete")
            body = {"pk": str(spk)}
            if tok is not None:
                body["csrf_token"] = tok
            return self.request("POST", f"/stream/{spk}/delete", data=body)
        tok = self._csrf(csrf, "streams")
        if how == "api":
            return self.request("DELETE", self._q(f"/stream/{spk}/delete", csrf_token=tok))
        return self.request("DELETE", self._q(f"/stream/{spk}", ajax="1", csrf_token=tok))

    def edit_stream_defaults(self, spk: int, fields: dict | None = None, csrf=AUTO):
        """POST /stream/<spk>/defaults (EditStreamDefaults.post): form of CGI option names"""
        tok = self._csrf(csrf, "streams", f"/stream/{spk}/defaults")
        body = dict(fields if fields is not None else {"abr": "0", "depth": "45"})
        if tok is not None:
            body["csrf_token"] = tok
        return self.request("POST", f"/stream/{spk}/defaults", data=body)

    # ---- media files (requesthandler/media_management.py) : services 'upload' and 'files'
    def upload_file(self, spk: int, filename: str, content: bytes, csrf=AUTO, ajax: bool = True,
                    mimetype: str = "video/mp4"):
        """multipart POST /media/<spk>/blob (UploadHandler.post); ajax=1 is what the upload form's script sets"""
        tok = self._csrf(csrf, "upload")
        body = {"ajax": "1" if ajax else "0", "stream": str(spk),
                "file": (io.BytesIO(content), filename, mimetype), "submit": "Upload Media"}
        if tok is not None:
            body["csrf_token"] = tok
        return self.request("POST", f"/media/{spk}/blob", data=body, content_type="multipart/form-data")

    def index_file(self, mfid: int, csrf=AUTO):
        """GET /media/index/<mfid>?csrf_token= (IndexMediaFile.get)"""
        tok = self._csrf(csrf, "files")
        return self.request("GET", self._q(f"/media/index/{mfid}", csrf_token=tok))

    def edit_media(self, spk: int, mfid: int, track_id, lang: str | None = None, csrf=AUTO):
        """form POST /stream/<spk>/<mfid>/edit (EditMedia.post)"""
        tok = self._csrf(csrf, "files", f"/stream/{spk}/{mfid}/edit")
        body = {"track_id": str(track_id)}
        if lang is not None:
            body["lang"] = lang
        if tok is not None:
            body["csrf_token"] = tok
        return self.request("POST", f"/stream/{spk}/{mfid}/edit", data=body)

    def validate_media(self, spk: int, mfid: int, track_id, lang: str):
        """JSON POST /stream/<spk>/<mfid>/validate (ValidateMediaChanges.post)"""
        return self.request("POST", f"/stream/{spk}/{mfid}/validate", json={"track_id": str(track_id), "lang": lang})

    def delete_media(self, spk: int, mfid: int, csrf=AUTO, how: str = "ajax"):
        """'ajax': DELETE /stream/<spk>/<mfid>?csrf_token= (MediaInfo.delete, media.js deleteFile);
        'form': POST /stream/<spk>/<mfid>/delete ; 'api': DELETE /stream/<spk>/<mfid>/delete?csrf_token="""
        if how == "form":
            tok = self._csrf(csrf, "files", f"/stream/{spk}/{mfid}/delete")
            body = {"pk": str(mfid)}
            if tok is not None:
                body["csrf_token"] = tok
            return self.request("POST", f"/stream/{spk}/{mfid}/delete", data=body)
        tok = self._csrf(csrf, "files")
        if how == "api":
            return self.request("DELETE", self._q(f"/stream/{spk}/{mfid}/delete", csrf_token=tok))
        return self.request("DELETE", self._q(f"/stream/{spk}/{mfid}", csrf_token=tok))

    # ---- keys (requesthandler/keypairs.py) : service 'keys'
    def add_key(self, kid: str, key: str | None = None, csrf=AUTO, how: str = "put", computed: bool = False):
        """'put': PUT /key?kid=&key=&csrf_token= (KeyHandler.put, media.js addKey);
        'form': POST /key with hkid/hkey/computed/new_key=1 (KeyHandler.post)"""
        if how == "form":
            tok = self._csrf(csrf, "keys", "/key")
            body = {"hkid": kid, "hkey": key or "", "new_key": "1"}
            if computed:
                body["computed"] = "on"
            if tok is not None:
                body["csrf_token"] = tok
            return self.request("POST", "/key", data=body)
        tok = self._csrf(csrf, "keys")
        return self.request("PUT", self._q("/key", kid=kid, key=key, csrf_token=tok))

    def edit_key(self, kpk: int, key: str, computed: bool = False, csrf=AUTO):
        """form POST /key/<kpk> with hkey/computed/new_key=0 (KeyHandler.post)"""
        tok = self._csrf(csrf, "keys", f"/key/{kpk}")
        body = {"hkey": key, "new_key": "0"}
        if computed:
            body["computed"] = "on"
        if tok is not None:
            body["csrf_token"] = tok
        return self.request("POST", f"/key/{kpk}", data=body)

    def delete_key(self, kpk: int, csrf=AUTO, how: str = "api"):
        """'api': DELETE /key/<kpk>/delete?csrf_token= (DeleteKeyHandler.delete);
        'form': POST /key/<kpk>/delete (DeleteKeyHandler.post)"""
        if how == "form":
            tok = self._csrf(csrf, "keys", f"/key/{kpk}/delete")
            body = {"pk": str(kpk)}
            if tok is not None:
                body["csrf_token"] = tok
            return self.request("POST", f"/key/{kpk}/delete", data=body)
        tok = self._csrf(csrf, "keys")
        return self.request("DELETE", self._q(f"/key/{kpk}/delete", csrf_token=tok))

    # ---- multi-period streams (requesthandler/multi_period_streams.py) : JSON + JWT, service 'streams'
    @staticmethod
    def period(pid: str, stream_pk: int, ordering: int, start: str = "PT0S", duration: str = "PT20S",
               tracks: list | None = None, pk=None, parent=None) -> dict:
        if tracks is None:
            tracks = [(1, "main"), (2, "main")]
        return {"pk": pk, "pid": pid, "parent": parent, "ordering": ordering, "stream": stream_pk, "start": start,
                "duration": duration,
                "tracks": [{"track_id": t[0], "role": t[1], "lang": None, "encrypted": False, "enabled": True}
                           for t in tracks]}

    def add_mps(self, name: str, title: str, periods: list[dict], csrf=AUTO):
        """JSON PUT /api/multi-period-streams/.add (AddStream.put), body as the SPA builds it"""
        tok = self._csrf(csrf, "streams")
        body = {"pk": None, "name": name, "title": title, "options": {}, "periods": periods}
        if tok is not None:
            body["csrf_token"] = tok
        return self.request("PUT", "/api/multi-period-streams/.add", json=body)

    def get_mps(self, name: str):
        r = self.request("GET", f"/api/multi-period-streams/{name}", headers={"Content-Type": "application/json"})
        if r.status == 200:
            self._collect(r, "mps_json")
        return r

    def edit_mps(self, name: str, body: dict, csrf=AUTO, token_in_query: bool = False):
        """JSON POST /api/multi-period-streams/<name> (EditStream.post); body = model as returned by GET, edited.
        token_in_query: csrf_token travels in the query string (csrf_token_required reads it there too)"""
        tok = self._csrf(csrf, "streams")
        body = dict(body)
        url = f"/api/multi-period-streams/{name}"
        if tok is not None and token_in_query:
            url = self._q(url, csrf_token=tok)
        elif tok is not None:
            body["csrf_token"] = tok
        return self.request("POST", url, json=body)

    def delete_mps(self, name: str, csrf=AUTO):
        """DELETE /api/multi-period-streams/<name>?csrf_token= with Content-Type: application/json (the SPA
        sends that header on every request; without it spa_handler serves index.html)"""
        tok = self._csrf(csrf, "streams")
        return self.request("DELETE", self._q(f"/api/multi-period-streams/{name}", csrf_token=tok),
                            headers={"Content-Type": "application/json"})

    def validate_mps(self, body: dict, csrf=AUTO):
        """JSON POST /api/multi-period-streams.validate (ValidateStream.post)"""
        tok = self._csrf(csrf, "streams")
        body = dict(body)
        if tok is not None:
            body["csrf_token"] = tok
        return self.request("POST", "/api/multi-period-streams.validate", json=body)

    # ---- users (requesthandler/user_management.py) : JSON + JWT, no CSRF token
    def list_users(self):
        return self.request("GET", "/api/users", headers={"Content-Type": "application/json"})

    def add_user(self, username: str, email: str, password: str, groups=("user",), must_change: bool = False,
                 confirm: str | None = None):
        """JSON PUT /api/users (ListUsers.put)"""
        body = {"username": username, "email": email, "password": password,
                "confirmPassword": password if confirm is None else confirm, "mustChange": must_change}
        for g in ("admin", "media", "user"):
            body[f"{g}Group"] = g in groups
        return self.request("PUT", "/api/users", json=body)

    def edit_user(self, upk: int, username: str, email: str, password: str = "", groups=("user",),
                  must_change: bool = False):
        """JSON POST /api/users/<upk> (EditUser.post)"""
        body = {"pk": upk, "username": username, "email": email, "password": password, "confirmPassword": password,
                "mustChange": must_change}
        for g in ("admin", "media", "user"):
            body[f"{g}Group"] = g in groups
        return self.request("POST", f"/api/users/{upk}", json=body)

    def delete_user(self, upk: int):
        """DELETE /api/users/<upk> (EditUser.delete)"""
        return self.request("DELETE", f"/api/users/{upk}", headers={"Content-Type": "application/json"})

    def edit_self(self, email: str, password: str = ""):
        """the change-password / e-mail page of the SPA: POST /api/users/<own pk>"""
        pk = self.own_pk()
        name = self.user[0] if self.user else "_AnonymousUser_"
        groups = {"admin": ("admin",), "media": ("user", "media"), "user": ("user",)}.get(self.role, ())
        return self.edit_user(pk, name, email, password, groups=groups)


# --------------------------------------------------------------------------------------------------
# small upload bodies

_body_cache: dict[str, bytes] = {}


def upload_body(kind: str) -> bytes:
    """'fix_t1' (fixture bbb_t1.mp4, 7 KB), 'fix_a1' (fixture bbb_a1.mp4), 'synth_v' / 'synth_a' / 'synth_t' /
    'synth_venc' / 'synth_v2' (vt/synth.py), 'short' (only two fragments), 'junk' (not MP4), 'empty'."""
    from . import app, synth
    if kind in _body_cache:
        return _body_cache[kind]
    if kind == "fix_t1":
        data = (app.FIXTURES / "bbb" / "bbb_t1.mp4").read_bytes()
    elif kind == "fix_a1":
        data = (app.FIXTURES / "bbb" / "bbb_a1.mp4").read_bytes()
    elif kind == "junk":
        data = b"this is not an ISO BMFF file " * 40
    elif kind == "empty":
        data = b""
    else:
        spec = {"synth_v": ("video", False, 1000, [2000] * 4, 1), "synth_v2": ("video", False, 12800, [25600] * 5, 2),
                "synth_a": ("audio", False, 48000, [96000] * 4, 3), "synth_t": ("text", False, 1000, [4000] * 3, 4),
                "synth_venc": ("video", True, 1000, [2000] * 4, 5), "short": ("video", False, 1000, [2000], 6)}[kind]
        track = dict(SPARE_TRACK, kind=spec[0], enc=spec[1], timescale=spec[2], durations=spec[3], iv=8,
                     subsamples=False)
        data = synth.make_file(app.FIXTURES, track, spec[4])
    _body_cache[kind] = data
    return data
