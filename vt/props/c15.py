"""C15 - only authorised roles can change persistent state; CSRF tokens are single-use, per service, per cookie.

Three engines over one in-process application (vt/mgmt.py World, restored from a pristine snapshot at the
start of every case; fixed clock 2024-05-05T10:00:00Z):

* operation_matrix (enumerate, exhaustive): every management operation of vt/mgmt.py x role; inside a case
  every credential variant (session / JWT / both) x CSRF variant (right service / other service / none).
* route_sweep (enumerate, exhaustive): every rule of app.url_map x {GET,HEAD,POST,PUT,DELETE} x role x
  {existing, non-existing} URL variables, generic parameter sets carrying every harvested CSRF token.
* csrf_sequences (hypothesis): issue/use/reuse/cross-service/cross-cookie/tamper sequences as the media role,
  compared with the model "acceptable iff fresh, same service, same cookie, unmodified".

The judge is the DIGEST of vt/mgmt.py: SHA-256 per row of every table except Token + blob listing with hashes.
"""
from __future__ import annotations

import io
import json
import re
import urllib.parse

from ..runner import Engine, Outcome

PROPERTY = "C15"
RULE = ("operation_matrix: the finite table (30 management operations written from their handlers) x 4 roles; per "
        "case every variant {session, JWT, both} x {right-service token, other-service token, none}; each variant "
        "runs against the restored pristine state with a fresh login and a fresh harvest of the tokens that role "
        "can obtain. route_sweep: every url_map rule x 5 methods x 4 roles x {existing, missing} URL variables; "
        "parameter sets: none, ajax=1, each harvested CSRF token under csrf_token in the query, in a multipart "
        "form body and in a JSON body built from the field names the handlers read. csrf_sequences: Hypothesis "
        "draws up to 12 steps issue(service, jar) / use(token, operation, jar, tamper) / age(seconds around the 20 min "
        "replay-record lifetime, with or without intervening logins). Non-trivial: a lesser role "
        "holding at least one harvested token reached a handler (status not 404/405), or a CSRF sequence with >= 2 "
        "uses. distinct = canonical JSON of the case.")
ASSUMPTIONS = [
    "vt/shims stand in for flask_login (session-cookie login only), sqlalchemy_jsonfield, dotenv, netifaces; fixed clock",
    "required role per operation from docs/users.md: media group (admins included, User.has_permission grants every "
    "permission to admins and docs do not forbid it) for streams, stream defaults, media files, keys and multi-period "
    "streams; admin for other users; any logged-in user for their own row; for anonymous the own row is the guest row",
    "persistent state = every table except Token + every file under BLOB_FOLDER; the requester's own User row is exempt",
    "role accounts are stored with 4-round bcrypt hashes (valid hashes; only the login cost differs)",
    "operations that carry a csrf_token in the shipped front end (static/js/media.js, frontend/src/endpoints.ts) are "
    "expected to be CSRF protected; the users API is bearer-token only and is not",
    "CSRF model: the token is the percent-decoded string (the server decodes once more itself), so a re-encoded but "
    "equal token is the same token; acceptable iff never presented before, same service, same csrf cookie",
]
METHODS = ("GET", "HEAD", "POST", "PUT", "DELETE")
_state: dict = {}


def world():
    from .. import mgmt
    return mgmt.get_world()


# --------------------------------------------------------------------------------------------------
# operation table

def _mps_body(a, ids, title="changed title"):
    return {"pk": ids["mps1"], "name": "mps1", "title": title, "options": {}, "periods": [
        a.period("p1", ids["bbb"], 1, "PT4S", "PT32S", pk=ids["period"], parent=ids["mps1"])]}


def op_table():
    """name -> (group, csrf service or None, method, rule, fn(api, ids, csrf) -> Resp)"""
    from .. import mgmt
    w = world()
    return {
        "add_stream_form": ("media", "streams", "POST", "/streams/add",
                            lambda a, i, c: a.add_stream("newdir", "New title", csrf=c)),
        "add_stream_json": ("media", "streams", "PUT", "/streams/add",
                            lambda a, i, c: a.add_stream("newdir", "New title", csrf=c, as_json=True)),
        "edit_stream_form": ("media", "streams", "POST", "/stream/<int:spk>",
                             lambda a, i, c: a.edit_stream(i["bbb"], "Edited title", "bbb", "", "", "bbb_v6", csrf=c)),
        "edit_stream_json": ("media", "streams", "POST", "/stream/<int:spk>",
                             lambda a, i, c: a.edit_stream(i["bbb"], "Edited title", "bbb", "", "", "bbb_v6", csrf=c,
                                                           as_json=True)),
        "delete_stream_ajax": ("media", "streams", "DELETE", "/stream/<int:spk>",
                               lambda a, i, c: a.delete_stream(i["tears"], csrf=c, how="ajax")),
        "delete_stream_form": ("media", "streams", "POST", "/stream/<int:spk>/delete",
                               lambda a, i, c: a.delete_stream(i["tears"], csrf=c, how="form")),
        "delete_stream_api": ("media", "streams", "DELETE", "/stream/<int:spk>/delete",
                              lambda a, i, c: a.delete_stream(i["tears"], csrf=c, how="api")),
        "edit_stream_defaults": ("media", "streams", "POST", "/stream/<int:spk>/defaults",
                                 lambda a, i, c: a.edit_stream_defaults(i["bbb"], csrf=c)),
        "upload_file": ("media", "upload", "POST", "/media/<int:spk>/blob",
                        lambda a, i, c: a.upload_file(i["spare"], "upv.mp4", mgmt.upload_body("synth_v"), csrf=c)),
        "upload_file_form": ("media", "upload", "POST", "/media/<int:spk>/blob",
                             lambda a, i, c: a.upload_file(i["spare"], "upv.mp4", mgmt.upload_body("synth_v"), csrf=c,
                                                           ajax=False)),
        "index_file": ("media", "files", "GET", "/media/index/<int:mfid>",
                       lambda a, i, c: a.index_file(i["spare_v1"], csrf=c)),
        "edit_media": ("media", "files", "POST", "/stream/<int:spk>/<int:mfid>/edit",
                       lambda a, i, c: a.edit_media(i["bbb"], i["bbb_t1"], 7, "fra", csrf=c)),
        "delete_media_ajax": ("media", "files", "DELETE", "/stream/<int:spk>/<int:mfid>",
                              lambda a, i, c: a.delete_media(i["bbb"], i["bbb_a1"], csrf=c, how="ajax")),
        "delete_media_form": ("media", "files", "POST", "/stream/<int:spk>/<int:mfid>/delete",
                              lambda a, i, c: a.delete_media(i["bbb"], i["bbb_a1"], csrf=c, how="form")),
        "delete_media_api": ("media", "files", "DELETE", "/stream/<int:spk>/<int:mfid>/delete",
                             lambda a, i, c: a.delete_media(i["bbb"], i["bbb_a1"], csrf=c, how="api")),
        "add_key_put": ("media", "keys", "PUT", "/key",
                        lambda a, i, c: a.add_key("a1" * 16, "b2" * 16, csrf=c, how="put")),
        "add_key_form": ("media", "keys", "POST", "/key",
                         lambda a, i, c: a.add_key("a1" * 16, "b2" * 16, csrf=c, how="form")),
        "edit_key": ("media", "keys", "POST", "/key/<int:kpk>",
                     lambda a, i, c: a.edit_key(i["free_key"], "c3" * 16, csrf=c)),
        "delete_key_api": ("media", "keys", "DELETE", "/key/<int:kpk>/delete",
                           lambda a, i, c: a.delete_key(i["free_key"], csrf=c, how="api")),
        "delete_key_form": ("media", "keys", "POST", "/key/<int:kpk>/delete",
                            lambda a, i, c: a.delete_key(i["free_key"], csrf=c, how="form")),
        "add_mps": ("media", "streams", "PUT", "/api/multi-period-streams/.add",
                    lambda a, i, c: a.add_mps("mps2", "second mps", [a.period("p1", i["bbb"], 1),
                                                                     a.period("p2", i["tears"], 2)], csrf=c)),
        "edit_mps": ("media", "streams", "POST", "/api/multi-period-streams/<mps_name>",
                     lambda a, i, c: a.edit_mps("mps1", _mps_body(a, i), csrf=c)),
        "delete_mps": ("media", "streams", "DELETE", "/api/multi-period-streams/<mps_name>",
                       lambda a, i, c: a.delete_mps("mps1", csrf=c)),
        "add_user": ("admin", None, "PUT", "/api/users",
                     lambda a, i, c: a.add_user("newuser", "new@dashlive.unit.test", "s3cret!!", groups=("user", "media"))),
        "edit_user": ("admin", None, "POST", "/api/users/<int:upk>",
                      lambda a, i, c: a.edit_user(w.users["victim"], "victim", "changed@dashlive.unit.test",
                                                  groups=("user",))),
        "edit_user_password": ("admin", None, "POST", "/api/users/<int:upk>",
                               lambda a, i, c: a.edit_user(w.users["victim"], "victim", "victim@dashlive.unit.test",
                                                           password="n3wpassw0rd", groups=("user",))),
        "promote_user": ("admin", None, "POST", "/api/users/<int:upk>",
                         lambda a, i, c: a.edit_user(w.users["victim"], "victim", "victim@dashlive.unit.test",
                                                     groups=("user", "media", "admin"))),
        "delete_user": ("admin", None, "DELETE", "/api/users/<int:upk>",
                        lambda a, i, c: a.delete_user(w.users["victim"])),
        "edit_self": ("self", None, "POST", "/api/users/<int:upk>",
                      lambda a, i, c: a.edit_self("myself@dashlive.unit.test")),
        "promote_self": ("self-no-groups", None, "POST", "/api/users/<int:upk>",
                         lambda a, i, c: a.edit_user(a.own_pk(), (a.user or ["_AnonymousUser_"])[0],
                                                     "myself@dashlive.unit.test", groups=("user", "media", "admin"))),
    }


OP_NAMES = [
    "add_stream_form", "add_stream_json", "edit_stream_form", "edit_stream_json", "delete_stream_ajax",
    "delete_stream_form", "delete_stream_api", "edit_stream_defaults", "upload_file", "upload_file_form", "index_file",
    "edit_media", "delete_media_ajax", "delete_media_form", "delete_media_api", "add_key_put", "add_key_form",
    "edit_key", "delete_key_api", "delete_key_form", "add_mps", "edit_mps", "delete_mps", "add_user", "edit_user",
    "edit_user_password", "promote_user", "delete_user", "edit_self", "promote_self",
]
ROLES = ("anonymous", "user", "media", "admin")
OTHER_SERVICE = {"streams": "files", "files": "streams", "keys": "streams", "upload": "files"}
SIG_OP = {"edit_stream_form": "edit_stream", "edit_stream_json": "edit_stream"}      # one handler method


def sig_op(op: str) -> str:
    return SIG_OP.get(op, op)


def authorised(group: str, role: str) -> bool:
    if group == "media":
        return role in ("media", "admin")
    if group == "admin":
        return role == "admin"
    return role != "anonymous" or group == "self"       # self / self-no-groups: judged specially


def check_operation(case) -> Outcome:
    from .. import mgmt
    out = Outcome()
    w = world()
    table = _state.setdefault("ops", op_table())
    op, role = case["op"], case["role"]
    group, service, method, rule, fn = table[op]
    ok_role = authorised(group, role)
    out.cls(f"op:{op}", f"role:{role}", "authorised" if ok_role else "lesser")
    auths = ("session", "jwt") if role == "anonymous" else ("session", "jwt", "both")
    csrfs = ("right", "other", "none") if service else ("none",)
    mutated, reached, held, n = [], False, False, 0
    bad: dict[str, list] = {}
    for auth in auths:
        for cv in csrfs:
            w.restore()
            a = mgmt.Api(w, role, auth)
            ids = w.ids()
            have = a.harvest(pages=False)
            held = held or bool(have)
            if cv == "right":
                tok = mgmt.AUTO
            elif cv == "other":
                tok = a.token(OTHER_SERVICE[service])
                if tok is None:
                    out.cls("no-other-token")
                    continue
            else:
                tok = None
            own = a.own_pk()
            before = w.state()
            a.trace.clear()
            r = fn(a, ids, tok)
            after = w.state()
            n += 1
            if r.status not in (404, 405):
                reached = True
            out.cls(f"status:{r.status // 100}xx")
            exempt = own if group not in ("self-no-groups",) else None
            d = w.diff(before, after, exempt)
            if group == "self-no-groups" and role != "admin":
                # a user may change e-mail/password of the own row, never the groups or the username
                row0 = w_spare_user(w, own)
                row1 = w.sql('select username, groups_mask, must_change from "User" where pk=?', (own,))
                d = [x for x in d if not x.startswith("User:updated:%d" % own)]
                if row1 and row0 != row1[0]:
                    d.append(f"User:groups-or-name-changed:{own}")
            variant = f"{auth}+csrf-{cv}"
            if w.diff(before, after, None):
                mutated.append(variant)
            if not ok_role and d:
                bad.setdefault(f"unauthorised-change/{role}/{method} {rule}", []).append(
                    f"[{op} {variant} -> {r.status}: {d[:5]} via {a.trace[-3:]}]")
            elif group == "self-no-groups" and role != "admin" and d:
                bad.setdefault(f"unauthorised-change/{role}/{method} {rule}/own-groups", []).append(
                    f"[{op} {variant} -> {r.status}: {d[:5]}]")
            elif ok_role and service and d and cv == "other":
                bad.setdefault(f"csrf/other-service-accepted/{sig_op(op)}", []).append(f"[{role} {variant} -> {r.status}: {d[:4]}]")
            elif ok_role and service and d and cv == "none":
                bad.setdefault(f"csrf/missing-accepted/{sig_op(op)}", []).append(f"[{role} {variant} -> {r.status}: {d[:4]}]")
            if r.exc is not None:
                out.cls("5xx-exception")
    for sig, details in sorted(bad.items()):
        out.fail(sig, " ".join(details)[:1800])
    if ok_role and group in ("media", "admin", "self"):
        if mutated:
            out.note("mutated_by_authorised", op)
        else:
            out.note("never_mutated", f"{op}/{role}")
    out.weight = max(1, n)
    out.nontrivial = (not ok_role) and reached and held
    return out


def w_spare_user(w, pk):
    rows = w.spare_db.execute('select username, groups_mask, must_change from "User" where pk=?', (pk,)).fetchall()
    return rows[0] if rows else None


class OperationMatrix(Engine):
    name = "operation_matrix"
    kind = "enumerate"
    exhaustive = True

    def cases(self, tier):
        for op in OP_NAMES:
            for role in ROLES:
                yield {"op": op, "role": role}

    def check(self, case):
        return check_operation(case)


# --------------------------------------------------------------------------------------------------
# route sweep

FIELD_RX = re.compile(
    r"""(?:flask\.request\.(?:args|form|json|files)|\bparams|\bjs|\bdata)\s*(?:\.get(?:list)?\(|\[)\s*(['"])([A-Za-z_][\w]*)\1""")
FIELD_VALUES = {
    "title": "swept title", "directory": "sweptdir", "prefix": "sweptdir", "name": "sweptname",
    "marlin_la_url": "", "playready_la_url": "", "timing_ref": "", "track_id": "3", "lang": "eng",
    "hkid": "5e" * 16, "kid": "5e" * 16, "hkey": "6f" * 16, "key": "6f" * 16, "new_key": "1", "computed": "on",
    "username": "sweptuser", "email": "swept@dashlive.unit.test", "password": "sw3ptpass", "confirmPassword": "sw3ptpass",
    "mustChange": False, "rememberme": False, "periods": [], "tracks": [], "options": {}, "pk": None, "url": "",
    "pid": "p9", "ordering": 1, "start": "PT0S", "duration": "PT10S", "stream": 1, "next": "",
}


def scan_fields() -> list[str]:
    from .. import deps
    names = set()
    for p in sorted((deps.REPO / "dashlive" / "server" / "requesthandler").glob("*.py")):
        for m in FIELD_RX.finditer(p.read_text()):
            names.add(m.group(2))
    names |= {"title", "directory", "marlin_la_url", "playready_la_url", "prefix", "adminGroup", "mediaGroup", "userGroup"}
    names -= {"csrf_token", "ajax", "file"}
    return sorted(names)


def body_fields(as_json: bool) -> dict:
    fields = _state.setdefault("fields", scan_fields())
    out = {}
    for f in fields:
        v = FIELD_VALUES.get(f, False if f.endswith("Group") else "x")
        if not as_json:
            if isinstance(v, (list, dict)) or v is None:
                continue
            v = {True: "on", False: ""}.get(v, v) if isinstance(v, bool) else str(v)
        out[f] = v
    return out


def fill_values(w, rule, fill: str, role: str) -> dict:
    ids = w.ids()
    existing = {
        "spk": ids["bbb"], "mfid": ids["bbb_v7"], "kpk": ids["free_key"], "upk": w.users["victim"], "mps_name": "mps1",
        "stream": "bbb", "manifest": "hand_made.mpd", "mode": "vod", "filename": "bbb_v7", "segment_num": "1",
        "ext": "mp4", "segment_time": 0, "ppk": ids["period"], "publish": 1714903200, "method": "iso",
        "username": "user", "segnum": 1,
    }
    missing = {
        "spk": 987654, "mfid": 987654, "kpk": 987654, "upk": 987654, "mps_name": "nosuchmps", "stream": "nosuch",
        "manifest": "nosuch.mpd", "mode": "vod", "filename": "nosuch", "segment_num": "9999", "ext": "mp4",
        "segment_time": 987654321, "ppk": 987654, "publish": 1, "method": "iso", "username": "nosuchuser", "segnum": 9999,
    }
    src = existing if fill == "existing" else missing
    vals = {}
    for arg in sorted(rule.arguments):
        v = src.get(arg, "x")
        if rule.rule.startswith("/libs/") and arg == "filename":
            v = "routemap.js" if fill == "existing" else "nosuch.js"
        if rule.rule.startswith("/static/") and arg == "filename":
            v = "css/main.css" if fill == "existing" else "nosuch.css"
        if rule.endpoint == "dash-od-media" and arg == "filename":
            v = "bbb_v7" if fill == "existing" else "nosuch"
        vals[arg] = v
    return vals


def sweep_rules():
    w = world()
    rules = sorted(w.app.url_map.iter_rules(), key=lambda r: (r.rule, r.endpoint))
    return rules


def check_route(case) -> Outcome:
    from .. import mgmt
    out = Outcome()
    w = world()
    rules = {(r.rule, r.endpoint): r for r in sweep_rules()}
    rule = rules.get((case["rule"], case["endpoint"]))
    if rule is None:
        out.trivial = "rule-gone"
        return out
    method, role, fill = case["method"], case["role"], case["fill"]
    w.restore()
    adapter = w.app.url_map.bind("localhost")
    try:
        url = adapter.build(rule.endpoint, fill_values(w, rule, fill, role), method=None, force_external=False)
    except Exception as exc:  # noqa: BLE001 - a converter refused our value: a harness gap, say so
        out.trivial = f"cannot-build-url:{type(exc).__name__}"
        return out
    allowed = method in (rule.methods or ())
    a = mgmt.Api(w, role, "both")
    own = a.own_pk()
    full = allowed and fill == "existing"
    services = ["streams", "files", "keys", "login", "upload", "kids"] if full else ["streams"]
    sets: list[tuple[str, dict]] = [("none", {})]
    if allowed:
        sets.append(("ajax", {"query": {"ajax": "1"}}))
    for s in services:
        sets.append((f"q:{s}", {"query": {"ajax": "1"}, "qtoken": s}))
        if allowed and method in ("POST", "PUT"):
            sets.append((f"qform:{s}", {"qtoken": s, "form": True}))
            sets.append((f"form:{s}", {"form": True, "ftoken": s}))
            sets.append((f"json:{s}", {"json": True, "jtoken": s}))
    held = False
    reached = False
    n = 0
    bad: dict[str, list] = {}
    for label, ps in sets:
        q = dict(ps.get("query", {}))
        kw = {}
        tok = None
        svc = ps.get("qtoken") or ps.get("ftoken") or ps.get("jtoken")
        if svc:
            tok = a.token(svc)
            if tok is None:
                continue
            held = True
        if ps.get("qtoken"):
            q["csrf_token"] = tok
        if ps.get("form"):
            body = body_fields(False)
            if ps.get("ftoken"):
                body["csrf_token"] = tok
            body["file"] = (io.BytesIO(mgmt.upload_body("synth_v")), "swept.mp4", "video/mp4")
            kw = {"data": body, "content_type": "multipart/form-data"}
        elif ps.get("json"):
            body = body_fields(True)
            body["csrf_token"] = tok
            kw = {"json": body}
        full_url = url + ("?" + urllib.parse.urlencode(q) if q else "")
        before = w.state()
        r = a.request(method, full_url, **kw)
        after = w.state()
        n += 1
        routing = r.status in (404, 405) and r.exc is None and _is_routing_miss(w, adapter, url, method)
        out.cls("routing-" + str(r.status) if routing else f"handler-{r.status // 100}xx")
        if not routing:
            reached = True
        if r.exc is not None:
            out.cls("5xx-exception")
        d = w.diff(before, after, own)
        if d:
            changed_other_users = [x for x in d if x.startswith("User:")]
            if role in ("anonymous", "user"):
                bad.setdefault(f"unauthorised-change/{role}/{method} {rule.rule}", []).append(
                    f"[{label} {full_url[:80]} -> {r.status}: {d[:5]}]")
            elif role == "media" and changed_other_users:
                bad.setdefault(f"unauthorised-change/{role}/{method} {rule.rule}", []).append(
                    f"[{label} {full_url[:80]} -> {r.status}: {changed_other_users[:5]}]")
            out.cls("state-changed")
            w.restore()
    for sig, details in sorted(bad.items()):
        out.fail(sig, " ".join(details)[:1800])
    out.weight = max(1, n)
    out.nontrivial = role in ("anonymous", "user") and reached and held
    return out


def _is_routing_miss(w, adapter, url, method) -> bool:
    from werkzeug.exceptions import HTTPException
    from werkzeug.routing import RequestRedirect
    try:
        adapter.match(url, method=method)
        return False
    except RequestRedirect:
        return False
    except HTTPException:
        return True


class RouteSweep(Engine):
    name = "route_sweep"
    kind = "enumerate"
    exhaustive = True

    def cases(self, tier):
        from ..runner import case_hash
        out = []
        for rule in sweep_rules():
            for method in METHODS:
                for role in ROLES:
                    for fill in (("existing", "missing") if rule.arguments else ("existing",)):
                        out.append({"rule": rule.rule, "endpoint": rule.endpoint, "method": method, "role": role,
                                    "fill": fill})
        # expensive cases (allowed POST/PUT on existing objects) are adjacent in table order: spread them over the
        # shards with a fixed pseudo-random order
        out.sort(key=case_hash)
        return out

    def check(self, case):
        return check_route(case)


# --------------------------------------------------------------------------------------------------
# CSRF sequences

def _hex(i: int, salt: int) -> str:
    return ("%02x" % ((i * 7 + salt) % 256)) * 16


def seq_ops():
    """name -> (service, perform(api, ctx, token, n) -> Resp | None)   (n = running use counter, ctx = ids/targets)"""
    from .. import mgmt

    def cyc(ctx, key, n):
        lst = ctx[key]
        return lst[n % len(lst)]

    return {
        "add_stream_form": ("streams", lambda a, x, t, n: a.add_stream(f"seq{n}", f"seq title {n}", csrf=t)),
        "add_stream_json": ("streams", lambda a, x, t, n: a.add_stream(f"seq{n}", f"seq title {n}", csrf=t, as_json=True)),
        "edit_stream_form": ("streams", lambda a, x, t, n: a.edit_stream(x["bbb"], f"title {n}", "bbb", "", "", "bbb_v6", csrf=t)),
        "edit_stream_json": ("streams", lambda a, x, t, n: a.edit_stream(x["bbb"], f"title {n}", "bbb", "", "", "bbb_v6", csrf=t,
                                                                        as_json=True)),
        "delete_stream_ajax": ("streams", lambda a, x, t, n: a.delete_stream(cyc(x, "d_streams", n), csrf=t, how="ajax")),
        "delete_stream_form": ("streams", lambda a, x, t, n: a.delete_stream(cyc(x, "d_streams", n), csrf=t, how="form")),
        "delete_stream_api": ("streams", lambda a, x, t, n: a.delete_stream(cyc(x, "d_streams", n), csrf=t, how="api")),
        "edit_stream_defaults": ("streams", lambda a, x, t, n: a.edit_stream_defaults(x["bbb"], {"abr": "0", "depth": str(30 + n)}, csrf=t)),
        "upload_file": ("upload", lambda a, x, t, n: a.upload_file(x["spare"], f"seq{n}.mp4", mgmt.upload_body("synth_v"), csrf=t)),
        "index_file": ("files", lambda a, x, t, n: a.index_file(x["spare_v1"], csrf=t)),
        "edit_media": ("files", lambda a, x, t, n: a.edit_media(x["bbb"], x["bbb_t1"], 10 + n, "fra", csrf=t)),
        "delete_media_ajax": ("files", lambda a, x, t, n: a.delete_media(x["bbb"], cyc(x, "d_files", n), csrf=t, how="ajax")),
        "delete_media_form": ("files", lambda a, x, t, n: a.delete_media(x["bbb"], cyc(x, "d_files", n), csrf=t, how="form")),
        "delete_media_api": ("files", lambda a, x, t, n: a.delete_media(x["bbb"], cyc(x, "d_files", n), csrf=t, how="api")),
        "add_key_put": ("keys", lambda a, x, t, n: a.add_key(_hex(n, 17), _hex(n, 99), csrf=t, how="put")),
        "add_key_form": ("keys", lambda a, x, t, n: a.add_key(_hex(n, 17), _hex(n, 99), csrf=t, how="form")),
        "edit_key": ("keys", lambda a, x, t, n: a.edit_key(x["free_key"], _hex(n, 31), csrf=t)),
        "delete_key_api": ("keys", lambda a, x, t, n: a.delete_key(cyc(x, "d_keys", n), csrf=t, how="api")),
        "delete_key_form": ("keys", lambda a, x, t, n: a.delete_key(cyc(x, "d_keys", n), csrf=t, how="form")),
        "add_mps": ("streams", lambda a, x, t, n: a.add_mps(f"seq{n}", f"seq mps {n}", [a.period("p1", x["bbb"], 1)], csrf=t)),
        "edit_mps": ("streams", lambda a, x, t, n: a.edit_mps("mps1", _mps_body(a, x, f"title {n}"), csrf=t)),
        "delete_mps": ("streams", lambda a, x, t, n: a.delete_mps(cyc(x, "d_mps", n), csrf=t)),
        "validate_mps": ("streams", lambda a, x, t, n: a.validate_mps({"name": "mps1", "title": "abc", "pk": x["mps1"]}, csrf=t)),
    }


SEQ_OP_NAMES = sorted([
    "add_stream_form", "add_stream_json", "edit_stream_form", "edit_stream_json", "delete_stream_ajax",
    "delete_stream_form", "delete_stream_api", "edit_stream_defaults", "upload_file", "index_file", "edit_media",
    "delete_media_ajax", "delete_media_form", "delete_media_api", "add_key_put", "add_key_form", "edit_key",
    "delete_key_api", "delete_key_form", "add_mps", "edit_mps", "delete_mps", "validate_mps"])
SERVICES = ("streams", "files", "keys", "upload", "keys@refresh")
TAMPERS = ("none", "none", "none", "unquote", "lowercase-escapes", "requote", "flip-salt", "flip-sig", "truncate", "append",
           "omit")
CSRF_PHRASES = ("csrf", "signatures do not match", "re-use of", "cookie not present")


B64 = "ABCDEFGHIJKLMNOPQRSTUVWXYZabcdefghijklmnopqrstuvwxyz0123456789+/"
ODD_CHARS = [".", "-", "_", "!", " ", "\n", "\t", "=", "*", "~", "\\", "'", "b", "%41", "\u00e9", ",", ":", "\x00"]


def tamper_strategy():
    """the fixed spellings plus character-level edits anywhere in the token: 'ins:<permille>:<i>' inserts
    ODD_CHARS[i] / a base64 symbol, 'rep:<permille>:<i>' replaces one character by another base64 symbol,
    'del:<permille>' deletes one, 'last:<k>' replaces the last base64 symbol before the padding by the k-th other
    symbol (the ones that differ only in the unused trailing bits included), 'pad+' / 'pad-' add or strip '='."""
    from hypothesis import strategies as st
    pm = st.integers(0, 1000)
    return st.one_of(
        st.sampled_from(TAMPERS), st.sampled_from(TAMPERS),
        st.builds(lambda p, i: f"ins:{p}:{i}", pm, st.integers(0, len(ODD_CHARS) + 63)),
        st.builds(lambda p, i: f"rep:{p}:{i}", pm, st.integers(0, 63)),
        st.builds(lambda p: f"del:{p}", pm),
        st.builds(lambda k: f"last:{k}", st.integers(0, 62)),
        st.sampled_from(["pad+", "pad-"]),
    )


def _char_tamper(token: str, kind: str) -> str | None:
    """edits are made on the unquoted text and the result is quoted again the way the server issues tokens"""
    canon = urllib.parse.unquote(token)
    parts = kind.split(":")
    if parts[0] == "pad+":
        out = canon[:-1] + "=" + canon[-1:] if canon.endswith("'") else canon + "="
    elif parts[0] == "pad-":
        out = canon.replace("=", "", 1) if "=" in canon else canon[:-1]
    elif parts[0] == "last":
        body_end = len(canon)
        while body_end > 0 and canon[body_end - 1] in "='":
            body_end -= 1
        if body_end == 0:
            return token + "A"
        cur = canon[body_end - 1]
        others = [c for c in B64 if c != cur]
        out = canon[:body_end - 1] + others[int(parts[1]) % len(others)] + canon[body_end:]
    else:
        pos = min(len(canon) - 1, len(canon) * int(parts[1]) // 1000)
        if parts[0] == "del":
            out = canon[:pos] + canon[pos + 1:]
        elif parts[0] == "ins":
            i = int(parts[2])
            ch = ODD_CHARS[i] if i < len(ODD_CHARS) else B64[i - len(ODD_CHARS)]
            if ch == "%41":
                return urllib.parse.quote(canon[:pos]) + "%41" + urllib.parse.quote(canon[pos:])
            out = canon[:pos] + ch + canon[pos:]
        else:
            cur = canon[pos]
            others = [c for c in B64 if c != cur]
            out = canon[:pos] + others[int(parts[2]) % len(others)] + canon[pos + 1:]
    if out == canon:
        out = canon + "A"
    return urllib.parse.quote(out)


def tamper(token: str, kind: str) -> str | None:
    if kind == "none":
        return token
    if ":" in kind or kind in ("pad+", "pad-"):
        return _char_tamper(token, kind)
    if kind == "omit":
        return None
    if kind == "unquote":
        return urllib.parse.unquote(token)
    if kind == "lowercase-escapes":
        return re.sub(r"%[0-9A-F]{2}", lambda m: m.group(0).lower(), token)
    if kind == "requote":
        return urllib.parse.quote(token)
    if kind == "truncate":
        return token[:-4]
    if kind == "append":
        return token + "A"
    pos = 3 if kind == "flip-salt" else None
    if pos is None:
        i = 12
        while i < len(token) and (not token[i].isalnum() or "%" in token[max(0, i - 2):i]):
            i += 1
        pos = min(i, len(token) - 1)
    ch = token[pos]
    new = "B" if ch != "B" else "C"
    return token[:pos] + new + token[pos + 1:]


def csrf_rejected(op: str, resp, ctx) -> bool:
    """did the server refuse the request for a CSRF reason?  (written from the handlers' failure branches)"""
    ctype = resp.headers.get("Content-Type", "")
    text = resp.text
    if op == "edit_media":
        # csrf_token_required(next_url=...) redirects a refused request to the stream page
        return resp.status == 302 and resp.headers.get("Location", "").rstrip("/").endswith(f"/stream/{ctx['bbb']}")
    if op.startswith("edit_stream_") and resp.status == 500 and (resp.exc_where or "").startswith("stream.html"):
        # EditStream.post's "csrf check failed" branch renders stream.html without the 'layout' variable
        return True
    if "json" in ctype:
        try:
            data = json.loads(text)
        except ValueError:
            data = None
        vals = []
        if isinstance(data, dict):
            for k in ("error", "errors"):
                v = data.get(k)
                if isinstance(v, str):
                    vals.append(v)
                elif isinstance(v, list):
                    vals += [str(x) for x in v]
        elif isinstance(data, str):
            vals.append(data)
        low = " ".join(vals).lower()
        return any(p in low for p in CSRF_PHRASES) or (resp.status == 401 and not vals)
    if "html" in ctype and resp.status == 200:
        return "CSRF error" in text or "csrf check failed" in text
    if resp.status in (400, 401):
        return "csrf" in text.lower()
    return False


def prepare_disposables(w) -> dict:
    """rows the delete operations may consume (written through the ORM, before the measured steps)"""
    from dashlive.server import models
    with w.app.app_context():
        for k in range(3):
            models.db.session.add(models.Stream(title=f"disposable {k}", directory=f"disp{k}"))
            models.db.session.add(models.Key(hkid=_hex(k, 200), hkey=_hex(k, 201), computed=False))
            models.db.session.add(models.MultiPeriodStream(name=f"dmps{k}", title=f"disposable mps {k}"))
        models.db.session.commit()
        models.db.session.remove()
    ctx = w.ids()
    ctx["d_streams"] = [r[0] for r in w.sql("select pk from Stream where directory like 'disp%' order by pk")]
    ctx["d_keys"] = [r[0] for r in w.sql("select pk from key where hkid in (?,?,?) order by pk",
                                        tuple(_hex(k, 200) for k in range(3)))]
    ctx["d_mps"] = [r[0] for r in w.sql("select name from mp_stream where name like 'dmps%' order by pk")]
    ctx["d_files"] = [r[0] for r in w.sql("select pk from media_file where stream=? and name not in ('bbb_v6','bbb_t1') "
                                          "order by pk", (ctx["bbb"],))]
    return ctx


def check_sequence(case) -> Outcome:
    from .. import mgmt
    out = Outcome()
    w = world()
    ops = _state.setdefault("seq_ops", seq_ops())
    w.restore()
    ctx = prepare_disposables(w)
    jars = {"A": mgmt.Api(w, "media", "both"), "B": mgmt.Api(w, "media", "both")}
    own = jars["A"].own_pk()
    issued: list[dict] = []
    presented: set[str] = set()
    uses = 0
    seen = set()
    aged_at = None          # index into `issued` below which tokens are older than a clock step
    for idx, step in enumerate(case["steps"]):
        if step[0] == "age":
            # the clock moves on (around the 20 minute lifetime the server gives its replay records) and, optionally,
            # somebody else logs in - ordinary events on a running server.  The browser keeps its csrf cookie value
            # (the statement's "cookie it was issued against"); what was spent stays spent.
            from .. import clock
            _, secs, third_party = step
            kept = {j: jars[j].cookie("csrf") for j in jars}
            clock.advance(secs)
            if third_party:
                # a third party logs in, and so do the two browsers (their access tokens may have run out)
                mgmt.Api(w, "user", "session")
                for j in jars:
                    jars[j].access = jars[j].refresh = None
                    jars[j].login()
            for j, v in kept.items():
                if v is not None and jars[j].cookie("csrf") != v:
                    jars[j].c.set_cookie("csrf", v)
            aged_at = len(issued)
            out.cls("aged", "aged+login" if third_party else "aged-only")
            continue
        if step[0] == "issue":
            _, service, jar = step
            source = "page"
            if service == "keys@refresh":
                # the member the refresh end points call 'kids' (the SPA keeps it in its 'kids' store, the same
                # store the 'kids' member of the stream list goes to, which IS valid for key operations)
                jars[jar].pool.pop("kids", None)
                jars[jar].refresh_csrf()
                tok = jars[jar].pool["kids"].pop(0)[0] if jars[jar].pool.get("kids") else None
                service, source = "keys", "refresh"
            else:
                tok = jars[jar].token(service)
            if tok is None and aged_at is not None:
                out.cls("aged-session-cannot-obtain-token")
                continue
            if tok is None:
                out.fail("harness/media-role-cannot-obtain-token/" + service, f"step {idx}")
                continue
            issued.append({"token": tok, "canon": urllib.parse.unquote(tok), "service": service, "jar": jar,
                           "source": source})
            continue
        _, tix, op, jar, tk = step
        service, perform = ops[op]
        rec = issued[tix % len(issued)] if issued else None
        sent = tamper(rec["token"], tk) if rec is not None else None
        if rec is None:
            tk = "omit"
        canon = urllib.parse.unquote(sent) if sent is not None else None
        reasons = []
        if sent is None:
            reasons.append("missing")
        else:
            if canon != rec["canon"]:
                reasons.append("tampered")
            if rec["jar"] != jar:
                reasons.append("other-cookie")
            if rec["service"] != service:
                reasons.append("other-service")
            if canon in presented:
                reasons.append("reuse")
        before = w.state()
        r = perform(jars[jar], ctx, sent, uses)
        after = w.state()
        uses += 1
        d = w.diff(before, after, own)
        rejected = csrf_rejected(op, r, ctx)
        out.cls(f"op:{op}", "model-accept" if not reasons else "model-reject:" + reasons[0])
        where = f"step {idx} {step} -> {r.status} diff={d[:4]}"
        if r.status == 401 and aged_at is not None and not d:
            out.cls("aged-session-unauthenticated")     # the access token ran out with the clock; nothing was decided
            continue
        if r.status == 404:
            out.cls("target-gone")          # uses_stream / uses_keypair answered before the handler ran
            continue
        if canon is not None:
            # the server's replay registry, read with raw SQL: a presented token must be in it afterwards,
            # otherwise it can be presented again (blamed on THIS operation, not on whichever accepts it next)
            if w.one('select count(*) from "Token" where jti=? and token_type=4', (canon,)):
                presented.add(canon)
            else:
                sig = f"csrf/token-not-consumed/{sig_op(op)}"
                if sig not in seen:
                    seen.add(sig)
                    out.fail(sig, f"{where}; the presented token is not in the Token table afterwards")
        if reasons:
            if d:
                sig = f"csrf/{reasons[0]}-accepted/{sig_op(op)}"
                if sig not in seen:
                    seen.add(sig)
                    out.fail(sig, f"{where}; model rejects because {reasons}; tamper={tk}")
            elif not rejected and r.status < 500 and op != "validate_mps":
                out.cls("reject-without-csrf-error")
            if op == "validate_mps" and not rejected and r.status == 200:
                sig = f"csrf/{reasons[0]}-accepted/{sig_op(op)}"
                if sig not in seen:
                    seen.add(sig)
                    out.fail(sig, f"{where}; model rejects because {reasons}")
        elif aged_at is not None and rec is not None and issued.index(rec) < aged_at:
            # a token first presented after the clock moved on: how long an unspent token (and the session that
            # presents it) lives is not part of the statement, so neither outcome is judged
            out.cls("aged-unspent-token-not-judged")
        else:
            if rejected:
                sig = f"csrf/valid-token-rejected/{sig_op(op)}"
                if rec["source"] == "refresh":
                    sig = "csrf/valid-token-rejected/kids-token-of-refresh-endpoints"
                if sig not in seen:
                    seen.add(sig)
                    out.fail(sig, f"{where}; token issued for {rec['service']} to jar {rec['jar']}, first presentation, "
                                  f"tamper={tk}: {r.text[:200]!r}")
            elif not d and op not in ("validate_mps", "index_file") and r.status < 400:
                out.cls("accepted-without-change")
        if r.exc is not None:
            out.cls("5xx-exception")
    out.weight = max(1, uses)
    out.nontrivial = uses >= 2
    return out


class CsrfSequences(Engine):
    name = "csrf_sequences"
    kind = "hypothesis"

    def budget(self, tier):
        return 1600 if tier == "quick" else 60_000

    def strategy(self, tier):
        from hypothesis import strategies as st
        jar = st.sampled_from(["A", "A", "B"])
        issue = st.tuples(st.just("issue"), st.sampled_from(SERVICES), jar)
        use = st.tuples(st.just("use"), st.integers(0, 5), st.sampled_from(SEQ_OP_NAMES), jar, tamper_strategy())

        @st.composite
        def case(draw):
            first = draw(st.lists(issue, min_size=1, max_size=3))
            age_step = st.tuples(st.just("age"), st.sampled_from([60, 1199, 1200, 1201, 1230, 3600, 86400]), st.booleans())
            rest = draw(st.lists(st.one_of(use, use, use, use, use, use, issue, issue, age_step), min_size=2, max_size=12 if tier == "quick" else 24))
            kind = draw(st.integers(0, 3))
            if kind:
                # focused patterns: a token issued for the operation's own service to jar j is used properly, then
                # presented a second time (same or other operation / jar / spelling); or mis-used first and then
                # used properly
                op = draw(st.sampled_from(SEQ_OP_NAMES))
                j = draw(jar)
                svc = _service_of(op)
                if svc == "keys" and draw(st.integers(0, 3)) == 0:
                    svc = "keys@refresh"
                first = [("issue", svc, j)]
                second = ("use", 0, draw(st.sampled_from([op, op, draw(st.sampled_from(SEQ_OP_NAMES))])),
                          draw(st.sampled_from([j, j, "A", "B"])), draw(tamper_strategy()))
                proper = ("use", 0, op, j, "none")
                rest = ([proper, second] if kind < 3 else [second, proper]) + rest
                if draw(st.integers(0, 2)) == 0:
                    # spend, let time pass (either side of the 20 minute replay-record lifetime), present again
                    age = ("age", draw(st.sampled_from([60, 1199, 1200, 1201, 1230, 3600, 86400])), draw(st.booleans()))
                    again = ("use", 0, draw(st.sampled_from([op, op, draw(st.sampled_from(SEQ_OP_NAMES))])), j, "none")
                    rest = [proper, age, again] + rest
            return {"steps": [list(s) for s in first + rest]}
        return case()

    def check(self, case):
        return check_sequence(case)


def _service_of(op: str) -> str:
    if op.startswith(("add_key", "edit_key", "delete_key")):
        return "keys"
    if op in ("index_file", "edit_media") or op.startswith("delete_media"):
        return "files"
    if op == "upload_file":
        return "upload"
    return "streams"


ENGINES = [OperationMatrix(), RouteSweep(), CsrfSequences()]
