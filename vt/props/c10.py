"""C10 - init segments carry exactly the requested protection data, nothing else changes."""
from __future__ import annotations

import base64
import itertools
import struct
import uuid

from ..runner import Engine, Outcome

PROPERTY = "C10"
RULE = ("Finite domain: stored representation (all fixture files + two synthetic streams incl. 16-byte IV) x mode "
        "{live,vod} x drm selection (none, all, all-<locs>, every system with every non-empty location subset, "
        "every pair/triple of systems with per-system location subsets) x playready__version {absent,1.0..4.0}. "
        "Thorough enumerates the full product; quick enumerates all single-system selections and samples the "
        "rest with Hypothesis. The response is diffed box by box against the stored file with the independent "
        "reader. Non-trivial: encrypted representation with >= 1 expected pssh, or live mode with a stored mehd. "
        "distinct = (file, mode, drm string, version).")
ASSUMPTIONS = [
    "vt/shims stand in for flask_login, sqlalchemy_jsonfield, dotenv, netifaces; harness-controlled clock",
    "the stored initialization segment is the file prefix before the first moof; the response may end anywhere "
    "between the end of moov and the first moof (the server attributes the first styp/sidx to the init segment, "
    "pinned by tests/test_segment.py)",
    "PlayReady SystemID 9a04f079-9840-4286-ab92-e65be0885f95, ClearKey pssh SystemID "
    "1077efec-c0b2-4d02-ace3-3c1e52e2fb4b (as published); KID in WRMHEADER is base64 of RFC 4122 bytes_le",
]
PLAYREADY = bytes.fromhex("9a04f07998404286ab92e65be0885f95")
CLEARKEY = bytes.fromhex("1077efecc0b24d02ace33c1e52e2fb4b")
SYSTEMS = ["clearkey", "marlin", "playready"]
LOCS = ["cenc", "moov", "pro"]
VERSIONS = [None, "1.0", "2.0", "3.0", "4.0"]

SYNTH_SPECS = [
    {"ref": 0, "tracks": [
        {"kind": "video", "enc": False, "timescale": 1000, "durations": [4000, 4100, 3900, 4000], "samples": 2,
         "first_dt": 0, "tfdt": True, "styp": True, "sidx": True, "base": "moof", "iv": 8, "subsamples": False,
         "sample_size": 40, "per_sample": True},
        {"kind": "audio", "enc": False, "timescale": 48000, "durations": [192000, 190000, 194000, 192000], "samples": 2,
         "first_dt": 0, "tfdt": True, "styp": False, "sidx": False, "base": "explicit", "iv": 8, "subsamples": False,
         "sample_size": 20, "per_sample": True},
        {"kind": "video", "enc": True, "timescale": 1000, "durations": [4000, 4100, 3900, 4000], "samples": 2,
         "first_dt": 0, "tfdt": True, "styp": True, "sidx": False, "base": "moof", "iv": 16, "subsamples": True,
         "sample_size": 40, "per_sample": True},
        {"kind": "audio", "enc": True, "timescale": 48000, "durations": [192000, 190000, 194000, 192000], "samples": 2,
         "first_dt": 0, "tfdt": True, "styp": False, "sidx": False, "base": "moof", "iv": 8, "subsamples": False,
         "sample_size": 20, "per_sample": True},
    ]},
]


def loc_subsets():
    return ["-".join(c) for r in (1, 2, 3) for c in itertools.combinations(LOCS, r)]


def single_system_strings():
    out = ["none", "all"] + ["all-" + l for l in loc_subsets()]
    for s in SYSTEMS:
        out.append(s)
        out += [f"{s}-{l}" for l in loc_subsets()]
    return out


def multi_system_strings():
    out = []
    opts = [None, ""] + ["-" + l for l in loc_subsets()]        # None = absent, "" = all locations
    for combo in itertools.product(opts, repeat=3):
        parts = [f"{s}{c}" for s, c in zip(SYSTEMS, combo) if c is not None]
        if len(parts) >= 2:
            out.append(",".join(parts))
    return out


def expected_selection(drm: str) -> dict[str, set[str]]:
    """independent reading of the documented drm= syntax -> {system: locations}"""
    drm = drm.lower()
    if drm in ("", "none"):
        return {}
    if drm.startswith("all"):
        locs = set(drm.split("-")[1:]) or set(LOCS)
        return {s: set(locs) for s in SYSTEMS}
    out = {}
    for item in drm.split(","):
        parts = item.split("-")
        out[parts[0]] = set(parts[1:]) or set(LOCS)
    return out


def files():
    """[(stream key, rep name)] for the enumeration; synthetic streams are referred to by index."""
    out = []
    for st in ("bbb", "tears"):
        from .. import app
        d = app.FIXTURES / st
        out += [(st, p.stem) for p in sorted(d.glob(f"{st}_*.mp4"))]
    for i, spec in enumerate(SYNTH_SPECS):
        for j, tr in enumerate(spec["tracks"]):
            out.append((f"synth{i}", j))
    return out


def parse_wrmheader_kids(pro: bytes):
    """PlayReady Object -> (list of KIDs as 16 raw bytes in GUID-LE order, header version, la_url)."""
    from lxml import etree
    length, count = struct.unpack_from("<IH", pro, 0)
    if length != len(pro):
        raise ValueError(f"PRO length field {length} != {len(pro)}")
    pos = 6
    kids, version, la = [], None, None
    for _ in range(count):
        rtype, rlen = struct.unpack_from("<HH", pro, pos)
        pos += 4
        rec = pro[pos:pos + rlen]
        pos += rlen
        if rtype != 1:
            continue
        root = etree.fromstring(rec.decode("utf-16-le").encode("utf-8"))
        version = root.get("version")
        ns = "{http://schemas.microsoft.com/DRM/2007/03/PlayReadyHeader}"
        for k in root.iter(ns + "KID"):
            val = k.get("VALUE") or (k.text or "").strip()
            if val:
                kids.append(base64.b64decode(val))
        la_el = root.find(f"{ns}DATA/{ns}LA_URL")
        la = la_el.text if la_el is not None else None
    if pos != len(pro):
        raise ValueError("PRO records do not fill the object")
    return kids, version, la


def check_init(case) -> Outcome:
    from .. import app, clock, isobox, session
    env = app.shared_env()
    out = Outcome()
    stream_key, rep_key = case["file"]
    if stream_key.startswith("synth"):
        spec = SYNTH_SPECS[int(stream_key[5:])]
        stream = app.add_synth_stream(env, spec)
        from .. import synth
        rep = synth.track_name(stream, rep_key, spec["tracks"][rep_key])
    else:
        stream, rep = stream_key, rep_key
    finfo = env.streams[stream]["files"][rep]
    sc = session.scan(finfo["path"])
    data = open(finfo["path"], "rb").read()
    mode, drm, ver = case["mode"], case["drm"], case["version"]
    ext = {"video": "m4v", "audio": "m4a"}.get(finfo.get("content_type"), "mp4")
    q = [f"drm={drm}"] if drm is not None else []
    if ver is not None:
        q.append(f"playready__version={ver}")
    url = f"/dash/{mode}/{stream}/{rep}/init.{ext}" + ("?" + "&".join(q) if q else "")
    clock.set_now("2024-05-05T10:00:00Z")
    r = env.get(url)
    enc = bool(finfo.get("encrypted"))
    sel = expected_selection(drm or "none")
    out.cls("enc" if enc else "clear", mode, "drm:" + ("none" if not sel else "+".join(sorted(sel))))
    where = f"{url}"
    if r.status >= 500:
        out.fail(f"5xx/{type(r.exc).__name__}/{r.exc_where}", f"{where} -> {r.status} {r.exc!r}")
        return out
    if r.status != 200:
        out.trivial = f"status-{r.status}"
        if not enc or sel:
            # a clear track, or an encrypted one with a DRM selection, must be served
            out.fail(f"refused/{'enc' if enc else 'clear'}/{r.status}", f"{where} -> {r.status} {r.text[:80]!r}")
        return out
    try:
        resp = isobox.Root(r.body)
        stored = isobox.Root(data)
    except isobox.BoxError as exc:
        out.fail("response-not-a-box-tree", f"{where}: {exc}")
        return out
    first_moof = next(i for i, b in enumerate(stored.children) if b.type == b"moof")
    moov_idx = next(i for i, b in enumerate(stored.children) if b.type == b"moov")
    n = len(resp.children)
    if not (moov_idx + 1 <= n <= first_moof):
        out.fail("top-level-box-count", f"{where}: response has {n} top-level boxes {resp.children}, stored init has "
                                         f"{moov_idx + 1}..{first_moof}")
        return out
    for i, (a, b) in enumerate(zip(resp.children, stored.children)):
        if a.type != b.type:
            out.fail("top-level-box-order", f"{where}: box {i} is {a.type} stored {b.type}")
            return out
        if a.type != b"moov" and a.raw != b.raw:
            out.fail(f"top-level-box-changed/{a.type.decode()}", f"{where}: box {i}")
    rmoov, smoov = resp.children[moov_idx], stored.children[moov_idx]
    # expected pssh boxes
    want = []
    if enc:
        for system, locs in sel.items():
            if "moov" in locs and system == "playready":
                want.append(PLAYREADY)
            elif "moov" in locs and system == "clearkey":
                want.append(CLEARKEY)
    stored_kids = rmoov.all(b"tenc")
    kid = None
    if enc:
        from ..isobox import tenc
        kid = tenc(smoov.all(b"tenc")[0])["kid"]
    rc, scn = list(rmoov.children), list(smoov.children)
    extra = rc[len(scn):]
    if len(rc) < len(scn):
        out.fail("moov-child-missing", f"{where}: {rc} vs stored {scn}")
        return out
    for a, b in zip(rc, scn):
        if a.type != b.type:
            out.fail("moov-child-order", f"{where}: {a.type} vs stored {b.type}")
            return out
        if a.type == b"mvex":
            sa = [c for c in b.children if not (mode == "live" and c.type == b"mehd")]
            if [c.raw for c in a.children] != [c.raw for c in sa]:
                kinds = [c.type.decode() for c in a.children]
                out.fail(f"mvex-children/{mode}", f"{where}: response mvex {kinds}, stored "
                                                  f"{[c.type.decode() for c in b.children]} (mehd must go in live only)")
        elif a.raw != b.raw:
            out.fail(f"moov-child-changed/{a.type.decode()}", f"{where}")
    got = []
    for x in extra:
        if x.type != b"pssh":
            out.fail(f"moov-extra-box/{x.type.decode(errors='replace')}", f"{where}")
            continue
        try:
            p = isobox.pssh(x)
        except Exception as exc:
            out.fail("pssh-malformed", f"{where}: {exc}")
            continue
        got.append(p["system_id"])
        if p["system_id"] == CLEARKEY:
            if p["version"] != 1 or set(p["kids"]) != {kid} or p["data"] != b"":
                out.fail("clearkey-pssh-content", f"{where}: version {p['version']} kids {[k.hex() for k in p['kids']]} data {len(p['data'])} (track kid {kid.hex()})")
        elif p["system_id"] == PLAYREADY:
            try:
                kids, hv, la = parse_wrmheader_kids(p["data"])
                if uuid.UUID(bytes=kid).bytes_le not in kids:
                    out.fail("playready-pssh-kid", f"{where}: WRMHEADER kids {[k.hex() for k in kids]} track kid (GUID order) {uuid.UUID(bytes=kid).bytes_le.hex()}")
            except Exception as exc:
                out.fail(f"playready-pro-unparsable/{type(exc).__name__}", f"{where}: {exc}")
    if sorted(got) != sorted(want):
        names = {PLAYREADY: "playready", CLEARKEY: "clearkey"}
        out.fail("pssh-set-wrong/" + ("extra" if len(got) > len(want) else "missing" if len(got) < len(want) else "different"),
                 f"{where}: got {[names.get(g, g.hex()) for g in got]} want {[names.get(w) for w in want]}")
    out.nontrivial = bool(want) or (mode == "live" and sc["has_mehd"])
    if want:
        out.cls("pssh-expected:%d" % len(want))
    return out


class SingleSystems(Engine):
    name = "single_system_enumeration"
    kind = "enumerate"
    exhaustive = True

    def cases(self, tier):
        from .. import app
        app.boot()
        for f in files():
            for mode in ("live", "vod"):
                for drm in [None] + single_system_strings():
                    for v in (VERSIONS if drm and "playready" in drm or drm in ("all",) else [None]):
                        yield {"file": list(f), "mode": mode, "drm": drm, "version": v}

    def check(self, case):
        return check_init(case)


class MultiSystems(Engine):
    """pairs / triples of systems with per-system location subsets: sampled (quick) or enumerated (thorough)."""
    name = "multi_system"

    def __init__(self):
        self.kind = "hypothesis"

    def budget(self, tier):
        return 2500

    def setup(self, tier):
        self.kind = "enumerate" if tier == "thorough" else "hypothesis"
        self.exhaustive = tier == "thorough"

    def cases(self, tier):
        from .. import app
        app.boot()
        for f in files():
            for mode in ("live", "vod"):
                for drm in multi_system_strings():
                    for v in VERSIONS:
                        yield {"file": list(f), "mode": mode, "drm": drm, "version": v}

    def strategy(self, tier):
        from hypothesis import strategies as st
        from .. import app
        app.boot()
        return st.fixed_dictionaries({
            "file": st.sampled_from(files()).map(list), "mode": st.sampled_from(["live", "vod"]),
            "drm": st.sampled_from(multi_system_strings()), "version": st.sampled_from(VERSIONS)})

    def check(self, case):
        return check_init(case)


ENGINES = [SingleSystems(), MultiSystems()]
