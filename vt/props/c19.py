"""C19 - ISO-8601 time text is faithful to the value it encodes.

Oracles are written from the xs:duration / xs:dateTime lexical rules with exact
rational arithmetic (fractions.Fraction); nothing from dashlive is used to judge
dashlive's output except where the statement itself says "parsing it back".
"""
from __future__ import annotations

import datetime
import re
from fractions import Fraction

from ..runner import Engine, Outcome

PROPERTY = "C19"
RULE = ("duration_grid enumerates (whole-second part, microsecond block) pairs and evaluates every "
        "microsecond of the block as float, decimal string and timedelta; duration_random / datetime / "
        "timecode cases come from Hypothesis strategies. Non-trivial: a duration whose fraction is not a "
        "whole millisecond or lies within 2us of a x.xxx5 rounding boundary or carries into the next unit; "
        "a date-time with non-zero microsecond or non-UTC offset; a timecode pair whose timescale does not "
        "divide 10^6. distinct = distinct canonical JSON of the case.")
ASSUMPTIONS = [
    "python fractions/datetime/re are trusted",
    "xs:duration grammar restricted to the PnYnMnDTnHnMnS forms of XML Schema part 2 section 3.2.6",
    "tolerance 0.0005 s + 1e-9 s (binary float input error) for durations, as the statement's half millisecond",
    "timecode round trip tolerance: one tick, or one microsecond (timedelta resolution) when a tick is shorter than that",
]

WHOLE = [0, 1, 59, 60, 3599, 3600, 86399, 86400, 31535999]
HALF_MS = Fraction(1, 2000)
EPS = Fraction(1, 10**9)

XS_DURATION = re.compile(
    r"^P(?:(?P<Y>\d+)Y)?(?:(?P<Mo>\d+)M)?(?:(?P<D>\d+)D)?"
    r"(?:T(?:(?P<H>\d+)H)?(?:(?P<M>\d+)M)?(?:(?P<S>\d+(?:\.\d+)?)S)?)?$")


def parse_xs_duration(text: str):
    """-> (Fraction seconds, dict of fields) or None when not a valid xs:duration."""
    m = XS_DURATION.match(text)
    if not m:
        return None
    g = m.groupdict()
    if all(v is None for v in g.values()):
        return None
    if "T" in text and g["H"] is None and g["M"] is None and g["S"] is None:
        return None
    total = Fraction(0)
    if g["Y"]:
        total += int(g["Y"]) * 365 * 86400
    if g["Mo"]:
        total += int(g["Mo"]) * 30 * 86400
    if g["D"]:
        total += int(g["D"]) * 86400
    if g["H"]:
        total += int(g["H"]) * 3600
    if g["M"]:
        total += int(g["M"]) * 60
    if g["S"]:
        total += Fraction(g["S"])
    return total, g


def judge_duration(fn_to, fn_from, value, exact: Fraction, out: Outcome, tag: str):
    """Apply every clause of the statement to one rendered duration."""
    try:
        text = fn_to(value)
    except Exception as exc:
        out.fail(f"duration/{tag}/raises/{type(exc).__name__}", f"toIsoDuration({value!r}) raised {exc!r}")
        return None
    parsed = parse_xs_duration(text) if isinstance(text, str) else None
    if parsed is None:
        out.fail(f"duration/{tag}/not-xs-duration", f"{value!r} -> {text!r}")
        return None
    got, g = parsed
    if g["S"] is not None and Fraction(g["S"]) >= 60:
        out.fail(f"duration/{tag}/seconds-field>=60", f"{value!r} -> {text!r}")
    if g["M"] is not None and int(g["M"]) >= 60:
        out.fail(f"duration/{tag}/minutes-field>=60", f"{value!r} -> {text!r}")
    if abs(got - exact) > HALF_MS + EPS:
        kind = "carry" if (exact - int(exact)) >= Fraction(9995, 10000) else "value"
        out.fail(f"duration/{tag}/text-off-by-more-than-half-ms/{kind}",
                 f"{value!r} -> {text!r} = {float(got)} (exact {float(exact)})")
    # "parsing it back" with the repository's own parser
    try:
        back = fn_from(text)
        back_s = Fraction(back.days * 86400 + back.seconds) + Fraction(back.microseconds, 10**6)
        if abs(back_s - exact) > HALF_MS + EPS + Fraction(1, 10**6):
            kind = "carry" if (exact - int(exact)) >= Fraction(9995, 10000) else "value"
            out.fail(f"duration/{tag}/parse-back-off/{kind}",
                     f"{value!r} -> {text!r} -> {back!r}")
    except Exception as exc:
        out.fail(f"duration/{tag}/parse-back-raises/{type(exc).__name__}", f"{text!r}: {exc!r}")
    return got


def _fns():
    from dashlive.utils.date_time import from_isodatetime, toIsoDuration
    return toIsoDuration, from_isodatetime


class DurationGrid(Engine):
    """Enumerated sub-space: every microsecond fraction x representative whole parts."""
    name = "duration_grid"
    kind = "enumerate"
    BLOCK = 1000

    def cases(self, tier):
        if tier == "thorough":
            self.exhaustive = True
            for w in WHOLE:
                for b in range(0, 10**6, self.BLOCK):
                    yield {"whole": w, "us_from": b, "us_to": b + self.BLOCK, "stride": 1}
        else:
            # every rounding boundary x.xxx5 +-2us for all wholes, plus a 1% stride
            for w in WHOLE:
                yield {"whole": w, "boundaries": True}
                for b in range(0, 10**6, 100 * self.BLOCK):
                    yield {"whole": w, "us_from": b, "us_to": b + 100 * self.BLOCK, "stride": 97}

    def check(self, case):
        to, frm = _fns()
        out = Outcome()
        w = case["whole"]
        if case.get("boundaries"):
            us_list = [ms * 1000 + 500 + d for ms in range(1000) for d in (-2, -1, 0, 1, 2)]
            out.cls("boundary")
        else:
            us_list = range(case["us_from"], case["us_to"], case["stride"])
            out.cls("stride%d" % case["stride"])
        prev = {}
        n = 0
        for us in us_list:
            exact = Fraction(w) + Fraction(us, 10**6)
            forms = (
                ("float", w + us / 1e6, None),
                ("str", "%d.%06d" % (w, us), exact),
                ("timedelta", datetime.timedelta(seconds=w, microseconds=us), exact),
            )
            for tag, value, ex in forms:
                if ex is None:
                    ex = Fraction(value)       # the float's exact value
                got = judge_duration(to, frm, value, ex, out, tag)
                n += 1
                if got is not None:
                    p = prev.get(tag)
                    if p is not None and p[0] <= ex and p[1] > got:
                        out.fail(f"duration/{tag}/not-monotone", f"{p[2]!r}->{float(p[1])} but {value!r}->{float(got)}")
                    prev[tag] = (ex, got, value)
            if len(out.violations) > 30:
                break
        out.weight = n
        out.nontrivial = True
        # de-duplicate signatures inside one block (keep first detail of each)
        seen = {}
        for s, d in out.violations:
            seen.setdefault(s, d)
        out.violations = list(seen.items())
        return out


class DurationRandom(Engine):
    name = "duration_random"

    def budget(self, tier):
        return 60_000 if tier == "quick" else 3_000_000

    def strategy(self, tier):
        from hypothesis import strategies as st
        century = 100 * 366 * 86400
        whole = st.one_of(st.sampled_from(WHOLE), st.integers(0, century),
                          st.integers(0, 200).map(lambda k: k * 60 + 59),
                          st.integers(0, 2000).map(lambda k: k * 3600 + 3599))
        us = st.one_of(st.integers(0, 999_999),
                       st.integers(0, 999).flatmap(lambda ms: st.integers(-3, 3).map(lambda d: (ms * 1000 + 500 + d) % 10**6)),
                       st.sampled_from([0, 1, 499, 500, 501, 999_499, 999_500, 999_501, 999_999]))
        form = st.sampled_from(["float", "str", "timedelta", "int", "longstr"])
        extra = st.text("0123456789", min_size=0, max_size=9)
        return st.fixed_dictionaries({"whole": whole, "us": us, "form": form, "extra": extra,
                                      "delta_us": st.integers(0, 2000)})

    @staticmethod
    def _value(case, us):
        w = case["whole"]
        f = case["form"]
        if f == "float":
            v = w + us / 1e6
            return v, Fraction(v), "float"
        if f == "int":
            return w, Fraction(w), "float"
        if f == "str":
            return "%d.%06d" % (w, us), Fraction(w) + Fraction(us, 10**6), "str"
        if f == "longstr":
            s = "%d.%06d%s" % (w, us, case["extra"])
            return s, Fraction(float(s)), "str"   # the documented conversion of strings is float()
        return (datetime.timedelta(seconds=w, microseconds=us),
                Fraction(w) + Fraction(us, 10**6), "timedelta")

    def check(self, case):
        to, frm = _fns()
        out = Outcome()
        v1, e1, tag = self._value(case, case["us"])
        g1 = judge_duration(to, frm, v1, e1, out, tag)
        us2 = case["us"] + case["delta_us"]
        if us2 < 10**6 and case["form"] != "int":
            v2, e2, _ = self._value(case, us2)
            g2 = judge_duration(to, frm, v2, e2, out, tag)
            out.weight = 2
            if g1 is not None and g2 is not None:
                lo, hi = ((e1, g1), (e2, g2)) if e1 <= e2 else ((e2, g2), (e1, g1))
                if lo[1] > hi[1]:
                    out.fail(f"duration/{tag}/not-monotone", f"{v1!r} vs {v2!r}")
        frac = e1 - int(e1)
        near = abs((frac * 1000 - int(frac * 1000)) - Fraction(1, 2)) <= Fraction(2, 1000)
        out.cls(case["form"], "carry" if frac >= Fraction(9995, 10000) else ("near-boundary" if near else "plain"),
                "big" if case["whole"] > 31535999 else "small")
        out.nontrivial = (frac * 1000) % 1 != 0 or near
        return out


def _tz(case):
    from dashlive.utils.timezone import UTC, FixedOffsetTimeZone
    kind, mins = case["tz"], case["offset_min"]
    if kind == "naive":
        return None
    if kind == "utc-repo":
        return UTC()
    if kind == "utc-std":
        return datetime.timezone.utc
    if kind == "fixed-repo":
        sign = "-" if mins < 0 else "+"
        return FixedOffsetTimeZone("%s%02d:%02d" % (sign, abs(mins) // 60, abs(mins) % 60))
    return datetime.timezone(datetime.timedelta(minutes=mins))


class DateTimeRoundTrip(Engine):
    name = "datetime"

    def budget(self, tier):
        return 80_000 if tier == "quick" else 4_000_000

    def strategy(self, tier):
        from hypothesis import strategies as st
        us = st.one_of(st.integers(0, 999_999),
                       st.sampled_from([0, 1, 9, 10, 99, 100, 999, 1000, 100_000, 500_000, 999_999, 999_000]),
                       st.integers(0, 999).map(lambda k: k * 1000), st.integers(0, 9).map(lambda k: 10 ** (k % 6)))
        return st.fixed_dictionaries({
            "y": st.one_of(st.integers(2, 9998), st.integers(1970, 2100)), "mo": st.integers(1, 12),
            "d": st.integers(1, 31), "h": st.integers(0, 23), "mi": st.integers(0, 59), "s": st.integers(0, 59),
            "us": us,
            "tz": st.sampled_from(["naive", "utc-repo", "utc-std", "fixed-repo", "fixed-std"]),
            "offset_min": st.one_of(st.integers(-14 * 60, 14 * 60), st.sampled_from([0, 60, -60, 330, -570, 840, -840])),
        })

    def check(self, case):
        from dashlive.utils.date_time import from_isodatetime, to_iso_datetime
        out = Outcome()
        try:
            d = datetime.datetime(case["y"], case["mo"], case["d"], case["h"], case["mi"], case["s"],
                                  case["us"], tzinfo=_tz(case))
        except ValueError:
            out.trivial = "invalid-calendar-date"
            return out
        tzk = case["tz"]
        try:
            text = to_iso_datetime(d)
            back = from_isodatetime(text)
        except Exception as exc:
            out.fail(f"datetime/{tzk}/raises/{type(exc).__name__}", f"{d!r}: {exc!r}")
            return out
        want = d if d.tzinfo is not None else d.replace(tzinfo=datetime.timezone.utc)
        if not isinstance(back, datetime.datetime):
            out.fail(f"datetime/{tzk}/not-a-datetime", f"{text!r} -> {back!r}")
            return out
        if back.microsecond != d.microsecond:
            out.fail("datetime/microsecond-changed", f"{text!r} -> microsecond {back.microsecond}")
        if back.tzinfo is None:
            out.fail(f"datetime/{tzk}/offset-lost", f"{text!r} -> naive {back!r}")
        else:
            if back.utcoffset() != want.utcoffset():
                out.fail(f"datetime/{tzk}/offset-changed", f"{text!r} -> {back.utcoffset()} want {want.utcoffset()}")
            if back.replace(microsecond=0) != want.replace(microsecond=0):
                out.fail(f"datetime/{tzk}/instant-changed", f"{text!r} -> {back!r} want {want!r}")
        off = 0 if d.tzinfo is None else int(d.utcoffset().total_seconds() // 60)
        out.cls(tzk, "us0" if d.microsecond == 0 else ("us-ms" if d.microsecond % 1000 == 0 else "us-fine"),
                "off0" if off == 0 else ("off+" if off > 0 else "off-"))
        out.nontrivial = d.microsecond != 0 or off != 0
        return out


class Timecode(Engine):
    name = "timecode"

    def budget(self, tier):
        return 80_000 if tier == "quick" else 4_000_000

    def strategy(self, tier):
        from hypothesis import strategies as st
        ts = st.one_of(st.integers(1, 10**7),
                       st.sampled_from([1, 2, 3, 7, 10, 24, 25, 30, 600, 1000, 12800, 24000, 44100, 48000, 90000,
                                        10**6, 10**6 + 1, 3 * 10**6, 10**7]))
        return st.fixed_dictionaries({
            "ts": ts,
            "secs": st.one_of(st.integers(0, 100 * 366 * 86400), st.integers(0, 4000), st.just(0)),
            "sub": st.integers(0, 10**7),
            "delta": st.one_of(st.integers(0, 20), st.integers(0, 10**9)),
            "d_us": st.integers(0, 999_999),
            "d_delta_us": st.one_of(st.integers(0, 20), st.integers(0, 10**12)),
        })

    def check(self, case):
        from dashlive.utils.date_time import timecode_to_timedelta, timedelta_to_timecode
        out = Outcome()
        s = case["ts"]
        c1 = case["secs"] * s + case["sub"] % s
        c2 = c1 + case["delta"]
        us = datetime.timedelta(microseconds=1)
        tick_us = Fraction(10**6, s)
        try:
            t1 = timecode_to_timedelta(c1, s)
            t2 = timecode_to_timedelta(c2, s)
            if t1 > t2:
                out.fail("timecode/to-timedelta-not-monotone", f"ts={s} {c1}->{t1} {c2}->{t2}")
            # exactness of the forward conversion: floor to the microsecond
            ex1 = Fraction(c1 * 10**6, s)
            got1 = Fraction((t1.days * 86400 + t1.seconds) * 10**6 + t1.microseconds)
            if not (0 <= ex1 - got1 < 1):
                out.fail("timecode/to-timedelta-off", f"ts={s} c={c1} -> {t1} exact {float(ex1)}us")
            b1 = timedelta_to_timecode(t1, s)
            tol = 1 if s <= 10**6 else -(-s // 10**6)
            if abs(b1 - c1) > tol:
                out.fail("timecode/roundtrip-c-td-c", f"ts={s} c={c1} -> {t1} -> {b1} (tolerance {tol})")
            d1 = datetime.timedelta(seconds=case["secs"], microseconds=case["d_us"])
            d2 = d1 + case["d_delta_us"] * us
            k1 = timedelta_to_timecode(d1, s)
            k2 = timedelta_to_timecode(d2, s)
            if k1 > k2:
                out.fail("timecode/to-timecode-not-monotone", f"ts={s} {d1}->{k1} {d2}->{k2}")
            exk = Fraction((case["secs"] * 10**6 + case["d_us"]) * s, 10**6)
            if not (0 <= exk - k1 < 1):
                out.fail("timecode/to-timecode-off", f"ts={s} d={d1} -> {k1} exact {float(exk)}")
            r1 = timecode_to_timedelta(k1, s)
            diff_us = abs(Fraction(int((d1 - r1) / us)))
            if diff_us >= tick_us + 1:
                out.fail("timecode/roundtrip-td-c-td", f"ts={s} d={d1} -> {k1} -> {r1}")
        except Exception as exc:
            out.fail(f"timecode/raises/{type(exc).__name__}", f"{case}: {exc!r}")
        out.weight = 6
        out.cls("ts>1e6" if s > 10**6 else ("ts|1e6" if 10**6 % s == 0 else "ts-odd"),
                ">2^32" if c1 >= 2**32 else "<2^32")
        out.nontrivial = 10**6 % s != 0
        return out


ENGINES = [DurationGrid(), DurationRandom(), DateTimeRoundTrip(), Timecode()]
