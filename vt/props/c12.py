"""C12 - multi-period presentations tile the timeline and play the right media."""
from __future__ import annotations

import hashlib
import json
from fractions import Fraction

from ..runner import Engine, Outcome

PROPERTY = "C12"
RULE = ("Hypothesis draws a multi-period definition (1-4 periods over the fixture streams and two synthetic streams "
        "whose audio timescale differs from the reference; start offset and duration in milliseconds on and off "
        "segment boundaries; any track subset containing video), mode vod/live, an option vector and a clock. The "
        "definition is written into the database rows the upstream fixtures use, the manifest is read by the "
        "independent MPD reader and every admitted $Number$ (plus the one past the end) is fetched and compared "
        "with the independent scan of the source. Non-trivial: >= 2 periods and a start offset that is not a "
        "multiple of the segment duration, or an audio timescale different from the reference timescale. "
        "distinct = canonical JSON of the case.")
ASSUMPTIONS = [
    "vt/shims stand in for flask_login, sqlalchemy_jsonfield, dotenv, netifaces; harness-controlled clock",
    "rows are written directly (MultiPeriodStream, Period, AdaptationSet) as tests/mixins/flask_base.py does; period "
    "start + duration stays within the source media (the management API enforces nothing here, so longer periods "
    "are generated too and classified separately)",
    "Period start/duration tolerance 1 ms (formatter); first segment of a Period = stored segment whose start is "
    "nearest the Period's source offset (ties, and candidates whose distances differ by less than one tick of the "
    "track timescale, the quantisation of the millisecond offset: either)",
]
_env = {}
SYNTH = [
    {"ref": 0, "tracks": [
        {"kind": "video", "enc": False, "timescale": 1000, "durations": [4000] * 9, "samples": 2, "first_dt": 0,
         "tfdt": True, "styp": False, "sidx": False, "base": "moof", "iv": 8, "subsamples": False, "sample_size": 40,
         "per_sample": True},
        {"kind": "audio", "enc": False, "timescale": 44100, "durations": [176128, 177152, 176128, 176128, 177152, 176128, 176128, 177152, 175104],
         "samples": 2, "first_dt": 0, "tfdt": True, "styp": False, "sidx": False, "base": "moof", "iv": 8,
         "subsamples": False, "sample_size": 20, "per_sample": True}]},
    {"ref": 0, "tracks": [
        {"kind": "video", "enc": False, "timescale": 90000, "durations": [180000, 200000, 170000, 180000, 190000, 160000], "samples": 3,
         "first_dt": 90000, "tfdt": True, "styp": True, "sidx": True, "base": "explicit", "iv": 8, "subsamples": False,
         "sample_size": 50, "per_sample": True},
        {"kind": "audio", "enc": False, "timescale": 48000, "durations": [96000, 98000, 94000, 96000, 96000, 96000], "samples": 2,
         "first_dt": 0, "tfdt": False, "styp": False, "sidx": False, "base": "moof", "iv": 8, "subsamples": False,
         "sample_size": 20, "per_sample": False}]},
]


def env12():
    from .. import app
    if "env" not in _env:
        e = app.make_env()
        _env["synth"] = [app.add_synth_stream(e, s) for s in SYNTH]
        _env["env"] = e
    return _env["env"]


def stream_name(key):
    if key in ("bbb", "tears"):
        return key
    return _env["synth"][int(key[1:])]


def nearest_index(starts: list[int], durs: list[int], offset: Fraction) -> set[int]:
    """indices of the stored segment(s) whose start is nearest `offset` (ticks)"""
    best = min(abs(Fraction(s) - offset) for s in starts)
    # the Period offset is a millisecond value; expressed in the track's timescale it is quantised to a tick, so
    # two candidates whose distances differ by less than two ticks (one tick of offset error moves both distances) are both "nearest"
    return {i for i, s in enumerate(starts) if abs(Fraction(s) - offset) <= best + 2}


def check_mps(case) -> Outcome:
    from .. import app, clock, isobox, mpd, session, strategies
    from dashlive.server import models
    env = env12()
    out = Outcome()
    name = "m" + hashlib.sha1(json.dumps(case["periods"], sort_keys=True).encode()).hexdigest()[:12]
    periods = []
    for i, p in enumerate(case["periods"]):
        sname = stream_name(p["stream"])
        info = env.streams[sname]
        tracks = []
        seen_tid = set()
        for fname, f in sorted(info["files"].items()):
            if f.get("encrypted") or not f.get("indexed"):
                continue
            if f["content_type"] in p["types"] and f["track_id"] not in seen_tid:
                seen_tid.add(f["track_id"])
                tracks.append([f["content_type"], f["track_id"], "main"])
        periods.append({"pid": f"p{i + 1}", "stream": sname, "start": p["start_ms"] / 1000.0, "duration": p["dur_ms"] / 1000.0,
                        "tracks": tracks})
    with env.app.app_context():
        if models.MultiPeriodStream.get(name=name) is None:
            app.add_mps(env, name, "generated", periods)
    try:
        return _walk(env, name, case, periods, out)
    finally:
        with env.app.app_context():
            m = models.MultiPeriodStream.get(name=name)
            if m is not None:
                models.db.session.delete(m)
                models.db.session.commit()


def _walk(env, name, case, periods, out: Outcome) -> Outcome:
    from .. import clock, isobox, mpd, session, strategies
    from dashlive.server import models
    mode = case["mode"]
    first_stream = periods[0]["stream"]
    consts = session.stream_constants(env, first_stream)
    T, start = strategies.resolve_clock(case["clock"], consts["ref_us"], consts["seg_us"], consts["tick_us"])
    opts = dict(case["opts"])
    if start is not None and mode == "live":
        opts["start"] = start
    url = f"/mps/{mode}/{name}/hand_made.mpd" + strategies.query_string(opts)
    s = session.Session(env, T, url).load()
    out.cls("mode:" + mode, f"periods:{len(periods)}")
    if s.resp.status != 200 or s.mpd is None:
        out.trivial = f"manifest-{s.resp.status}" if s.resp.status != 200 else "manifest-unparsable"
        if s.resp.status >= 500:
            out.fail(f"manifest-5xx/{type(s.resp.exc).__name__}/{s.resp.exc_where}", f"{url} {json.dumps(periods)[:300]} -> {s.resp.exc!r}")
        return out
    m = s.mpd
    desc = f"T={T.isoformat()} {url} periods={json.dumps(periods)[:400]}"
    ms = Fraction(1, 1000)
    # ---- tiling
    prev = None
    for p in m.periods:
        if p.duration is None and not (mode == "live" and p is m.periods[-1]):
            out.fail("period-without-duration", f"{desc}: Period {p.id}")
        if prev is not None and prev.duration is not None and abs(p.start - (prev.start + prev.duration)) > ms:
            out.fail("periods-not-contiguous", f"{desc}: Period {prev.id} ends {float(prev.start + prev.duration)} next starts {float(p.start)}")
        prev = p
    ids = [p.id for p in m.periods]
    if len(ids) != len(set(ids)):
        out.fail("period-ids-not-unique", f"{desc}: {ids}")
    if mode == "vod":
        total = sum((p.duration or 0) for p in m.periods)
        if m.mpd_duration is not None and abs(total - m.mpd_duration) > ms:
            out.fail("vod-durations!=mediaPresentationDuration", f"{desc}: sum {float(total)} MPD {float(m.mpd_duration)}")
        want = sum(Fraction(int(round(p["duration"] * 1000)), 1000) for p in periods)
        if abs(total - want) > ms * len(periods):
            out.fail("vod-durations!=defined", f"{desc}: sum {float(total)} defined {float(want)}")
    else:
        if m.ast is None or m.tsbd is None:
            out.trivial = "live-attributes-missing"
            return out
        now_rel = s.now - m.ast
        lo = now_rel - m.tsbd
        if m.periods:
            if m.periods[0].start > max(Fraction(0), lo) + ms:
                out.fail("live-window-start-not-covered", f"{desc}: window starts {float(lo)} first Period starts {float(m.periods[0].start)}")
            last = m.periods[-1]
            end = None if last.duration is None else last.start + last.duration
            if end is not None and end < now_rel - ms:
                out.fail("live-window-end-not-covered", f"{desc}: now {float(now_rel)} last Period ends {float(end)}")
    # ---- media of each Period
    by_pid = {p["pid"]: p for p in periods}
    nontrivial = False
    n_fetch = 0
    for p in m.periods:
        base_pid = p.id.split("_")[0] if mode == "live" else p.id
        pdef = by_pid.get(base_pid)
        if pdef is None:
            out.fail("unknown-period-id", f"{desc}: {p.id}")
            continue
        files = env.streams[pdef["stream"]]["files"]
        ref_consts = session.stream_constants(env, pdef["stream"])
        if mode == "live" and p is not m.periods[-1] and p is not m.periods[0] and len(m.periods) > 3:
            continue            # quick: first and last listed periods of a live window are the interesting ones
        for rep in p.reps:
            finfo = files.get(rep.id)
            tpl = rep.template
            if finfo is None or tpl is None or tpl.media is None or not rep.uses_number or tpl.duration is None:
                continue
            sc = session.scan(finfo["path"])
            ctype = rep.content_type or "?"
            ts = tpl.timescale
            where = f"{desc} Period {p.id} rep {rep.id}"
            iu = rep.init_url()
            if iu:
                r = s.fetch(iu)
                n_fetch += 1
                if r.status != 200:
                    out.fail(f"init/{ctype}/{r.status}", f"{where}: {iu} {r.exc!r}")
            starts = [t - sc["decode_times"][0] for t in sc["decode_times"]]
            offset_ticks = Fraction(int(round(pdef["start"] * 1000)), 1000) * ts
            k0s = nearest_index(starts, sc["durations"], offset_ticks)
            pdur = p.duration if p.duration is not None else Fraction(int(round(pdef["duration"] * 1000)), 1000)
            admitted = -((-(pdur * ts)).__floor__() // tpl.duration) if False else None
            count = int(-(-(pdur * ts) // tpl.duration))       # numbers n with (n - startNumber) * d < duration * ts
            stored_n = len(sc["durations"])
            data = open(finfo["path"], "rb").read()
            prev_end = None
            k0 = None
            beyond_source = False
            for i in range(count):
                n = tpl.start_number + i
                r = s.fetch(rep.media_url(number=n))
                n_fetch += 1
                kexp = None if k0 is None else k0 + i
                if k0 is None:
                    cand = sorted(k0s)
                else:
                    cand = [kexp]
                if all(c >= stored_n for c in cand):
                    beyond_source = True
                    if r.status != 404:
                        out.fail(f"beyond-source-not-404/{ctype}/{r.status}", f"{where}: $Number$={n} maps past the end of the source ({stored_n} segments)")
                    continue
                if r.status != 200:
                    out.fail(f"admitted-number-not-200/{ctype}/{r.status}/{'first' if i == 0 else 'later'}",
                             f"{where}: $Number$={n} (index {i} of {count}; expected stored segment {cand}) -> {r.status} {r.exc!r}")
                    prev_end = None
                    continue
                try:
                    root = isobox.Root(r.body)
                    frag = isobox.Fragment([b for b in root.children if b.type in (b"styp", b"sidx", b"emsg", b"moof", b"mdat")], sc["iv_size"])
                except Exception as exc:
                    out.fail(f"unreadable/{ctype}/{type(exc).__name__}", f"{where}: $Number$={n}: {exc}")
                    continue
                got = [k for k, (a, b) in enumerate(sc["payload_off"]) if data[a:b] == frag.payload]
                hit = [c for c in cand if c in got]
                if not hit:
                    out.fail(f"wrong-source-segment/{ctype}/{'first' if i == 0 else 'later'}",
                             f"{where}: $Number$={n} delivered stored segment {got}, expected {cand} (period source offset {float(offset_ticks)} ticks)")
                    if k0 is None and got:
                        k0 = got[0] - i
                elif k0 is None:
                    k0 = hit[0] - i
                tfdt = frag.decode_time
                k = (hit or got or [None])[0]
                if i == 0 and tfdt is not None and tfdt != 0:
                    # decode times are counted from zero at the Period start (the first segment starts at or
                    # before the Period boundary: its decode time is zero)
                    out.fail(f"first-decode-time-not-zero/{ctype}", f"{where}: $Number$={n} tfdt {tfdt}")
                if prev_end is not None and tfdt is not None and tfdt != prev_end:
                    out.fail(f"decode-times-not-gapless/{ctype}", f"{where}: $Number$={n} tfdt {tfdt} previous ended {prev_end}")
                if tfdt is not None and k is not None:
                    prev_end = tfdt + sc["durations"][k]
            # one past the end of the source must be refused
            if k0 is not None:
                n_past = tpl.start_number + (stored_n - k0)
                r = s.fetch(rep.media_url(number=n_past))
                n_fetch += 1
                if r.status != 404:
                    out.fail(f"beyond-source-not-404/{ctype}/{r.status}", f"{where}: $Number$={n_past} is past the last stored segment")
            if len(periods) >= 2 and (offset_ticks % Fraction(sc["durations"][0])) != 0:
                nontrivial = True
            if ts != ref_consts["timescale"]:
                nontrivial = True
            if beyond_source:
                out.cls("period-longer-than-source")
    out.weight = max(1, n_fetch)
    out.nontrivial = nontrivial and n_fetch > 0
    seen = {}
    for sg, d in out.violations:
        seen.setdefault(sg, d)
    out.violations = list(seen.items())
    return out


class MultiPeriod(Engine):
    name = "multi_period"

    def budget(self, tier):
        return 400 if tier == "quick" else 15_000

    def strategy(self, tier):
        from hypothesis import strategies as st
        from .. import strategies
        dur_ms = {"bbb": 40000, "tears": 64000, "s0": 36000, "s1": 12000}

        def period(stream):
            total = dur_ms[stream]
            seg = {"bbb": 4000, "tears": 4000, "s0": 4000, "s1": 2000}[stream]
            start = st.one_of(st.integers(0, total // seg - 2).map(lambda k: k * seg),
                              st.integers(0, total - 2 * seg))
            return start.flatmap(lambda s0: st.fixed_dictionaries({
                "stream": st.just(stream), "start_ms": st.just(s0),
                "dur_ms": st.one_of(st.integers(1, (total - s0) // seg).map(lambda k: k * seg),
                                    st.integers(seg, max(seg, total - s0)),
                                    st.integers(seg, total + 2 * seg)),
                "types": st.sampled_from([["video"], ["video", "audio"], ["video", "audio", "text"]]),
            }))
        per = st.sampled_from(["bbb", "tears", "s0", "s1"]).flatmap(period)
        return st.fixed_dictionaries({
            "periods": st.lists(per, min_size=1, max_size=4),
            "mode": st.sampled_from(["vod", "vod", "live"]),
            "opts": st.fixed_dictionaries({}, optional={
                "abr": st.sampled_from(["0", "1"]), "base": st.sampled_from(["0", "1"]),
                "depth": st.sampled_from(["30", "60", "200"]), "leeway": st.sampled_from(["0", "16"])}),
            "clock": strategies.live_clock(),
        })

    def check(self, case):
        return check_mps(case)


ENGINES = [MultiPeriod()]
