"""C16 part (b): corrupt or truncated MP4 input is answered with a 4xx response or a reported parse error.

A case is {"base": name of a valid file, "muts": [mutation, ...], "via": "lib" | "http"}; the mutated bytes are
a pure function of it.  Mutations are placed with the independent box walker of vt/isobox.py (box headers,
payload words), never with dashlive code.

  lib   the bytes go to Mp4Atom.load() the four ways the server opens files (mode r/rw x lazy on/off) through a
        source with a deterministic read budget, then every box is touched (toJSON forces the lazy ones).  An
        exception is a reported parse error; what is NOT controlled: the read budget is exceeded (the parser
        is not going to terminate), RecursionError, MemoryError.
  http  the bytes are uploaded by a member of the media group, indexed, and every page and media route that
        reads the file is requested: each answer must be < 500 with no exception reaching Flask, and an index
        request that fails must say so (JSON with "errors" / "error", or 4xx).
"""
from __future__ import annotations

import gc
import json
import signal
import struct

from ..runner import Outcome

BASES = ["fix_t1", "synth_v", "synth_a", "synth_t", "synth_venc", "short", "fix_a1"]
SIZE_MODES = ["zero", "one", "seven", "eight", "minus1", "plus1", "plus8", "half", "double", "huge", "past-parent"]
WORDS = [0, 1, 0x7FFFFFFF, 0x80000000, 0xFFFFFFFF, 0xFFFFFFFE, 0x10000, 0xFFFF]
TYPES = [b"moof", b"traf", b"trun", b"tfhd", b"moov", b"trak", b"mdat", b"senc", b"saiz", b"saio", b"stsd", b"avc1",
         b"mp4a", b"esds", b"avcC", b"sidx", b"emsg", b"pssh", b"uuid", b"free", b"\x00\x00\x00\x00", b"tenc", b"mvhd"]
WATCHDOG_S = 240


class Watchdog(BaseException):
    pass


class CallBudgetExceeded(BaseException):
    """far more Python calls inside dashlive than the size of the input can justify (deterministic stand-in
    for 'runs without bound': a loop over a corrupt count that never reads is invisible to the read budget)"""


def _owner(frame) -> str:
    """Stable name for where a runaway loop lives: the nearest box-level function (parse / load / lazy_load /
    toJSON of a class in mp4.py) up the stack, not the helper that happened to run when the budget ran out."""
    fr = frame
    while fr is not None:
        code = fr.f_code
        if code.co_filename.endswith("/mpeg/mp4.py") and code.co_name in ("parse", "load", "lazy_load", "_to_json", "parse_payload"):
            loc = fr.f_locals
            owner = loc.get("clz") or loc.get("cls") or loc.get("Box") or (type(loc["self"]) if "self" in loc else None)
            cname = getattr(owner, "__name__", None) or "?"
            if cname == "LazyLoadedBox" and "self" in loc:
                cname = getattr(getattr(loc["self"], "_box_class", None), "__name__", cname)
            return f"{cname}.{code.co_name}"
        fr = fr.f_back
    code = frame.f_code
    return code.co_filename.rsplit("/", 1)[-1] + ":" + code.co_name


class CallBudget:
    """counts Python function entries (sys.monitoring PY_START, an order of magnitude cheaper than sys.setprofile)
    and raises CallBudgetExceeded inside the code under test once the limit is passed in a dashlive frame.  The
    cyclic collector is paused inside the region: with millions of live objects its full collections, not the
    code under test, would dominate the time (the address-space limit still bounds memory)."""
    TOOL = 2          # sys.monitoring.PROFILER_ID

    def __init__(self, limit: int):
        self.limit, self.n, self.hit = limit, 0, None

    def __enter__(self):
        import sys
        mon = sys.monitoring
        self.n = 0
        self.hit = None
        self._gc = gc.isenabled()
        gc.disable()

        def start(code, offset):
            self.n += 1
            if self.n > self.limit and "/dashlive/" in code.co_filename:
                mon.set_events(self.TOOL, 0)
                self.hit = _owner(sys._getframe(1))
                raise CallBudgetExceeded()
        try:
            mon.use_tool_id(self.TOOL, "vt-call-budget")
        except ValueError:
            pass
        mon.register_callback(self.TOOL, mon.events.PY_START, start)
        mon.set_events(self.TOOL, mon.events.PY_START)
        return self

    def __exit__(self, *a):
        import sys
        mon = sys.monitoring
        mon.set_events(self.TOOL, 0)
        mon.register_callback(self.TOOL, mon.events.PY_START, None)
        try:
            mon.free_tool_id(self.TOOL)
        except ValueError:
            pass
        if self._gc:
            gc.enable()
        return False


def _alarm(signum, frame):
    raise Watchdog()


def _walk(data: bytes):
    """every box (depth first) the independent reader can delimit; corrupt tails are simply not listed"""
    from .. import isobox
    out = []

    def rec(boxes):
        for b in boxes:
            out.append(b)
            rec(b.children)
    try:
        rec(isobox.parse(data, strict=False))
    except isobox.BoxError:
        pass
    return out


def mutate(data: bytes, muts) -> tuple[bytes, list[str]]:
    labels = []
    for m in muts:
        kind = m[0]
        if not data:
            break
        if kind == "trunc":
            n = len(data) * m[1] // 1000
            data = data[:n]
            labels.append("trunc")
        elif kind == "flip":
            pos = min(len(data) - 1, len(data) * m[1] // 1000)
            data = data[:pos] + bytes([data[pos] ^ (1 << (m[2] % 8))]) + data[pos + 1:]
            labels.append("flip")
        else:
            boxes = _walk(data)
            if not boxes:
                continue
            b = boxes[m[1] % len(boxes)]
            name = b.type.decode("latin1")
            if kind == "size":
                mode = SIZE_MODES[m[2] % len(SIZE_MODES)]
                parent_end = b.parent.end if b.parent is not None else len(data)
                new = {"zero": 0, "one": 1, "seven": 7, "eight": 8, "minus1": b.size - 1, "plus1": b.size + 1,
                       "plus8": b.size + 8, "half": b.size // 2, "double": b.size * 2, "huge": 0xFFFFFFF0,
                       "past-parent": parent_end - b.start + 16}[mode]
                data = data[:b.start] + struct.pack(">I", new & 0xFFFFFFFF) + data[b.start + 4:]
                labels.append(f"size:{mode}")
                labels.append(f"size-of:{name}")
            elif kind == "type":
                t = TYPES[m[2] % len(TYPES)]
                data = data[:b.start + 4] + t + data[b.start + 8:]
                labels.append("type")
            elif kind == "word":
                room = b.size - b.hdr - 4
                if room < 0:
                    continue
                off = b.start + b.hdr + (m[2] % (room // 4 + 1)) * 4 if room >= 4 else b.start + b.hdr
                off = min(off, len(data) - 4)
                if off < 0:
                    continue
                data = data[:off] + struct.pack(">I", WORDS[m[3] % len(WORDS)]) + data[off + 4:]
                labels.append("word")
                labels.append(f"word-in:{name}")
            elif kind == "drop":
                data = data[:b.start] + data[b.end:]
                labels.append(f"drop:{name}")
            elif kind == "dup":
                data = data[:b.end] + data[b.start:b.end] + data[b.end:]
                labels.append("dup")
    return data, labels


def _where(exc) -> str:
    from ..app import innermost_repo_frame
    return innermost_repo_frame(exc.__traceback__)


def _touch(atom, depth=0):
    n = 1
    if depth > 40:
        return n
    for ch in (atom.children or []):
        n += _touch(ch, depth + 1)
    return n


_MEM, _REC, _BUDGET, _OK, _RAISED = "mem", "rec", "budget", "ok", "raised"
_slot = [None, None]


def _try_parse(data: bytes, mode: str, lazy: bool) -> str:
    """One parse + full touch.  Nothing is allocated on the MemoryError path (the heap is exhausted at that
    moment and everything that was being built is still referenced from the traceback): the innermost dashlive
    code object is parked in a pre-allocated slot and the frames are released by returning."""
    from .c04 import _load, ParseBudgetExceeded
    # a run may legitimately hold 65536 samples: about 8 calls each while parsing, about 35 each through toJSON.
    # Two budgets, so that a loop over a corrupt count is stopped within seconds (well before the watchdog)
    cb = CallBudget(1_000_000 + 300 * len(data))
    try:
        with cb:
            wrap = _load(data, mode, lazy, None, "br")
            if not lazy:
                _touch(wrap)
        cb = CallBudget(4_000_000 + 600 * len(data))
        with cb:
            _touch(wrap)
            for ch in wrap.children:
                ch.toJSON()
        return _OK
    except CallBudgetExceeded:
        _slot[0] = cb.hit
        _slot[1] = f"more than {cb.limit} Python calls for {len(data)} bytes of input"
        return _BUDGET
    except ParseBudgetExceeded as exc:
        _slot[1] = str(exc)
        tb = exc.__traceback__
        last = None
        while tb is not None:
            if "/dashlive/" in tb.tb_frame.f_code.co_filename:
                last = tb.tb_frame
            tb = tb.tb_next
        _slot[0] = _owner(last) if last is not None else None
        return _BUDGET
    except MemoryError as exc:
        tb = exc.__traceback__
        while tb is not None:
            if "/dashlive/" in tb.tb_frame.f_code.co_filename:
                _slot[0] = tb.tb_frame.f_code
            tb = tb.tb_next
        return _MEM
    except RecursionError as exc:
        tb = exc.__traceback__
        while tb is not None:
            if "/dashlive/" in tb.tb_frame.f_code.co_filename:
                _slot[0] = tb.tb_frame.f_code
            tb = tb.tb_next
        return _REC
    except Exception as exc:        # a raised error is a reported parse error for a library call
        _slot[1] = type(exc).__name__
        return _RAISED


def _slot_where() -> str:
    code = _slot[0]
    _slot[0] = None
    if code is None:
        return "?"
    if isinstance(code, str):
        return code
    return code.co_filename.rsplit("/", 1)[-1] + ":" + code.co_name


def check_lib(data: bytes, out: Outcome) -> None:
    for mode, lazy in (("r", True), ("r", False), ("rw", True), ("rw", False)):
        tag = f"{mode}-{'lazy' if lazy else 'eager'}"
        gc.collect()
        res = _try_parse(data, mode, lazy)
        if res in (_MEM, _REC):
            # only what happens again on an empty heap is the parser's doing
            gc.collect()
            _slot[0] = None
            res = _try_parse(data, mode, lazy)
            gc.collect()
        if res == _OK:
            out.cls("lib:parsed")
        elif res == _RAISED:
            out.cls("lib:raised:" + str(_slot[1]))
        elif res == _BUDGET:
            out.fail(f"mp4/parse-does-not-terminate@{_slot_where()}", f"{tag}: {_slot[1]}; {len(data)} bytes: {data[:64].hex()}...")
        else:
            name = "MemoryError" if res == _MEM else "RecursionError"
            out.fail(f"mp4/uncontrolled/{name}@{_slot_where()}", f"{tag}: {len(data)} bytes: {data[:64].hex()}...")


_w = {}


def _world():
    from .. import mgmt
    if "w" not in _w:
        _w["w"] = mgmt.get_world()
    return _w["w"]


def check_http(data: bytes, out: Outcome) -> None:
    from .. import mgmt
    w = _world()
    w.restore()
    api = mgmt.Api(w, "media", "both")
    spk = w.one("select pk from Stream where directory='spare'")

    def judge(what, r):
        if r.exc is not None or r.status >= 500:
            exc = type(r.exc).__name__ if r.exc is not None else str(r.status)
            out.fail(f"mp4/5xx/{what}/{exc}@{r.exc_where}", f"{what} -> {r.status} {r.exc!r}; {len(data)} bytes: {data[:48].hex()}...")
            return False
        return True

    r = api.upload_file(spk, "fuzzed.mp4", data, ajax=True)
    if not judge("upload", r):
        return
    mfid = w.one("select pk from media_file where name='fuzzed'")
    if mfid is None:
        out.cls("http:upload-refused")
        return
    r = api.index_file(mfid)
    ok = judge("index", r)
    body = None
    try:
        body = json.loads(r.body)
    except (ValueError, TypeError):
        pass
    indexed = w.one("select rep from media_file where pk=?", (mfid,)) not in (None, "null", "")
    if ok and r.status == 200 and isinstance(body, dict):
        said_failed = bool(body.get("errors")) or bool(body.get("error"))
        if not indexed and not said_failed:
            out.fail("mp4/index-failure-not-reported", f"index -> 200 {r.body[:200]!r} but no representation was stored")
    out.cls("http:indexed" if indexed else "http:index-refused")
    for what, url in (("media-info", f"/stream/{spk}/{mfid}"), ("media-info-json", f"/stream/{spk}/{mfid}?ajax=1"),
                      ("segment-list", f"/stream/{spk}/{mfid}/segments"), ("segment-1", f"/stream/{spk}/{mfid}/segment/1"),
                      ("segment-0", f"/stream/{spk}/{mfid}/segment/0"), ("segment-2", f"/stream/{spk}/{mfid}/segment/2"),
                      ("edit-page", f"/stream/{spk}/{mfid}/edit"), ("stream-page", f"/stream/{spk}")):
        judge(what, api.request("GET", url))
    if indexed:
        # make it the timing reference so that manifests use it, then ask for what the manifest would point at
        r = api.edit_stream(spk, "spare stream", "spare", "", "", "fuzzed", as_json=True)
        judge("edit-stream", r)
        for what, url in (("manifest-vod", "/dash/vod/spare/hand_made.mpd"), ("manifest-live", "/dash/live/spare/hand_made.mpd"),
                          ("manifest-odvod", "/dash/odvod/spare/manifest_vod_aiv.mpd"),
                          ("init", "/dash/vod/spare/fuzzed/init.m4v"), ("seg-1", "/dash/vod/spare/fuzzed/1.m4v"),
                          ("seg-2", "/dash/vod/spare/fuzzed/2.m4v"), ("seg-live", "/dash/live/spare/fuzzed/time/0.m4v"),
                          ("ondemand", "/dash/odvod/spare/fuzzed.mp4")):
            judge(what, api.request("GET", url))


def check_mp4(case) -> Outcome:
    from .. import mgmt
    out = Outcome()
    base = mgmt.upload_body(case["base"])
    data, labels = mutate(base, case["muts"])
    out.cls("base:" + case["base"], "via:" + case["via"], *labels)
    old = signal.signal(signal.SIGALRM, _alarm)
    try:
        signal.setitimer(signal.ITIMER_REAL, WATCHDOG_S, 2.0)   # repeats: an alarm raised inside a callback that swallows exceptions is not lost
        try:
            if case["via"] == "lib":
                check_lib(data, out)
            else:
                check_http(data, out)
        finally:
            signal.setitimer(signal.ITIMER_REAL, 0)
    except Watchdog:
        # wall-clock limits are not correctness signals: counted, not reported
        out.cls("inconclusive:watchdog")
        out.note("watchdog", json.dumps(case)[:300])
    finally:
        signal.signal(signal.SIGALRM, old)
    out.nontrivial = data != base and bool(labels)
    out.weight = 4 if case["via"] == "lib" else 12
    seen = {}
    for s, d in out.violations:
        seen.setdefault(s, d)
    out.violations = list(seen.items())
    return out


def strategy():
    from hypothesis import strategies as st
    pm = st.integers(0, 1000)
    mut = st.one_of(
        st.tuples(st.just("trunc"), pm),
        st.tuples(st.just("flip"), pm, st.integers(0, 7)),
        st.tuples(st.just("size"), st.integers(0, 200), st.integers(0, len(SIZE_MODES) - 1)),
        st.tuples(st.just("size"), st.integers(0, 200), st.integers(0, len(SIZE_MODES) - 1)),
        st.tuples(st.just("type"), st.integers(0, 200), st.integers(0, len(TYPES) - 1)),
        st.tuples(st.just("word"), st.integers(0, 200), st.integers(0, 64), st.integers(0, len(WORDS) - 1)),
        st.tuples(st.just("word"), st.integers(0, 200), st.integers(0, 64), st.integers(0, len(WORDS) - 1)),
        st.tuples(st.just("drop"), st.integers(0, 200)),
        st.tuples(st.just("dup"), st.integers(0, 200)),
    ).map(list)
    return st.fixed_dictionaries({
        "base": st.sampled_from(BASES),
        "muts": st.lists(mut, min_size=1, max_size=3),
        "via": st.sampled_from(["lib", "lib", "http"]),
    })
