"""C06 - static manifests describe the stored media completely and exactly."""
from __future__ import annotations

import re
from fractions import Fraction

from ..runner import Engine, Outcome

PROPERTY = "C06"
RULE = ("Hypothesis draws (stream: fixture or synthetic, template supporting vod/odvod read from manifest_map, "
        "mode, option vector over abr/acodec/base/drm/timeline/events/bugs). For every Representation the "
        "enumerated segments (numbers, timeline entries or SegmentList ranges) are all fetched in order plus "
        "the one past the end; bodies are read with the independent box reader and compared with an "
        "independent scan of the stored file. Non-trivial: the walk reached last and last+1 of at least one "
        "Representation. distinct = canonical JSON of the case.")
ASSUMPTIONS = [
    "vt/shims stand in for flask_login, sqlalchemy_jsonfield, dotenv, netifaces; harness-controlled clock",
    "ground truth = vt/isobox.py scan of the stored file: a segment is [styp][sidx][emsg] moof mdat",
    "'to the millisecond' = |declared - reference| <= 0.5 ms (the formatter rounds to 1 ms)",
    "number of enumerated $Number$ values: ceil(Period duration x timescale / @duration) (5.3.9.5.3)",
]
RANGE = re.compile(r"^(\d+)-(\d+)$")


def static_templates():
    from dashlive.server.manifests import manifest_map
    out = []
    for name, m in sorted(manifest_map.items()):
        for mode in ("vod", "odvod"):
            if mode in m.supported_modes():
                out.append((name, mode))
    return out


def _ceil(fr: Fraction) -> int:
    return -((-fr.numerator) // fr.denominator)


def walk_template(s, rep, sc, out: Outcome, where: str, ctype: str, period_dur: Fraction):
    """live-profile static manifest: enumerate, fetch in order, check the track."""
    from .. import isobox
    tpl = rep.template
    tl = tpl.timeline()
    items = []          # (label, url)
    if tl is not None:
        for i, (t, d) in enumerate(tl):
            if rep.uses_time:
                items.append((f"$Time$={t}", rep.media_url(time=t), t, d))
            else:
                items.append((f"$Number$={tpl.start_number + i}", rep.media_url(number=tpl.start_number + i), t, d))
        t_end = tl[-1][0] + tl[-1][1]
        past = rep.media_url(time=t_end) if rep.uses_time else rep.media_url(number=tpl.start_number + len(tl))
        mode = "time" if rep.uses_time else "tl-number"
    else:
        if tpl.duration is None or period_dur is None:
            return False
        n = _ceil(period_dur * tpl.timescale / tpl.duration)
        for i in range(n):
            items.append((f"$Number$={tpl.start_number + i}", rep.media_url(number=tpl.start_number + i), None, None))
        past = rep.media_url(number=tpl.start_number + n)
        mode = "number"
    out.cls("addr:" + mode)
    stored_n = len(sc["durations"])
    tail_extra = False
    durs = sc["durations"]
    # the server's @duration estimate: the mean of the stored durations without the last one (scaled to the
    # advertised timescale).  C06-K1 is about this estimate being shorter than period / segment-count, nothing else
    est_ok = False
    if mode == "number" and stored_n >= 2 and sc.get("timescale"):
        est = Fraction(sum(durs[:-1]), stored_n - 1) * tpl.timescale / sc["timescale"]
        est_ok = abs(Fraction(tpl.duration) - est) <= 1
    if mode == "number" and len(items) == stored_n + 1 and \
            period_dur * tpl.timescale - stored_n * tpl.duration < tpl.duration:
        # the advertised average @duration is shorter than (period duration / stored segments): a client
        # computes one more $Number$ than there is media for
        tail_extra = True
        out.fail(f"number/{ctype}/tail-number-beyond-stored-media",
                 f"{where}: ceil({float(period_dur)}s x {tpl.timescale} / {tpl.duration}) = {len(items)} numbers, "
                 f"the file holds {stored_n} segments")
        items = items[:-1]
        past = rep.media_url(number=tpl.start_number + stored_n)
    elif mode == "number" and len(items) > stored_n + 1 and est_ok:
        # the same estimate, made much shorter by a runt segment that is not the last one: several surplus numbers
        tail_extra = True
        out.fail(f"number/{ctype}/tail-number-beyond-stored-media",
                 f"{where}: ceil({float(period_dur)}s x {tpl.timescale} / {tpl.duration}) = {len(items)} numbers, "
                 f"the file holds {stored_n} segments; @duration is the mean of all but the last stored duration")
        items = items[:stored_n]
        past = rep.media_url(number=tpl.start_number + stored_n)
    if len(items) != stored_n:
        out.fail(f"{mode}/{ctype}/enumerated-count!=stored-segments",
                 f"{where}: manifest enumerates {len(items)} segments, the file holds {stored_n} "
                 f"(period {float(period_dur) if period_dur else None}s, @duration {tpl.duration}/{tpl.timescale})")
    prev_end = None
    total = 0
    first = True
    for idx, (label, u, t, d) in enumerate(items):
        r = s.fetch(u)
        if r.status != 200:
            pos = "first" if idx == 0 else ("last" if idx == len(items) - 1 else "middle")
            extra = "beyond-stored" if idx >= stored_n else "stored"
            out.fail(f"{mode}/{ctype}/enumerated-not-200/{pos}/{extra}/{r.status}", f"{where} {label} -> {r.status} {r.exc!r}")
            prev_end = None
            continue
        try:
            root = isobox.Root(r.body)
            frag = isobox.Fragment([b for b in root.children if b.type in (b"styp", b"sidx", b"emsg", b"moof", b"mdat")],
                                   sc["iv_size"])
            tfdt = frag.decode_time
            dur = None
            if all("duration" in x for x in frag.trun["samples"]) or "default_sample_duration" in frag.tfhd:
                dur = sum(x.get("duration", frag.tfhd.get("default_sample_duration")) for x in frag.trun["samples"])
        except Exception as exc:
            out.fail(f"{mode}/{ctype}/unreadable/{type(exc).__name__}", f"{where} {label}: {exc}")
            prev_end = None
            continue
        if dur is None and idx < stored_n:
            dur = sc["durations"][idx]      # trex default: take the stored value for the running sum only
        if first:
            first = False
            if tfdt != sc["decode_times"][0]:
                out.fail(f"{mode}/{ctype}/first-decode-time", f"{where} {label}: tfdt {tfdt}, file starts at {sc['decode_times'][0]}")
        if prev_end is not None and tfdt != prev_end:
            out.fail(f"{mode}/{ctype}/gap-between-consecutive", f"{where} {label}: tfdt {tfdt} but previous ended at {prev_end}")
        if t is not None and rep.uses_time and tfdt is not None and tfdt != t + 0 and tfdt - sc["decode_times"][0] != t:
            out.fail(f"{mode}/{ctype}/tfdt!=t", f"{where} {label}: tfdt {tfdt}")
        if tfdt is not None and dur is not None:
            prev_end = tfdt + dur
            total += dur
    if len(items) == stored_n and prev_end is not None and total != sum(sc["durations"]):
        out.fail(f"{mode}/{ctype}/total-duration", f"{where}: fetched {total} ticks, stored {sum(sc['durations'])}")
    r = s.fetch(past)
    if r.status != 404:
        out.fail(f"{mode}/{ctype}/past-the-end-not-404/{r.status}", f"{where} {past} -> {r.status}")
    return True


def walk_segment_list(s, rep, sc, path, out: Outcome, where: str, ctype: str):
    """on-demand profile: byte ranges must tile the stored file."""
    from .. import mpd
    sl = rep.segment_list
    data = open(path, "rb").read()
    size = len(data)
    init = sl.find(mpd.Q + "Initialization")
    urls = sl.findall(mpd.Q + "SegmentURL")
    ranges = []
    for el, attr in [(init, "range")] + [(u, "mediaRange") for u in urls]:
        m = RANGE.match(el.get(attr, "")) if el is not None else None
        if not m:
            out.fail(f"odvod/{ctype}/bad-range-syntax", f"{where}: {attr}={el.get(attr) if el is not None else None!r}")
            return False
        ranges.append((int(m.group(1)), int(m.group(2))))
    out.cls("addr:segment-list")
    if len(ranges) - 1 != len(sc["durations"]):
        out.fail(f"odvod/{ctype}/range-count!=stored-segments", f"{where}: {len(ranges) - 1} ranges, {len(sc['durations'])} stored")
    if ranges[0][0] != 0:
        out.fail(f"odvod/{ctype}/init-not-at-0", f"{where}: {ranges[0]}")
    for (a0, b0), (a1, b1) in zip(ranges, ranges[1:]):
        if a1 != b0 + 1:
            out.fail(f"odvod/{ctype}/ranges-not-contiguous/{'gap' if a1 > b0 + 1 else 'overlap'}",
                     f"{where}: {a0}-{b0} then {a1}-{b1}")
            break
    if ranges[-1][1] != size - 1:
        out.fail(f"odvod/{ctype}/last-range-not-at-eof", f"{where}: {ranges[-1]} size {size}")
    # box boundaries of the stored file
    starts = set(sc["box_starts"])
    for k, (a, b) in enumerate(ranges[1:]):
        if k >= len(sc["frag_start"]):
            break
        if a not in starts or (b + 1) not in starts and b + 1 != size:
            out.fail(f"odvod/{ctype}/range-not-on-box-boundary", f"{where}: range {a}-{b}")
            continue
        if not (a <= sc["moof_start"][k] and b + 1 >= sc["frag_end"][k]) or \
                (k + 1 < len(sc["moof_start"]) and b + 1 > sc["moof_start"][k + 1]):
            out.fail(f"odvod/{ctype}/range-does-not-hold-exactly-segment-k", f"{where}: range {k} {a}-{b}")
            continue
        if a != sc["frag_start"][k]:
            out.fail(f"odvod/{ctype}/range-starts-at-moof-not-at-segment-prefix",
                     f"{where}: range {k} starts at {a} (the moof) but the segment starts at {sc['frag_start'][k]} "
                     f"with its styp/sidx; the prefix is attributed to the previous range")
    # ranged GETs return exactly those bytes
    base = rep.base
    for k, (a, b) in enumerate(ranges):
        if b >= size or a > b:
            continue
        r = s.fetch(base, headers={"Range": f"bytes={a}-{b}"})
        if r.status != 206 or r.body != data[a:b + 1]:
            out.fail(f"odvod/{ctype}/ranged-get-differs", f"{where}: bytes={a}-{b} -> {r.status} len {len(r.body)}")
            break
    return True


def check_static(case) -> Outcome:
    from .. import app, clock, mpd, session, strategies
    env = app.shared_env()
    out = Outcome()
    stream = session.resolve_stream(env, case["stream"])
    consts = session.stream_constants(env, stream)
    T = clock.parse_iso("2024-05-05T10:00:00Z")
    url = f"/dash/{case['mode']}/{stream}/{case['template']}" + strategies.query_string(case["opts"])
    s = session.Session(env, T, url).load()
    out.cls("tpl:" + case["template"], "mode:" + case["mode"], "stream:" + session.stream_label(case["stream"]))
    if s.resp.status != 200 or s.mpd is None:
        out.trivial = f"manifest-{s.resp.status}" if s.resp.status != 200 else "manifest-unparsable"
        return out
    m = s.mpd
    where0 = f"{url}"
    if m.type != "static":
        out.fail("not-static", where0)
        return out
    # (3) declared presentation duration == timing-reference duration to the millisecond
    ref = Fraction(consts["ref_ticks"], consts["timescale"])
    declared = m.mpd_duration
    if declared is None and m.periods and all(p.duration is not None for p in m.periods):
        declared = sum(p.duration for p in m.periods)
    if declared is None:
        out.fail("no-presentation-duration", where0)
    elif abs(declared - ref) > Fraction(1, 2000):
        out.fail("presentation-duration!=reference", f"{where0}: declared {float(declared)} reference {float(ref)}")
    files = env.streams[stream]["files"]
    reached = False
    for rep in m.reps:
        finfo = files.get(rep.id)
        if finfo is None:
            continue
        ctype = rep.content_type or "?"
        sc = session.scan(finfo["path"])
        where = f"{url} rep {rep.id}"
        period_dur = rep.period.duration if rep.period.duration is not None else (
            m.mpd_duration - rep.period.start if m.mpd_duration is not None else None)
        iu = rep.init_url()
        if iu is not None and case["mode"] != "odvod":
            r = s.fetch(iu)
            if r.status != 200:
                out.fail(f"init/{ctype}/{r.status}", f"{where} {iu}")
        try:
            if case["mode"] == "odvod" and rep.segment_list is not None:
                reached |= bool(walk_segment_list(s, rep, sc, finfo["path"], out, where, ctype))
            elif rep.template is not None and rep.template.media is not None and case["mode"] != "odvod":
                reached |= bool(walk_template(s, rep, sc, out, where, ctype, period_dur))
        except mpd.MpdError as exc:
            out.fail(f"manifest-structure/{ctype}", f"{where}: {exc}")
    out.nontrivial = reached
    seen = {}
    for sg, d in out.violations:
        seen.setdefault(sg, d)
    out.violations = list(seen.items())
    return out


class StaticWalk(Engine):
    name = "static_walk"

    def budget(self, tier):
        return 500 if tier == "quick" else 20_000

    def strategy(self, tier):
        from hypothesis import strategies as st
        from .. import app, strategies, synth
        app.boot()
        tm = static_templates()
        opts = st.fixed_dictionaries({}, optional={
            "abr": st.sampled_from(["0", "1"]), "acodec": st.sampled_from(["mp4a", "ec-3", "any"]),
            "base": st.sampled_from(["0", "1"]), "drm": strategies.drm_selection(),
            "timeline": st.sampled_from(["0", "1"]), "bugs": st.sampled_from(["saio", "none"]),
            "events": st.sampled_from(["ping", "scte35"]),
        })
        return st.builds(lambda t, o, sm: {"template": t[0], "mode": t[1], "opts": o, "stream": sm},
                         st.sampled_from(tm), st.one_of(st.just({}), opts),
                         st.one_of(st.sampled_from(["bbb", "tears"]),
                                   st.builds(lambda sp: {"synth": sp}, synth.stream_specs())))

    def check(self, case):
        return check_static(case)


class DefaultsSweep(Engine):
    """every (fixture stream, template, mode) once with default options"""
    name = "defaults_sweep"
    kind = "enumerate"
    exhaustive = True

    def cases(self, tier):
        from .. import app
        app.boot()
        for name, mode in static_templates():
            for stream in ("bbb", "tears"):
                for opts in ({}, {"timeline": "1"}, {"drm": "all"}):
                    yield {"template": name, "mode": mode, "opts": opts, "stream": stream}

    def check(self, case):
        return check_static(case)


ENGINES = [DefaultsSweep(), StaticWalk()]
