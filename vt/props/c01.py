"""C01 - every segment a live manifest advertises is retrievable.

The advertised set is computed from the manifest document alone (vt/mpd.py,
exact rationals); each member is requested at the same controlled instant
through the URL the manifest spells out.
"""
from __future__ import annotations

from fractions import Fraction
from urllib.parse import parse_qs, urlsplit

from ..runner import Engine, Outcome

PROPERTY = "C01"
RULE = ("Hypothesis draws (stream in fixture+synthetic streams, live-capable manifest template read from "
        "manifest_map, option vector over depth/start/leeway/mup/timeline/drm/abr/acodec/base/events/patch/"
        "time/bugs, phase-controlled clock: elapsed = loops*reference_duration + k*segment + phi with phi in "
        "{0,1us,1 tick,half,segment-1us,uniform}). The manifest is parsed independently; every timeline entry "
        "with end <= T and every $Number$ whose 5.3.9.5.3 window contains T is fetched (quick: all within 3 of "
        "either edge + 12 interior per Representation; thorough: up to 400). Non-trivial: manifest 200 and at "
        "least one fetched segment lies within one segment of a window edge. distinct = canonical JSON of case.")
ASSUMPTIONS = [
    "vt/shims stand in for flask_login, sqlalchemy_jsonfield, dotenv, netifaces; harness-controlled clock",
    "availability per ISO/IEC 23009-1 5.3.9.5.3 from MPD@availabilityStartTime, @timeShiftBufferDepth, "
    "Period@start, @startNumber, @duration, @timescale only; timeline entries: end <= T",
    "clock drift option excluded (the manifest is intentionally generated for another instant)",
    "a manifest answered 4xx/5xx or not parseable is a trivial case here (C05/C16 judge those)",
]


def live_templates():
    from dashlive.server.manifests import manifest_map
    return sorted(n for n, m in manifest_map.items() if "live" in m.supported_modes())


def _edge(idx: int, n: int) -> str:
    if idx <= 2:
        return f"oldest+{idx}"
    if n - 1 - idx <= 2:
        return f"newest-{n - 1 - idx}"
    return "interior"


def check_live(case, interior_cap: int) -> Outcome:
    from .. import app, mpd, session
    env = app.shared_env()
    out = Outcome()
    T, url, consts = session.live_case_to_request(env, case)
    s = session.Session(env, T, url).load()
    out.cls("tpl:" + case["template"], "stream:" + session.stream_label(case["stream"]), "start:" + case["clock"]["start"],
            "phi:" + case["clock"]["phi"],
            "loops:" + ("0" if case["clock"]["loops"] == 0 else "<100" if case["clock"]["loops"] < 100 else ">=100"))
    if s.resp.status != 200:
        out.trivial = f"manifest-{s.resp.status // 100}xx"
        return out
    if s.mpd is None:
        out.trivial = "manifest-unparsable"
        return out
    m = s.mpd
    if m.type != "dynamic" or m.ast is None:
        out.trivial = "not-dynamic"
        return out
    now = s.now
    elapsed = now - m.ast
    n_fetch = 0
    near_edge = False
    for rep in m.reps:
        ctype = rep.content_type or "?"
        tpl = rep.template
        if tpl is None or tpl.media is None:
            continue
        q = parse_qs(urlsplit(rep.media_url(number=1, time=0)).query)
        leeway = int(q.get("leeway", ["16"])[0]) if q.get("leeway", ["16"])[0].lstrip("-").isdigit() else 16
        iu = rep.init_url()
        if iu is not None:
            r = s.fetch(iu)
            n_fetch += 1
            if r.status != 200:
                out.fail(f"init/{ctype}/{r.status}", f"T={T.isoformat()} manifest {url} init {iu} -> {r.status} {r.exc!r}")
        try:
            adv = session.advertised_live(rep, now, case.get("interior", [])[:interior_cap])
        except mpd.MpdError:
            out.trivial = "timeline-unparsable"
            continue
        if adv is None:
            continue
        mode, total = adv["mode"], adv["total"]
        segdur = Fraction(tpl.duration, tpl.timescale) if tpl.duration else None
        out.cls("addr:" + mode)
        if total == 0:
            out.cls("empty-window")
            continue
        chosen = [(j, what, u) for j, what, u, _, _, _ in adv["items"]]
        if segdur is not None and m.tsbd is not None:
            out.cls("depth<seg" if m.tsbd < segdur else "depth=seg" if m.tsbd == segdur else
                    "depth>>seg" if m.tsbd > 20 * segdur else "depth>seg")
            out.cls("leeway<2seg" if leeway < 2 * segdur else "leeway>=2seg")
        young = m.tsbd is not None and elapsed <= m.tsbd + (2 * segdur if segdur else 0)
        for j, what, u in chosen:
            r = s.fetch(u)
            n_fetch += 1
            edge = _edge(j, total)
            if edge != "interior":
                near_edge = True
            if r.status != 200:
                cond = []
                if segdur is not None and leeway < 2 * segdur:
                    cond.append("leeway<2seg")
                if young:
                    cond.append("young")
                sig = f"{mode}/{ctype}/{edge}/{r.status}/" + "+".join(cond)
                if r.status >= 500:
                    sig = f"{mode}/{ctype}/5xx/{type(r.exc).__name__ if r.exc is not None else r.status}/{r.exc_where}"
                out.fail(sig, f"T={T.isoformat()} manifest {url} rep {rep.id} {what} -> {r.status} "
                              f"(window index {j} of {total}, elapsed {float(elapsed):.6f}s, tsbd {m.tsbd}, "
                              f"segdur {segdur}, leeway {leeway}) {r.exc!r} {r.text[:80]!r}")
    out.weight = max(1, n_fetch)
    out.nontrivial = near_edge
    seen = {}
    for sg, d in out.violations:
        seen.setdefault(sg, d)
    out.violations = list(seen.items())
    return out


class LiveSessions(Engine):
    name = "live_sessions"

    def budget(self, tier):
        return 1200 if tier == "quick" else 40_000

    def strategy(self, tier):
        from hypothesis import strategies as st
        from .. import app, strategies, synth
        app.boot()
        return st.fixed_dictionaries({
            "stream": st.one_of(st.sampled_from(["bbb", "tears"]),
                                st.builds(lambda sp: {"synth": sp}, synth.stream_specs())),
            "template": st.sampled_from(live_templates()),
            "opts": strategies.live_option_vector(),
            "clock": strategies.live_clock(),
            "interior": st.lists(st.integers(0, 10**6), min_size=12, max_size=12),
        })

    def setup(self, tier):
        self.cap = 12 if tier == "quick" else 400

    def check(self, case):
        return check_live(case, getattr(self, "cap", 12))


ENGINES = [LiveSessions()]
