"""C05 - every manifest response is well-formed, structurally valid DASH."""
from __future__ import annotations

from ..runner import Engine, Outcome

PROPERTY = "C05"
RULE = ("Hypothesis draws (template from manifest_map incl. the patch template, a mode it supports, single- or "
        "multi-period route, option vector, phase-controlled clock, and hostile strings for the stored stream / "
        "multi-period title, stored licence URLs, licence-URL and other string-typed query options and the Host "
        "header; alphabet & < > \" ' ]]> --> { } % unicode, 1-400 chars, each carrying an element canary "
        "<vtcanary/> and an attribute breaker). Each request is issued twice: with the hostile strings and with "
        "benign tokens of equal role. Oracles: lxml well-formedness; identical multiset of (element path, "
        "attribute-name set) in both documents and no canary element/attribute; a rule set written from ISO/IEC "
        "23009-1. Non-trivial: 200 and (a hostile string is echoed in the document, or an AdaptationSet list was "
        "filtered by an option, or DRM payloads are present). distinct = canonical JSON of the case.")
ASSUMPTIONS = [
    "vt/shims stand in for flask_login, sqlalchemy_jsonfield, dotenv, netifaces; harness-controlled clock",
    "lxml is the judge of well-formedness; rule set in vt/mpd.py (required MPD attributes, lexical types of "
    "duration/dateTime/unsigned/SAPType attributes, id uniqueness, non-empty AdaptationSets, template identifiers)",
    "MPD@publishTime is required for type=dynamic (23009-1 5.3.1.2, since the 2nd edition)",
    "stored strings are written straight into the database rows (titles and licence URLs are free text there)",
]
CANARY_EL = "<vtcanary/>"
CANARY_ATTR = '" vtattr="1'
PIECES = ["&", "<", ">", '"', "'", "]]>", "-->", "<!--", "{", "}", "%", "%3C", "&amp;", "&lt;x", "é", "中", "\U0001F600",
          "‮", " ", "a", "Z", "0", "/", "?", "=", "+", "#", ";", CANARY_EL, CANARY_ATTR, "<b>", "</Title>", "\t"]
_env = {}


def env5():
    """own app: this check rewrites stored strings"""
    from .. import app
    if "env" not in _env:
        e = app.make_env()
        app.add_mps(e, "mps1", "multi period one", [
            {"pid": "p1", "stream": "bbb", "start": 4, "duration": 32,
             "tracks": [["video", 1, "main"], ["audio", 2, "main"]]},
            {"pid": "p2", "stream": "tears", "start": 8, "duration": 44,
             "tracks": [["video", 1, "main"], ["audio", 2, "main"]]},
        ])
        _env["env"] = e
    return _env["env"]


def all_templates():
    from .. import app
    app.boot()
    from dashlive.server.manifests import manifest_map
    out = []
    for name, m in sorted(manifest_map.items()):
        for mode in sorted(m.supported_modes()):
            out.append((name, mode))
    return out


def set_stored(env, case, values: dict):
    from dashlive.server import models
    with env.app.app_context():
        st = models.Stream.get(directory=case["stream"])
        old = {"title": st.title, "playready_la_url": st.playready_la_url, "marlin_la_url": st.marlin_la_url}
        mps = models.MultiPeriodStream.get(name="mps1")
        old["mps_title"] = mps.title
        for k, v in values.items():
            if k == "mps_title":
                mps.title = v
            else:
                setattr(st, k, v)
        models.db.session.commit()
    return old


def build_url(case, qvalues: dict) -> str:
    from .. import strategies
    opts = dict(case["opts"])
    opts.update(qvalues)
    q = strategies.query_string(opts)
    if case["route"] == "mps":
        return f"/mps/{case['mode']}/mps1/{case['template']}{q}"
    return f"/dash/{case['mode']}/{case['stream']}/{case['template']}{q}"


def check_manifest(case) -> Outcome:
    from lxml import etree
    from .. import clock, mpd, session, strategies
    env = env5()
    out = Outcome()
    consts = session.stream_constants(env, case["stream"])
    T, start = strategies.resolve_clock(case["clock"], consts["ref_us"], consts["seg_us"], consts["tick_us"])
    opts = dict(case["opts"])
    if start is not None and case["mode"] == "live":
        opts["start"] = start
    case = dict(case, opts=opts)
    hostile_stored = {k: v for k, v in case["hostile"].items() if not k.startswith("q:") and k != "host"}
    hostile_q = {k[2:]: v for k, v in case["hostile"].items() if k.startswith("q:")}
    benign_stored = {k: ("https://benign.example/x" if "la_url" in k else "benign") for k in hostile_stored}
    if "marlin_la_url" in benign_stored:
        benign_stored["marlin_la_url"] = "ms3://benign.example/x"
    benign_q = {k: ("https://benign.example/x" if "la_url" in k else "benign") for k in hostile_q}
    headers = {}
    hheaders = dict(headers)
    if "host" in case["hostile"]:
        hheaders["Host"] = case["hostile"]["host"]
        headers["Host"] = "benign.example"
    out.cls("tpl:" + case["template"], "mode:" + case["mode"], "route:" + case["route"])
    docs = []
    old = None
    try:
        for stored, qv, hd in ((hostile_stored, hostile_q, hheaders), (benign_stored, benign_q, headers)):
            o = set_stored(env, case, stored)
            old = old or o
            url = build_url(case, qv)
            clock.set_now(T)
            try:
                for hv in hd.values():
                    hv.encode("latin-1")
            except UnicodeEncodeError:
                out.trivial = "header-not-latin1"
                return out
            r = env.get(url, headers=hd)
            docs.append((url, r))
    finally:
        if old is not None:
            set_stored(env, case, old)
    (hurl, hr), (burl, br) = docs
    desc = f"T={T.isoformat()} {hurl[:300]} stored={ {k: v[:60] for k, v in hostile_stored.items()} }"
    if hr.status != 200:
        out.trivial = f"status-{hr.status}"
        if br.status == 200 and hr.status >= 500:
            out.cls("hostile-500")        # judged by C16
        return out
    # (1) well-formed
    try:
        hroot = etree.fromstring(hr.body)
    except etree.XMLSyntaxError as exc:
        # which single sink is responsible?  re-request with one hostile string at a time
        culprits = []
        for key, val in sorted(case["hostile"].items()):
            one = {key: val}
            st1 = {k: v for k, v in one.items() if not k.startswith("q:") and k != "host"}
            q1 = {k[2:]: v for k, v in one.items() if k.startswith("q:")}
            h1 = {"Host": val} if key == "host" else {}
            o = set_stored(env, case, st1)
            try:
                clock.set_now(T)
                r1 = env.get(build_url(case, q1), headers=h1)
            finally:
                set_stored(env, case, o)
            if r1.status == 200:
                try:
                    etree.fromstring(r1.body)
                except etree.XMLSyntaxError:
                    culprits.append(key)
        if not culprits:
            culprits = ["combination"]
        for c in culprits:
            out.fail(f"not-well-formed/{case['template']}/{c}", f"{desc}: {exc}")
        return out
    echoed = [k for k, v in case["hostile"].items() if v and v in hr.text] + \
             [k for k, v in case["hostile"].items() if v and v not in hr.text and
              any(tok and tok in (hroot.xpath("string()") + " ".join(" ".join(e.attrib.values()) for e in hroot.iter() if isinstance(e.tag, str)))
                  for tok in [v[:20]])]
    # (2) no canary, same shape as the benign twin
    for el in hroot.iter():
        if not isinstance(el.tag, str):
            continue
        if el.tag.endswith("vtcanary") or el.tag in ("b",):
            out.fail(f"string-created-element/{case['template']}", f"{desc}: <{el.tag}>")
        if "vtattr" in el.attrib:
            out.fail(f"string-created-attribute/{case['template']}", f"{desc}: {el.tag}")
    if br.status == 200:
        try:
            broot = etree.fromstring(br.body)
            hs, bs = mpd.shape(hroot), mpd.shape(broot)
            # MPD/Location is only written when the request carries at least one option that differs from its
            # default: a generated value that happens to BE the default (ping__value=0) removes the element.
            # That is option handling, not structure created by a string (thorough tier, seed 2).
            for shp in (hs, bs):
                for k in [k for k in shp if str(k[0]).endswith("}Location")]:
                    del shp[k]
            if hs != bs:
                diff = [(k, hs.get(k, 0), bs.get(k, 0)) for k in set(hs) | set(bs) if hs.get(k, 0) != bs.get(k, 0)]
                out.fail(f"shape-changed-by-string/{case['template']}", f"{desc}: {diff[:4]}")
        except etree.XMLSyntaxError as exc:
            out.fail(f"not-well-formed/{case['template']}/benign", f"{burl}: {exc}")
    # (3) structural rules
    if hroot.tag == mpd.Q + "MPD":
        for sig, detail in mpd.check_rules(hroot):
            out.fail(f"rule/{sig}/{case['template']}/{case['mode']}" + ("/mps" if case["route"] == "mps" else ""),
                     f"{desc}: {detail}")
    filtered = any(k in case["opts"] for k in ("abr", "acodec", "drm", "tcodec"))
    out.nontrivial = bool(echoed) or filtered
    for k in echoed:
        out.cls("echoed:" + k)
    seen = {}
    for sg, d in out.violations:
        seen.setdefault(sg, d)
    out.violations = list(seen.items())
    return out


def check_patch(case) -> Outcome:
    from lxml import etree
    from .. import clock, mpd, session, strategies
    import datetime as dt
    env = env5()
    out = Outcome()
    consts = session.stream_constants(env, case["stream"])
    T, start = strategies.resolve_clock(case["clock"], consts["ref_us"], consts["seg_us"], consts["tick_us"])
    opts = dict(case["opts"], patch="1")
    if start is not None:
        opts["start"] = start
    hostile_stored = {k: v for k, v in case["hostile"].items() if not k.startswith("q:") and k != "host"}
    hostile_q = {k[2:]: v for k, v in case["hostile"].items() if k.startswith("q:")}
    out.cls("patch")
    old = set_stored(env, case, hostile_stored)
    try:
        url = build_url(dict(case, opts=opts, route="stream", mode="live", template="hand_made.mpd"), hostile_q)
        s = session.Session(env, T, url).load()
        if s.resp.status != 200:
            out.trivial = f"status-{s.resp.status}"
            return out
        try:
            root = etree.fromstring(s.resp.body)
        except etree.XMLSyntaxError:
            out.trivial = "manifest-not-well-formed"      # reported by the manifest engine
            return out
        pl = root.find(mpd.Q + "PatchLocation")
        if pl is None or not (pl.text or "").strip():
            out.trivial = "no-patch-location"
            return out
        from urllib.parse import urljoin
        purl = session.rel(urljoin("http://localhost" + url, pl.text.strip()))
        clock.set_now(T + dt.timedelta(seconds=case["delta_s"]))
        r = env.get(purl)
    finally:
        set_stored(env, case, old)
    if r.status != 200:
        out.trivial = f"patch-status-{r.status}"
        return out
    desc = f"T={T.isoformat()}+{case['delta_s']}s {purl[:300]}"
    try:
        proot = etree.fromstring(r.body)
    except etree.XMLSyntaxError as exc:
        out.fail("patch/not-well-formed", f"{desc}: {exc}")
        return out
    for el in proot.iter():
        if isinstance(el.tag, str) and (el.tag.endswith("vtcanary") or "vtattr" in el.attrib):
            out.fail("patch/string-created-markup", desc)
    out.nontrivial = True
    return out


def hostile_string():
    from hypothesis import strategies as st
    return st.lists(st.sampled_from(PIECES), min_size=1, max_size=10).map("".join)


def hostile_map(route):
    from hypothesis import strategies as st
    h = hostile_string()
    la = h.map(lambda t: "https://lic.example/" + t)
    stored = {"title": h, "playready_la_url": la, "marlin_la_url": h.map(lambda t: "ms3://lic.example/" + t)}
    if route == "mps":
        stored = {"mps_title": h, "title": h}
    q = {"q:playready__la_url": la, "q:marlin__la_url": la, "q:clearkey__la_url": la, "q:acodec": h, "q:tcodec": h,
         # the DRM context also reads these (single underscore) request parameters directly
         "q:playready_la_url": la, "q:marlin_la_url": la, "q:clearkey_la_url": la,
         "q:main_audio": h, "q:scte35__value": h, "q:ping__value": h, "q:ad_audio": h, "q:main_text": h, "q:tlang": h, "q:time_value": h, "q:ntp_servers": h,
         "host": st.sampled_from(["evil.example", "a.b:8080", "xn--e1afmkfd.example", "[::1]", "h\"x", "h<x>", "h&x"])}
    return st.fixed_dictionaries({}, optional={**stored, **q})


class ManifestDocs(Engine):
    name = "manifest_docs"

    def budget(self, tier):
        return 2400 if tier == "quick" else 150_000

    def strategy(self, tier):
        from hypothesis import strategies as st
        from .. import strategies
        tm = all_templates()
        live = strategies.live_option_vector()
        route = st.sampled_from(["stream", "stream", "stream", "mps"])
        return route.flatmap(lambda rt: st.fixed_dictionaries({
            "route": st.just(rt),
            "stream": st.sampled_from(["bbb", "tears"]),
            "tm": st.sampled_from(tm if rt == "stream" else [t for t in tm if t[1] in ("live", "vod")]),
            "opts": live, "clock": strategies.live_clock(ancient=True), "hostile": hostile_map(rt),
        })).map(lambda c: {"route": c["route"], "stream": c["stream"], "template": c["tm"][0], "mode": c["tm"][1],
                           "opts": c["opts"], "clock": c["clock"], "hostile": c["hostile"]})

    def check(self, case):
        return check_manifest(case)


class PatchDocs(Engine):
    name = "patch_docs"

    def budget(self, tier):
        return 400 if tier == "quick" else 30_000

    def strategy(self, tier):
        from hypothesis import strategies as st
        from .. import strategies
        return st.fixed_dictionaries({
            "stream": st.sampled_from(["bbb", "tears"]),
            "opts": strategies.live_option_vector(with_events=False),
            "clock": strategies.live_clock(), "hostile": hostile_map("stream"),
            "delta_s": st.one_of(st.integers(0, 20), st.integers(0, 4000)),
        })

    def check(self, case):
        return check_patch(case)


ENGINES = [ManifestDocs(), PatchDocs()]
