"""C17 - management histories keep the store consistent and the service up.

One engine: Hypothesis draws a history of management API calls (vt/mgmt.py, executed as the media role, user
operations as admin) against the restored pristine World.  Arguments refer to objects by index into the CURRENT
lists (read with raw SQL, modulo the length), to just-deleted ids or to ids that never existed.  After EVERY step:

  I1  media_file.stream / media_file.blob exist, the blob file is on disk under BLOB_FOLDER/<directory>/
  I2  mediafile_keys, period.stream_pk, period.parent_pk, adaptation_set.period_pk / content_type_pk,
      media_file_error.media_pk point at existing rows
  I3  Stream.directory, media_file.name, key.hkid, mp_stream.name, Blob.filename are unique
  I4  Stream.timing_reference.media_name names an indexed file of that stream
  I5  rows that disappeared are exactly those the operation owns (closure over the ownership edges taken on
      the state BEFORE the step; only when the response said the operation succeeded); rows appear only in the
      tables the operation may write
  I6  every listed stream (vod+live) and multi-period stream (vod) answers hand_made.mpd with 200 or 4xx
  I7  every file that was uploaded and indexed (and not edited since) comes back byte-exactly from
      /dash/odvod/<dir>/<name>.mp4 with Range: bytes=0-<size-1>
  I8  no management request ends in an unhandled exception / 5xx
All reads of the store go through sqlite3 on the engine's connection, never through the ORM under test.
"""
from __future__ import annotations

import json

from ..runner import Engine, Outcome

PROPERTY = "C17"
RULE = ("Hypothesis draws {'steps': [[op, args...]]} with up to 25 (quick) / 60 (thorough) steps over add/edit/delete "
        "stream, edit stream defaults, upload (fixture, synthetic clear/encrypted/audio/text, too-short, non-MP4, empty "
        "body; fresh, repeated, other-stream, blob-colliding and mixed-case names), index, edit media, delete media, "
        "add/edit/delete key (valid, duplicate, malformed), add/edit/delete multi-period stream (periods over existing, "
        "just-deleted and never-existing streams), add/delete user. Object arguments are indices into the current lists "
        "(modulo length), ['last', k] (k-th newest), ['stale', k] (just deleted) or ['never', k]. Every invariant is evaluated after every step. Non-trivial: the "
        "history contains a successful delete of an object something else referred to (stream with a Period or files, "
        "file that is a timing reference or has key links, key with links, multi-period stream with periods), or a "
        "re-upload of an existing name, or an index after an edit. distinct = canonical JSON of the case.")
ASSUMPTIONS = [
    "vt/shims stand in for flask_login, sqlalchemy_jsonfield, dotenv, netifaces; fixed clock 2024-05-05T10:00:00Z",
    "a response 'says success' when it carries the handler's success shape (JSON pk/id/deleted/success, or the success "
    "redirect); the reference graph (streams, files with uploaded bytes, keys, multi-period streams, deleted ids) is "
    "updated only then",
    "ownership edges: Stream->media_file, media_file->Blob, media_file->media_file_error, media_file->mediafile_keys, "
    "key->mediafile_keys, mp_stream->period, period->adaptation_set; a Period does not own and is not owned by its "
    "Stream; keys are owned by nobody",
    "a re-upload owns the previous file of the same name IN THE SAME stream only",
    "edit media legitimately rewrites the file, so the byte-exact check is suspended for that file until it is uploaded again",
    "blob files left on disk after their rows were deleted are not judged (the statement only asks that every media "
    "file has its blob)",
]
STREAM_NAMES = ["alpha", "beta", "gamma1", "bbb", "tears", "Alpha", "spare"]
UPLOAD_NAMES = ["upv.mp4", "upa.mp4", "upv_01.mp4", "bbb_t1.mp4", "UpMixed.mp4", "spare_v1.mp4"]
UPLOAD_KINDS = ["synth_v", "synth_v2", "synth_a", "synth_t", "synth_venc", "fix_t1", "fix_a1", "short", "junk", "empty"]
MPS_NAMES = ["mps1", "mpsA", "mpsB", "mp.s-C"]
TITLES = ["first title", "second title", "T<&>\"'", "x" * 60]
LANGS = ["eng", "fra", "und", "zz-invalid-tag-zz"]
KIDS = ["11" * 16, "22" * 16, "1ab45440532c439994dc5c5ad9584bac", "00112233445566778899aabbccddeeff", "AB" * 16,
        # the same 16 bytes in another spelling (the form's pattern allows [A-Fa-f0-9]{32}): still the same key id
        "ab" * 16, "1AB45440532C439994DC5C5AD9584BAC", "00112233445566778899AaBbCcDdEeFf"]
KEYS = {"valid": "5a" * 16, "valid2": "6b" * 16, "none": None, "short": "abcd", "nothex": "zz" * 16}
NEVER = 900000


def world():
    from .. import mgmt
    return mgmt.get_world()


# --------------------------------------------------------------------------------------------------
# relational snapshot through raw SQL

class Snap:
    def __init__(self, w) -> None:
        q = w.sql
        self.streams = {r[0]: {"directory": r[1], "timing": r[2], "title": r[3]}
                        for r in q('select pk, directory, timing_reference, title from "Stream" order by pk')}
        self.files = {r[0]: {"name": r[1], "stream": r[2], "blob": r[3], "indexed": r[4] is not None, "track": r[5],
                             "ctype": r[6]}
                      for r in q("select pk, name, stream, blob, rep, track_id, content_type from media_file order by pk")}
        self.blobs = {r[0]: {"filename": r[1], "size": r[2]} for r in q('select pk, filename, size from "Blob" order by pk')}
        self.keys = {r[0]: r[1] for r in q("select pk, hkid from key order by pk")}
        self.links = {(r[0], r[1]) for r in q("select media_pk, key_pk from mediafile_keys")}
        self.errors = {r[0]: r[1] for r in q("select pk, media_pk from media_file_error")}
        self.mps = {r[0]: r[1] for r in q("select pk, name from mp_stream order by pk")}
        self.periods = {r[0]: {"parent": r[1], "stream": r[2]} for r in q("select pk, parent_pk, stream_pk from period order by pk")}
        self.asets = {r[0]: {"period": r[1], "ctype": r[2]} for r in q("select pk, period_pk, content_type_pk from adaptation_set")}
        self.ctypes = {r[0] for r in q("select pk from content_type")}
        self.users = {r[0]: r[1] for r in q('select pk, username from "User" order by pk')}

    def rows(self) -> dict[str, set]:
        return {"Stream": set(self.streams), "media_file": set(self.files), "Blob": set(self.blobs), "key": set(self.keys),
                "mediafile_keys": set(self.links), "media_file_error": set(self.errors), "mp_stream": set(self.mps),
                "period": set(self.periods), "adaptation_set": set(self.asets), "User": set(self.users)}

    # ---- ownership closures (evaluated on this, the BEFORE, state)
    def own_file(self, mfid) -> set:
        out = set()
        f = self.files.get(mfid)
        if f is None:
            return out
        out.add(("media_file", mfid))
        if f["blob"] in self.blobs:
            out.add(("Blob", f["blob"]))
        out |= {("media_file_error", e) for e, m in self.errors.items() if m == mfid}
        out |= {("mediafile_keys", l) for l in self.links if l[0] == mfid}
        return out

    def own_file_parts(self, mfid) -> set:
        """what index / edit may replace: the blob, the error rows and the key links of the file, not the file"""
        return {x for x in self.own_file(mfid) if x[0] != "media_file"}

    def own_stream(self, spk) -> set:
        out = set()
        if spk not in self.streams:
            return out
        out.add(("Stream", spk))
        for mfid, f in self.files.items():
            if f["stream"] == spk:
                out |= self.own_file(mfid)
        return out

    def own_key(self, kpk) -> set:
        if kpk not in self.keys:
            return set()
        return {("key", kpk)} | {("mediafile_keys", l) for l in self.links if l[1] == kpk}

    def own_mps(self, mpk) -> set:
        if mpk not in self.mps:
            return set()
        out = {("mp_stream", mpk)}
        for ppk, p in self.periods.items():
            if p["parent"] == mpk:
                out.add(("period", ppk))
                out |= {("adaptation_set", a) for a, v in self.asets.items() if v["period"] == ppk}
        return out

    def asets_of_mps(self, mpk) -> set:
        return {x for x in self.own_mps(mpk) if x[0] == "adaptation_set"}

    def timing_name(self, spk):
        raw = self.streams[spk]["timing"]
        if raw is None:
            return None
        try:
            val = json.loads(raw)
            if isinstance(val, str):
                val = json.loads(val)
            return val.get("media_name") if isinstance(val, dict) else "?"
        except (ValueError, TypeError):
            return "?"

    def serving_key(self):
        return (tuple(sorted((k, tuple(sorted(v.items(), key=repr))) for k, v in self.streams.items())),
                tuple(sorted((k, tuple(sorted(v.items()))) for k, v in self.files.items())),
                tuple(sorted(self.mps.items())), tuple(sorted((k, tuple(sorted(v.items()))) for k, v in self.periods.items())),
                tuple(sorted((k, tuple(sorted(v.items()))) for k, v in self.asets.items())), tuple(sorted(self.links)),
                tuple(sorted(self.keys.items())))


# --------------------------------------------------------------------------------------------------
# the reference graph (updated only from responses that say success)

class Model:
    def __init__(self, snap: Snap) -> None:
        self.content: dict[int, bytes | None] = {}        # mfid -> uploaded bytes (None: not uploaded by us / edited)
        self.indexed: set[int] = {m for m, f in snap.files.items() if f["indexed"]}
        self.edited: set[int] = set()
        self.deleted = {"stream": [], "file": [], "key": [], "mps": [], "user": []}
        self.flags = {"delete_after_reference": False, "reupload": False, "index_after_edit": False}


def pick(ref, current: list, deleted: list, never=None):
    """index (modulo) into the current list, ['last', k] = k-th newest, ['stale', k] = k-th most recently deleted,
    ['never', k] = an id that never existed"""
    if isinstance(ref, int):
        if current:
            return current[ref % len(current)]
        return never(ref) if never else NEVER + ref
    kind, k = ref
    if kind == "last" and current:
        return current[-1 - (k % len(current))]
    if kind == "stale" and deleted:
        return deleted[-1 - (k % len(deleted))]
    return never(k) if never else NEVER + k


# --------------------------------------------------------------------------------------------------
# one step

class StepResult:
    def __init__(self, op, resp, ok=False, may_remove=None, must_remove=None, may_insert=(), note=""):
        self.op, self.resp, self.ok = op, resp, ok
        self.may_remove = set(may_remove or ())
        self.must_remove = set(must_remove or ())
        self.may_insert = set(may_insert)
        self.note = note


def _json(resp):
    try:
        return json.loads(resp.body)
    except (ValueError, TypeError):
        return None


def _redirects_to(resp, suffix: str) -> bool:
    return resp.status == 302 and resp.headers.get("Location", "").split("?")[0].rstrip("/").endswith(suffix.rstrip("/"))


def run_step(w, api, admin_api, step, pre: Snap, model: Model) -> StepResult:
    from .. import mgmt
    op = step[0]
    streams, files, keys = sorted(pre.streams), sorted(pre.files), sorted(pre.keys)
    mps_names = [pre.mps[k] for k in sorted(pre.mps)]
    D = model.deleted

    if op == "add_stream":
        _, ni, how = step
        name = STREAM_NAMES[ni % len(STREAM_NAMES)]
        r = api.add_stream(name, f"title of {name}", as_json=(how == "json"))
        js = _json(r)
        ok = (isinstance(js, dict) and "id" in js) if how == "json" else _redirects_to(r, "/streams")
        dup = any(s["directory"] == name for s in pre.streams.values())
        return StepResult("add_stream" + ("-duplicate" if dup else ""), r, ok, may_insert={"Stream"})

    if op == "edit_stream":
        _, sref, ti, timing, di, how = step
        spk = pick(sref, streams, D["stream"])
        cur = pre.streams.get(spk)
        own_files = [f["name"] for m, f in sorted(pre.files.items()) if f["stream"] == spk]
        if timing == "keep":
            tref = (pre.timing_name(spk) or "") if cur else ""
        elif timing == "clear":
            tref = ""
        elif timing == "bogus":
            tref = "no_such_media_file"
        else:
            pool = own_files if timing[0] == "file" else [f["name"] for _m, f in sorted(pre.files.items())]
            tref = pool[timing[1] % len(pool)] if pool else ""
        directory = STREAM_NAMES[di % len(STREAM_NAMES)] if not own_files else (cur or {}).get("directory", "x")
        r = api.edit_stream(spk, TITLES[ti % len(TITLES)], directory, "", "", tref, as_json=(how == "json"))
        ok = (r.status == 200 and isinstance(_json(r), dict) and "pk" in _json(r)) if how == "json" else _redirects_to(r, "/streams")
        label = "edit_stream"
        if timing not in ("keep", "clear", "bogus") and timing[0] == "foreign":
            label = "edit_stream-foreign-timing-ref"
        return StepResult(label, r, ok)

    if op == "delete_stream":
        _, sref, how = step
        spk = pick(sref, streams, D["stream"])
        r = api.delete_stream(spk, how=how)
        js = _json(r)
        if how == "ajax":
            ok = r.status == 200 and isinstance(js, dict) and js.get("success") is True
        elif how == "api":
            ok = r.status == 200 and isinstance(js, dict) and js.get("deleted") == spk
        else:
            # the form answers success and refusal (e.g. stream used by a multi-period stream) with the same
            # redirect and only a flash message tells them apart: the disappearance of the Stream row is the
            # success signal, everything else the stream owns is then judged
            ok = _redirects_to(r, "/streams") and spk in pre.streams and \
                w.one("select pk from Stream where pk=?", (spk,)) is None
        own = pre.own_stream(spk) if ok else set()
        if ok:
            D["stream"].append(spk)
            D["file"] += [m for m, f in sorted(pre.files.items()) if f["stream"] == spk]
            if any(p["stream"] == spk for p in pre.periods.values()) or any(f["stream"] == spk for f in pre.files.values()):
                model.flags["delete_after_reference"] = True
        return StepResult("delete_stream", r, ok, may_remove=own, must_remove=own)

    if op == "edit_defaults":
        _, sref, depth = step
        spk = pick(sref, streams, D["stream"])
        r = api.edit_stream_defaults(spk, {"abr": "0", "depth": str(20 + depth)})
        return StepResult("edit_defaults", r, _redirects_to(r, f"/stream/{spk}"))

    if op == "upload":
        _, sref, kind, ni, ajax = step
        spk = pick(sref, streams, D["stream"])
        fname = UPLOAD_NAMES[ni % len(UPLOAD_NAMES)]
        stem = fname.rsplit(".", 1)[0].lower()      # media files are stored and served under the lower-case name
        body = mgmt.upload_body(kind)
        r = api.upload_file(spk, fname, body, ajax=bool(ajax))
        js = _json(r)
        ok = (r.status == 200 and isinstance(js, dict) and "pk" in js and "error" not in js) if ajax else \
            (r.status == 200 and "html" in r.headers.get("Content-Type", "") and r.exc is None and "Uploaded file" in r.text)
        same = {m for m, f in pre.files.items() if f["name"] == stem and f["stream"] == spk}
        other = {m for m, f in pre.files.items() if f["name"] == stem and f["stream"] != spk}
        blob_clash = {b for b, v in pre.blobs.items() if v["filename"] == fname} - {pre.files[m]["blob"] for m in same | other}
        may = set()
        for m in same:
            may |= pre.own_file(m)
        label = "upload"
        if other:
            label = "upload-name-in-other-stream"
        elif blob_clash:
            label = "upload-name-of-other-files-blob"
        if ok:
            new_pk = w.one("select pk from media_file where name=? and stream=?", (stem, spk))
            if same or other:
                model.flags["reupload"] = True
                D["file"] += sorted(same | other)
            for m in same | other:
                model.content.pop(m, None)
                model.indexed.discard(m)
            if new_pk is not None:
                model.content[new_pk] = body
                model.indexed.discard(new_pk)
                model.edited.discard(new_pk)
        return StepResult(label, r, ok, may_remove=may, may_insert={"media_file", "Blob"}, note=f"{kind} as {fname}")

    if op == "index":
        _, fref = step
        mfid = pick(fref, files, D["file"])
        r = api.index_file(mfid)
        js = _json(r)
        ok = r.status == 200 and isinstance(js, dict) and js.get("indexed") == mfid
        if ok:
            model.indexed.add(mfid)
            if mfid in model.edited:
                model.flags["index_after_edit"] = True
        return StepResult("index", r, ok, may_remove=pre.own_file_parts(mfid) - {("Blob", pre.files.get(mfid, {}).get("blob"))},
                          may_insert={"key", "mediafile_keys", "media_file_error"})

    if op == "edit_media":
        _, fref, track, li = step
        mfid = pick(fref, files, D["file"])
        spk = pre.files[mfid]["stream"] if mfid in pre.files else (streams[0] if streams else NEVER)
        r = api.edit_media(spk, mfid, track, LANGS[li % len(LANGS)])
        changed = w.one("select blob from media_file where pk=?", (mfid,))
        ok = _redirects_to(r, f"/stream/{spk}/{mfid}") and mfid in pre.files and changed != pre.files[mfid]["blob"]
        if ok:
            model.edited.add(mfid)
            model.content[mfid] = None
            model.indexed.add(mfid)
        label = "edit_media" if (mfid not in pre.files or pre.files[mfid]["indexed"]) else "edit_media-unindexed"
        return StepResult(label, r, ok, may_remove=pre.own_file_parts(mfid),
                          may_insert={"Blob", "key", "mediafile_keys", "media_file_error"})

    if op == "delete_media":
        _, fref, how = step
        mfid = pick(fref, files, D["file"])
        spk = pre.files[mfid]["stream"] if mfid in pre.files else (streams[0] if streams else NEVER)
        r = api.delete_media(spk, mfid, how=how)
        js = _json(r)
        if how == "form":
            ok = _redirects_to(r, f"/stream/{spk}")
        else:
            ok = r.status == 200 and isinstance(js, dict) and js.get("deleted") == mfid
        own = pre.own_file(mfid) if ok else set()
        if ok:
            D["file"].append(mfid)
            f = pre.files.get(mfid)
            if f and (pre.timing_name(f["stream"]) == f["name"] or any(l[0] == mfid for l in pre.links)):
                model.flags["delete_after_reference"] = True
            model.content.pop(mfid, None)
            model.indexed.discard(mfid)
        return StepResult("delete_media", r, ok, may_remove=own, must_remove=own)

    if op == "add_key":
        _, ki, kk, how = step
        kid = KIDS[ki % len(KIDS)]
        key = KEYS[kk]
        r = api.add_key(kid, key, how=how)
        js = _json(r)
        ok = (r.status == 200 and isinstance(js, dict) and js.get("kid") is not None and not js.get("error")) if how == "put" \
            else _redirects_to(r, "/streams")
        dup = kid.lower() in {k.lower() for k in pre.keys.values()}
        label = "add_key" + ("-duplicate" if dup else "") + ("" if kk in ("valid", "valid2", "none") else "-malformed")
        return StepResult(label, r, ok, may_insert={"key"})

    if op == "edit_key":
        _, kref, kk, computed = step
        kpk = pick(kref, keys, D["key"])
        r = api.edit_key(kpk, KEYS[kk] or "", computed=bool(computed))
        return StepResult("edit_key" + ("" if kk in ("valid", "valid2") else "-malformed"), r, _redirects_to(r, "/streams"))

    if op == "delete_key":
        _, kref, how = step
        kpk = pick(kref, keys, D["key"])
        r = api.delete_key(kpk, how=how)
        js = _json(r)
        ok = (r.status == 200 and isinstance(js, dict) and "deleted" in js) if how == "api" else _redirects_to(r, "/streams")
        own = pre.own_key(kpk) if ok else set()
        if ok:
            D["key"].append(kpk)
            if any(l[1] == kpk for l in pre.links):
                model.flags["delete_after_reference"] = True
        return StepResult("delete_key", r, ok, may_remove=own, must_remove=own)

    if op == "add_mps":
        _, ni, periods = step
        name = MPS_NAMES[ni % len(MPS_NAMES)]
        plist = []
        for n, (sref, start, dur) in enumerate(periods, start=1):
            spk = pick(sref, streams, D["stream"])
            plist.append(api.period(f"p{n}", spk, n, f"PT{start}S", f"PT{dur}S"))
        r = api.add_mps(name, f"title of {name}", plist)
        js = _json(r)
        ok = r.status == 200 and isinstance(js, dict) and js.get("success") is True
        return StepResult("add_mps", r, ok, may_insert={"mp_stream", "period", "adaptation_set"})

    if op == "edit_mps":
        _, mref, ti, action = step
        name = pick(mref, mps_names, D["mps"], never=lambda k: f"nosuch{k}")
        g = api.get_mps(name)
        body = (_json(g) or {}).get("model") if g.status == 200 else None
        mpk = next((k for k, v in pre.mps.items() if v == name), None)
        if not isinstance(body, dict):
            body = {"pk": NEVER, "name": name, "title": "stale edit", "options": {}, "periods": []}
        body["title"] = TITLES[ti % len(TITLES)]
        label = "edit_mps"
        if action == "empty_body":
            r = api.edit_mps(name, {}, token_in_query=True)
            return StepResult("edit_mps-empty-json-body", r, False)
        if action == "drop_tracks":
            for p in body.get("periods", []):
                p["tracks"] = p.get("tracks", [])[:1]
        elif action != "retitle":
            kind, arg = action
            if kind == "rename":
                body["name"] = MPS_NAMES[arg % len(MPS_NAMES)]
            else:
                spk = pick(arg, streams, D["stream"])
                if kind == "add_period":
                    n = len(body.get("periods", [])) + 1
                    body.setdefault("periods", []).append(api.period(f"n{n}", spk, n, "PT0S", "PT12S", parent=body.get("pk")))
                elif body.get("periods"):
                    body["periods"][0]["stream"] = spk
                if spk not in pre.streams:
                    label = "edit_mps-stale-stream"
        r = api.edit_mps(name, body)
        js = _json(r)
        ok = r.status == 200 and isinstance(js, dict) and js.get("success") is True
        return StepResult(label, r, ok, may_remove=pre.asets_of_mps(mpk) if mpk else set(),
                          may_insert={"period", "adaptation_set"})

    if op == "delete_mps":
        _, mref = step
        name = pick(mref, mps_names, D["mps"], never=lambda k: f"nosuch{k}")
        mpk = next((k for k, v in pre.mps.items() if v == name), None)
        r = api.delete_mps(name)
        ok = r.status == 204
        own = pre.own_mps(mpk) if ok and mpk else set()
        if ok:
            D["mps"].append(name)
            if any(p["parent"] == mpk for p in pre.periods.values()):
                model.flags["delete_after_reference"] = True
        return StepResult("delete_mps", r, ok, may_remove=own, must_remove=own)

    if op == "add_user":
        _, n = step
        r = admin_api().add_user(f"extra{n % 3}", f"extra{n % 3}@dashlive.unit.test", "extr4pass", groups=("user",))
        js = _json(r)
        return StepResult("add_user", r, isinstance(js, dict) and js.get("success") is True, may_insert={"User"})

    if op == "delete_user":
        _, uref = step
        protected = set(w.users.values())
        current = [u for u in sorted(pre.users) if u not in protected or pre.users[u] == "victim"]
        upk = pick(uref, current, D["user"])
        r = admin_api().delete_user(upk)
        ok = r.status == 204
        if ok:
            D["user"].append(upk)
        own = {("User", upk)} if ok else set()
        return StepResult("delete_user", r, ok, may_remove=own, must_remove=own)

    raise ValueError(f"unknown step {step!r}")


# --------------------------------------------------------------------------------------------------
# invariants

def check_store(w, snap: Snap, out: Outcome, fail) -> None:
    for mfid, f in snap.files.items():
        if f["stream"] not in snap.streams:
            fail("dangling/media_file.stream", f"media_file {mfid} ({f['name']}) -> Stream {f['stream']}")
        if f["blob"] not in snap.blobs:
            fail("dangling/media_file.blob", f"media_file {mfid} ({f['name']}) -> Blob {f['blob']}")
        elif f["stream"] in snap.streams:
            path = w.blob_folder / snap.streams[f["stream"]]["directory"] / snap.blobs[f["blob"]]["filename"]
            if not path.is_file():
                fail("blob-file-missing", f"media_file {mfid} ({f['name']}): {path.relative_to(w.blob_folder)} not on disk")
            elif path.stat().st_size != snap.blobs[f["blob"]]["size"]:
                fail("blob-size-mismatch", f"media_file {mfid}: Blob.size {snap.blobs[f['blob']]['size']} file {path.stat().st_size}")
    for m, k in sorted(snap.links):
        if m not in snap.files:
            fail("dangling/mediafile_keys.media_pk", f"link ({m},{k})")
        if k not in snap.keys:
            fail("dangling/mediafile_keys.key_pk", f"link ({m},{k})")
    for e, m in snap.errors.items():
        if m not in snap.files:
            fail("dangling/media_file_error.media_pk", f"error {e} -> media_file {m}")
    for ppk, p in snap.periods.items():
        if p["stream"] not in snap.streams:
            fail("dangling/period.stream_pk", f"period {ppk} -> Stream {p['stream']}")
        if p["parent"] not in snap.mps:
            fail("dangling/period.parent_pk", f"period {ppk} -> mp_stream {p['parent']}")
    for a, v in snap.asets.items():
        if v["period"] not in snap.periods:
            fail("dangling/adaptation_set.period_pk", f"adaptation_set {a} -> period {v['period']}")
        if v["ctype"] not in snap.ctypes:
            fail("dangling/adaptation_set.content_type_pk", f"adaptation_set {a} -> content_type {v['ctype']}")
    for label, values in (("Stream.directory", [s["directory"] for s in snap.streams.values()]),
                          ("media_file.name", [f["name"] for f in snap.files.values()]),
                          ("key.hkid", [k.lower() for k in snap.keys.values()]),
                          ("mp_stream.name", list(snap.mps.values())),
                          ("Blob.filename", [b["filename"] for b in snap.blobs.values()])):
        if len(values) != len(set(values)):
            dup = sorted({v for v in values if values.count(v) > 1})
            fail(f"not-unique/{label}", f"{dup[:3]}")
    for spk, s in snap.streams.items():
        name = snap.timing_name(spk)
        if name is None:
            continue
        match = [f for f in snap.files.values() if f["name"] == name]
        if not match:
            fail("dangling/stream.timing_ref", f"Stream {spk} ({s['directory']}) timing reference '{name}': no such media file")
        elif match[0]["stream"] != spk:
            fail("timing_ref/file-of-other-stream", f"Stream {spk} ({s['directory']}) timing reference '{name}' belongs to Stream {match[0]['stream']}")
        elif not match[0]["indexed"]:
            fail("timing_ref/unindexed-file", f"Stream {spk} ({s['directory']}) timing reference '{name}' is not indexed")


def stream_context(snap: Snap, spk: int) -> str:
    """what is unusual about the stored stream (most specific first); part of the 5xx signatures"""
    name = snap.timing_name(spk)
    mine = [f for f in snap.files.values() if f["stream"] == spk]
    if name is not None and not any(f["name"] == name for f in mine):
        return "timing-ref-dangling"
    if name is not None and any(f["name"] == name and not f["indexed"] for f in mine):
        return "timing-ref-unindexed"
    if name is None:
        return "no-timing-ref"
    by_track: dict = {}
    for f in mine:
        if f["indexed"]:
            by_track.setdefault(f["track"], set()).add(f["ctype"])
    if any(len(v) > 1 for v in by_track.values()):
        return "track-id-shared-by-content-types"
    if len({f["track"] for f in mine if f["indexed"] and f["ctype"] == "video"}) > 1:
        return "video-files-with-different-track-ids"
    if any(not f["indexed"] for f in mine):
        return "has-unindexed-file"
    if not any(f["ctype"] == "video" for f in mine):
        return "no-video-file"
    return "complete"


def mps_context(snap: Snap, mpk: int) -> str:
    mine = [p for p in snap.periods.values() if p["parent"] == mpk]
    if not mine:
        return "no-periods"
    if any(p["stream"] not in snap.streams for p in mine):
        return "period-stream-deleted"
    ctx = sorted({stream_context(snap, p["stream"]) for p in mine} - {"complete"})
    return "period-stream-" + ctx[0] if ctx else "complete"


def check_serving(w, snap: Snap, fail, out: Outcome) -> int:
    n = 0
    for spk, s in snap.streams.items():
        for mode in ("vod", "live"):
            r = w.env.get(f"/dash/{mode}/{s['directory']}/hand_made.mpd")
            n += 1
            if r.status >= 500 or r.exc is not None:
                exc = type(r.exc).__name__ if r.exc is not None else "none"
                fail(f"5xx/manifest/{exc}@{r.exc_where}",
                     f"GET /dash/{mode}/{s['directory']}/hand_made.mpd -> {r.status} {r.exc!r}; stored stream is "
                     f"'{stream_context(snap, spk)}'")
            else:
                out.cls(f"manifest:{r.status}")
    for mpk, name in snap.mps.items():
        r = w.env.get(f"/mps/vod/{name}/hand_made.mpd")
        n += 1
        if r.status >= 500 or r.exc is not None:
            exc = type(r.exc).__name__ if r.exc is not None else "none"
            fail(f"5xx/mps-manifest/{exc}@{r.exc_where}",
                 f"GET /mps/vod/{name}/hand_made.mpd -> {r.status} {r.exc!r}; stored multi-period stream is "
                 f"'{mps_context(snap, mpk)}'")
        else:
            out.cls(f"mps-manifest:{r.status}")
    return n


def check_bytes(w, snap: Snap, model: Model, fail, out: Outcome) -> int:
    n = 0
    for mfid, body in sorted(model.content.items()):
        f = snap.files.get(mfid)
        if body is None or not body or f is None or mfid not in model.indexed or f["stream"] not in snap.streams:
            continue
        d = snap.streams[f["stream"]]["directory"]
        url = f"/dash/odvod/{d}/{f['name']}.mp4"
        r = w.env.get(url, headers={"Range": f"bytes=0-{len(body) - 1}"})
        n += 1
        if r.status >= 500 or r.exc is not None:
            fail(f"5xx/odvod/{type(r.exc).__name__ if r.exc else 'none'}@{r.exc_where}", f"GET {url} -> {r.status}")
        elif r.status not in (200, 206):
            kind = "mixed-case-name" if f["name"] != f["name"].lower() else "indexed-file"
            fail(f"not-served-back/{kind}/{r.status}", f"GET {url} Range 0-{len(body) - 1} -> {r.status} {r.text[:80]!r}")
        elif r.body != body:
            fail("served-bytes-differ", f"GET {url}: {len(r.body)} bytes, uploaded {len(body)}")
        else:
            out.cls("byte-exact-ok")
    return n


def check_history(case) -> Outcome:
    from .. import mgmt
    out = Outcome()
    w = world()
    w.restore()
    api = mgmt.Api(w, "media", "both")
    holder = {}

    def admin_api():
        if "a" not in holder:
            holder["a"] = mgmt.Api(w, "admin", "both")
        return holder["a"]

    seen: dict[str, str] = {}

    def failer(prefix):
        def fail(sig, detail):
            seen.setdefault(sig, f"{prefix}: {detail}")
        return fail

    pre = Snap(w)
    model = Model(pre)
    evals = 0
    # the pristine world is judged too, so that nothing it already contains is blamed on step 0
    initial = failer("initial state (bbb, tears, spare with an un-indexed file and no timing reference, mps1)")
    check_store(w, pre, out, initial)
    evals += check_serving(w, pre, initial, out)
    served_key = pre.serving_key()
    for idx, step in enumerate(case["steps"]):
        res = run_step(w, api, admin_api, step, pre, model)
        post = Snap(w)
        where = f"step {idx} {step} [{res.op}{' ' + res.note if res.note else ''}] -> {res.resp.status}"
        fail = failer(where)
        out.cls(f"op:{res.op}", f"op-{'ok' if res.ok else 'refused'}:{res.op.split('-')[0]}")
        r = res.resp
        if r.status >= 500 or r.exc is not None:
            exc = type(r.exc).__name__ if r.exc is not None else "none"
            fail(f"5xx/mgmt/{res.op.split('-')[0]}/{exc}@{r.exc_where}", f"{r.exc!r}")
        # I5 exactness
        a, b = pre.rows(), post.rows()
        for t in a:
            gone = {(t, k) for k in a[t] - b[t]}
            new = b[t] - a[t]
            extra = gone - res.may_remove
            if extra:
                fail(f"removed-unowned/{t}/{res.op}", f"rows {sorted(extra, key=repr)[:4]} disappeared; the operation owns "
                                                      f"{sorted(res.may_remove, key=repr)[:6]}")
            if new and t not in res.may_insert:
                fail(f"inserted-unexpected/{t}/{res.op}", f"new rows {sorted(new, key=repr)[:4]}")
            if new and not res.ok and r.status < 500:
                fail(f"inserted-on-refusal/{t}/{res.op}", f"new rows {sorted(new, key=repr)[:4]} although the response is not a success")
        left = {x for x in res.must_remove if x[1] in b[x[0]]}
        if left:
            fail(f"left-owned/{sorted(left, key=repr)[0][0]}/{res.op}", f"still present after a successful delete: {sorted(left, key=repr)[:4]}")
        # I1-I4
        check_store(w, post, out, fail)
        # I6, I7 (only when something the serving path reads has changed)
        key = post.serving_key()
        if key != served_key:
            evals += check_serving(w, post, fail, out)
            evals += check_bytes(w, post, model, fail, out)
            served_key = key
        pre = post
        evals += 1
    for sig, detail in seen.items():
        out.fail(sig, detail)
    for k, v in model.flags.items():
        if v:
            out.cls(k)
    out.nontrivial = any(model.flags.values())
    out.weight = max(1, evals)
    return out


# --------------------------------------------------------------------------------------------------

class Histories(Engine):
    name = "histories"
    kind = "hypothesis"

    def budget(self, tier):
        return 640 if tier == "quick" else 40_000

    def strategy(self, tier):
        from hypothesis import strategies as st
        max_steps = 25 if tier == "quick" else 60
        ref = st.one_of(st.integers(0, 7), st.integers(0, 3), st.tuples(st.just("last"), st.integers(0, 2)),
                        st.tuples(st.just("last"), st.integers(0, 1)),
                        st.tuples(st.just("stale"), st.integers(0, 3)), st.tuples(st.just("never"), st.integers(0, 3)))
        live_ref = st.integers(0, 7)
        how3 = st.sampled_from(["ajax", "form", "api"])
        timing = st.one_of(st.sampled_from(["keep", "clear", "bogus"]), st.tuples(st.just("file"), st.integers(0, 9)),
                           st.tuples(st.just("file"), st.integers(0, 9)), st.tuples(st.just("foreign"), st.integers(0, 20)))
        period = st.tuples(ref, st.integers(0, 30), st.integers(0, 40))
        steps = [
            st.tuples(st.just("add_stream"), st.integers(0, 6), st.sampled_from(["form", "json"])),
            st.tuples(st.just("edit_stream"), ref, st.integers(0, 3), timing, st.integers(0, 6), st.sampled_from(["form", "json"])),
            st.tuples(st.just("delete_stream"), ref, how3),
            st.tuples(st.just("edit_defaults"), ref, st.integers(0, 40)),
            st.tuples(st.just("upload"), ref, st.sampled_from(UPLOAD_KINDS), st.integers(0, 5), st.sampled_from([1, 1, 1, 0])),
            st.tuples(st.just("upload"), live_ref, st.sampled_from(UPLOAD_KINDS[:5]), st.integers(0, 2), st.just(1)),
            st.tuples(st.just("index"), ref),
            st.tuples(st.just("index"), st.tuples(st.just("last"), st.integers(0, 1))),
            st.tuples(st.just("edit_media"), ref, st.integers(1, 4), st.integers(0, 3)),
            st.tuples(st.just("edit_media"), st.tuples(st.just("last"), st.integers(0, 2)), st.integers(1, 4), st.integers(0, 3)),
            st.tuples(st.just("delete_media"), ref, how3),
            st.tuples(st.just("add_key"), st.one_of(st.integers(0, 4), st.integers(0, 7)), st.sampled_from(["valid", "valid2", "none", "short", "nothex"]),
                      st.sampled_from(["put", "form"])),
            # the same key id in two spellings (one of them is the id an encrypted fixture file uses)
            st.tuples(st.just("add_key"), st.sampled_from([2, 6, 4, 5, 3, 7]), st.sampled_from(["valid", "valid2"]),
                      st.sampled_from(["put", "form"])),
            st.tuples(st.just("edit_key"), ref, st.sampled_from(["valid", "valid2", "short", "nothex"]), st.integers(0, 1)),
            st.tuples(st.just("delete_key"), ref, st.sampled_from(["api", "form"])),
            st.tuples(st.just("add_mps"), st.integers(0, 3), st.lists(period, min_size=1, max_size=3)),
            st.tuples(st.just("edit_mps"), ref, st.integers(0, 3),
                      st.one_of(st.sampled_from(["retitle", "drop_tracks", "empty_body"]), st.tuples(st.just("rename"), st.integers(0, 3)),
                                st.tuples(st.just("add_period"), ref), st.tuples(st.just("retarget"), ref))),
            st.tuples(st.just("delete_mps"), ref),
            st.tuples(st.just("add_user"), st.integers(0, 5)),
            st.tuples(st.just("delete_user"), ref),
        ]
        # one_of() would merge repeated alternatives, so the weights are applied through an index draw
        weights = [2, 3, 4, 1, 4, 4, 3, 3, 2, 2, 4, 2, 1, 2, 2, 3, 2, 1, 1]
        index = st.sampled_from([i for i, n in enumerate(weights) for _ in range(n)])
        step = index.flatmap(lambda i: steps[i])
        return st.lists(step, min_size=4, max_size=max_steps).map(lambda xs: {"steps": json.loads(json.dumps(xs))})

    def check(self, case):
        return check_history(case)


ENGINES = [Histories()]
