"""C16 part (b), coverage-guided: atheris (libFuzzer) drives raw bytes into Mp4Atom.load with the same oracle as
the structured-mutation engine (c16_mp4.check_lib): deterministic read and call budgets, address-space limit.

The fuzzing itself runs in a child process (libFuzzer ends with os._exit); the child writes every input that
tripped the oracle, and the corpus it grew, to a directory.  The parent replays those inputs in-process through
check_bytes() - so what is reported (and what a replay file reproduces) never depends on the fuzzer.

child:  python -m vt.props.c16_fuzz <workdir> <runs> <seed> <seeded:0|1> [max seconds]
"""
from __future__ import annotations

import gc
import hashlib
import json
import os
import sys
from pathlib import Path

from ..runner import Outcome

MAX_LEN = 4096
SEEDS = ["synth_v", "synth_a", "synth_t", "synth_venc", "short", "fix_t1"]


def check_bytes(data: bytes) -> Outcome:
    """the in-process oracle for one input (used for reporting and for replay)"""
    from . import c16_mp4
    out = Outcome()
    c16_mp4.check_lib(data, out)
    seen = {}
    for s, d in out.violations:
        seen.setdefault(s, d)
    out.violations = list(seen.items())
    out.nontrivial = len(data) >= 8
    out.weight = 4
    out.cls("len:" + ("<64" if len(data) < 64 else "<512" if len(data) < 512 else ">=512"))
    return out


def seed_inputs() -> dict[str, bytes]:
    from .. import mgmt
    res = {}
    for name in SEEDS:
        data = mgmt.upload_body(name)
        # the first kilobytes hold the init segment and the first fragment; the rest is sample data
        res[name] = data[:MAX_LEN]
    return res


# --------------------------------------------------------------------------------------------------- child

def _child(workdir: str, runs: int, seed: int, seeded: bool, max_time: int = 0) -> None:
    import resource
    import atheris
    wd = Path(workdir)
    corpus = wd / "corpus"
    hits = wd / "hits"
    corpus.mkdir(parents=True, exist_ok=True)
    hits.mkdir(parents=True, exist_ok=True)
    with atheris.instrument_imports(include=["dashlive.mpeg", "dashlive.utils"]):
        from .. import app
        app.boot()                  # clock + shims + sys.path for the tree under test; imports dashlive
        import dashlive.mpeg.mp4    # noqa: F401
    if seeded:
        for name, data in seed_inputs().items():
            (corpus / f"seed-{name}").write_bytes(data)
    lim = 3 << 30
    resource.setrlimit(resource.RLIMIT_AS, (lim, lim))
    from . import c16_mp4
    state = {"n": 0, "raised": 0, "parsed": 0}
    found: set[str] = set()

    def one(data: bytes) -> None:
        state["n"] += 1
        if len(data) > MAX_LEN:
            return
        for mode, lazy in (("r", True), ("rw", False)):
            gc_needed = False
            res = c16_mp4._try_parse(data, mode, lazy)
            if res == c16_mp4._OK:
                state["parsed"] += 1
            elif res == c16_mp4._RAISED:
                state["raised"] += 1
            else:
                gc_needed = True
                key = res + ":" + str(c16_mp4._slot_where())
                if key not in found:
                    found.add(key)
                    (hits / (hashlib.sha1(data).hexdigest()[:16] + ".bin")).write_bytes(data)
            if gc_needed:
                gc.collect()
        if state["n"] % 500 == 0:
            (wd / "stats.json").write_text(json.dumps(state))

    atheris.Setup([sys.argv[0], str(corpus), f"-runs={runs}", f"-seed={seed or 1}", f"-max_len={MAX_LEN}",
                   "-timeout=60", f"-artifact_prefix={wd}/", "-rss_limit_mb=0", "-print_final_stats=0", "-verbosity=0"]
                  + ([f"-max_total_time={max_time}"] if max_time else []), one)
    (wd / "stats.json").write_text(json.dumps(state))
    atheris.Fuzz()


if __name__ == "__main__":
    _child(sys.argv[1], int(sys.argv[2]), int(sys.argv[3]), sys.argv[4] == "1", int(sys.argv[5]) if len(sys.argv) > 5 else 0)
