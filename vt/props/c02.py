"""C02 - served segments carry exactly the advertised time, number and duration.

Bodies are read with vt/isobox.py; the stored segment that was delivered is
identified by its mdat payload and located by the independent scan of the file.
"""
from __future__ import annotations

import hashlib
from fractions import Fraction

from ..runner import Engine, Outcome

PROPERTY = "C02"
RULE = ("Same session generator as C01 (stream, live template, option vector, phase-controlled clock with "
        "loops up to 1e7 so decode times exceed 2^32 ticks). For every fetched segment the independent box "
        "reader extracts tfdt, mfhd sequence number and trun durations; every SegmentTimeline is checked for "
        "gaps over its whole length; the delivered stored segment is identified by its payload. Non-trivial: a "
        "checked segment is the last of a loop, or loops >= 1, or tfdt >= 2^32, or the Representation is not "
        "the timing reference. distinct = canonical JSON of the case.")
ASSUMPTIONS = [
    "vt/shims stand in for flask_login, sqlalchemy_jsonfield, dotenv, netifaces; harness-controlled clock",
    "number mode tolerance: half of the longest stored segment duration of the track (at least half the advertised "
    "@duration, rounded up) + (loops+1) x |reference duration in the track's timescale - the track's own duration| "
    "(the per-loop drift correction the statement names)",
    "alignment: stored start of the delivered segment == presentation time mod floor(reference_duration x "
    "timescale / reference_timescale)",
]

_payload_index: dict[str, dict] = {}


def payload_index(path: str) -> dict:
    from .. import session
    if path not in _payload_index:
        sc = session.scan(path)
        data = open(path, "rb").read()
        idx = {}
        for k, (a, b) in enumerate(sc["payload_off"]):
            idx.setdefault(hashlib.blake2b(data[a:b], digest_size=12).digest(), []).append(k)
        _payload_index[path] = idx
    return _payload_index[path]


def check_live(case, cap: int) -> Outcome:
    from .. import app, isobox, mpd, session
    env = app.shared_env()
    out = Outcome()
    T, url, consts = session.live_case_to_request(env, case)
    s = session.Session(env, T, url).load()
    out.cls("tpl:" + case["template"], "stream:" + session.stream_label(case["stream"]))
    if s.resp.status != 200 or s.mpd is None or s.mpd.type != "dynamic" or s.mpd.ast is None:
        out.trivial = "no-live-manifest"
        return out
    m = s.mpd
    now = s.now
    files = env.streams[consts["stream"]]["files"]
    nontrivial = False
    n_checked = 0
    for rep in m.reps:
        tpl = rep.template
        ctype = rep.content_type or "?"
        finfo = files.get(rep.id)
        if tpl is None or finfo is None:
            continue
        sc = session.scan(finfo["path"])
        ts = tpl.timescale
        own = sum(sc["durations"])
        ref_in_ts = consts["ref_ticks"] * ts // consts["timescale"]
        drift = abs(ref_in_ts - own)
        try:
            adv = session.advertised_live(rep, now, case.get("interior", [])[:cap])
        except mpd.MpdError:
            continue
        if adv is None or adv["total"] == 0:
            continue
        tl = adv["timeline"]
        if tl is not None:
            # gapless over the whole listed timeline
            for (t0, d0), (t1, _) in zip(tl, tl[1:]):
                if t0 + d0 != t1:
                    out.fail(f"timeline-gap/{ctype}", f"T={T.isoformat()} {url} rep {rep.id}: S t={t0} d={d0} followed by t={t1}")
                    break
            span = tl[-1][0] + tl[-1][1] - tl[0][0]
            if ref_in_ts and span >= 2 * ref_in_ts:
                out.cls("timeline-spans>=2loops")
        if ts != sc["timescale"]:
            out.fail(f"timescale-mismatch/{ctype}", f"{rep.id}: manifest timescale {ts} file {sc['timescale']}")
            continue
        pidx = payload_index(finfo["path"])
        for j, what, u, n, t, d in adv["items"]:
            r = s.fetch(u)
            if r.status != 200:
                continue        # retrievability is C01's property
            n_checked += 1
            where = f"T={T.isoformat()} {url} rep {rep.id} {what}"
            try:
                root = isobox.Root(r.body)
                frag = isobox.Fragment([b for b in root.children if b.type in (b"styp", b"sidx", b"emsg", b"moof", b"mdat")],
                                       sc["iv_size"])
                tfdt = frag.decode_time
                seq = frag.sequence_number
                dur = sum(x.get("duration", frag.tfhd.get("default_sample_duration")) or 0 for x in frag.trun["samples"])
                if any("duration" not in x for x in frag.trun["samples"]) and "default_sample_duration" not in frag.tfhd:
                    dur = None   # would need trex defaults from the init segment: not judged
            except (isobox.BoxError, Exception) as exc:
                out.fail(f"unreadable-segment/{ctype}/{type(exc).__name__}", f"{where}: {exc}")
                continue
            if tfdt is None:
                out.fail(f"no-tfdt/{ctype}", where)
                continue
            ks = pidx.get(hashlib.blake2b(frag.payload, digest_size=12).digest())
            # several stored segments may carry identical payload bytes (subtitles): any of them may be meant
            k = None
            if ks:
                pres_guess = (t if adv["mode"] == "time" else tfdt)
                k = next((x for x in ks if ref_in_ts and sc["decode_times"][x] - sc["decode_times"][0] == pres_guess % ref_in_ts), ks[0])
            loops = None
            if adv["mode"] == "time":
                if tfdt != t:
                    out.fail(f"time/{ctype}/tfdt!=t", f"{where}: tfdt {tfdt}")
                if dur is not None and dur != d:
                    last = k is not None and k == len(sc["durations"]) - 1
                    kind = "other"
                    if last:
                        kind = ("last-of-loop-drift-correction" if d - dur == ref_in_ts - own
                                else "last-of-loop-other")
                    out.fail(f"time/{ctype}/duration!=S@d/{kind}",
                             f"{where}: sum of sample durations {dur} (stored segment index {k})")
                pres = t
            else:
                if seq != n:
                    out.fail(f"number/{ctype}/sequence!=n", f"{where}: mfhd.sequence_number {seq}")
                if adv["mode"] == "number":
                    nominal = (n - tpl.start_number) * tpl.duration
                    loops = nominal // ref_in_ts if ref_in_ts else 0
                    # "half a segment duration": with irregular stored durations the server delivers the
                    # stored segment whose start is nearest the nominal time, so the bound is half of the
                    # longest stored segment (never less than half the advertised duration), rounded up
                    tol = Fraction(max(max(sc["durations"]), tpl.duration) + 1, 2) + (loops + 1) * drift
                    if abs(tfdt - nominal) > tol:
                        out.fail(f"number/{ctype}/tfdt-far-from-nominal",
                                 f"{where}: tfdt {tfdt} nominal {nominal} tolerance {float(tol)} (loops {loops}, drift {drift})")
                else:
                    if tfdt != t:
                        out.fail(f"tl-number/{ctype}/tfdt!=t", f"{where}: tfdt {tfdt}")
                pres = tfdt
            # alignment with the source
            if k is None:
                out.fail(f"payload-not-a-stored-segment/{ctype}", where)
            elif ref_in_ts:
                src_start = sc["decode_times"][k] - sc["decode_times"][0]
                if pres % ref_in_ts != src_start:
                    out.fail(f"{adv['mode']}/{ctype}/source-position!=time-mod-reference",
                             f"{where}: delivered stored segment {k} (source start {src_start}) but presentation "
                             f"time {pres} mod {ref_in_ts} = {pres % ref_in_ts}")
                if k == len(sc["durations"]) - 1:
                    nontrivial = True
                    out.cls("last-of-loop")
            if tfdt >= 2**32:
                nontrivial = True
                out.cls("tfdt>=2^32")
            if pres >= ref_in_ts:
                nontrivial = True
                out.cls("loops>=1")
            if rep.id != env.streams[consts["stream"]].get("timing_ref"):
                nontrivial = True
    out.weight = max(1, n_checked)
    out.nontrivial = nontrivial and n_checked > 0
    seen = {}
    for sg, dd in out.violations:
        seen.setdefault(sg, dd)
    out.violations = list(seen.items())
    return out


class LiveSegments(Engine):
    name = "live_segments"

    def budget(self, tier):
        return 900 if tier == "quick" else 30_000

    def strategy(self, tier):
        from hypothesis import strategies as st
        from .. import app, strategies, synth
        from .c01 import live_templates
        app.boot()
        return st.fixed_dictionaries({
            "stream": st.one_of(st.sampled_from(["bbb", "tears"]),
                                st.builds(lambda sp: {"synth": sp}, synth.stream_specs())),
            "template": st.sampled_from(live_templates()),
            "opts": strategies.live_option_vector(with_events=False),
            "clock": strategies.live_clock(),
            "interior": st.lists(st.integers(0, 10**6), min_size=10, max_size=10),
        })

    def setup(self, tier):
        self.cap = 10 if tier == "quick" else 200

    def check(self, case):
        return check_live(case, getattr(self, "cap", 10))


ENGINES = [LiveSegments()]
