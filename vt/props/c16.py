"""C16 - no request causes an uncontrolled failure; injected errors fire exactly as asked.

Parts: (a) http_surface - generated requests over the whole routing table; (b) mp4_input - mutated MP4
bytes fed to the parser/indexer (vt/props/c16_mp4.py); (c) injection - error-injection exactness as an
operation sequence against a reference model.
"""
from __future__ import annotations

import signal
from pathlib import Path

from ..runner import Engine, Outcome

PROPERTY = "C16"
RULE = ("http_surface: Hypothesis draws a rule from app.url_map (discovered at run time), fills its variables from "
        "pools of existing / missing-piece / non-existing objects (streams without encrypted files, without audio, "
        "without timing reference, with unindexed media, with one media segment, with no files), a role, a method, "
        "1-4 registered option names with legal, boundary (0,-1,2^31,2^63,10^30), type-confused, empty, very long and "
        "hostile values (incl. unknown DRM / time-source / event names, event intervals <= 0, huge counts), an "
        "optional Range header and clock. injection: (verr|aerr|terr specs, failures, request sequences) against a "
        "model of the documented behaviour. Non-trivial: the request reached a dashlive handler (not a routing "
        "404/405) with >= 1 non-default option; injection: >= 2 hits on an addressed segment. distinct = canonical "
        "JSON of the case. mp4_input: a valid file (fixture text/audio file, synthetic video/audio/text/encrypted/short) "
        "with 1-3 mutations placed by the independent box walker: truncation, bit flip, a box size field set to "
        "0/1/7/8/size-1/size+1/size+8/half/double/2^32-16/past its parent, a box type replaced, a 32-bit payload word "
        "set to a boundary value, a box dropped or duplicated; fed to Mp4Atom.load (r/rw x lazy/eager, deterministic "
        "read budget of 4 reads per byte + 2000) or uploaded, indexed and requested through every route that reads "
        "the file. Non-trivial: the bytes differ from the valid file.")
ASSUMPTIONS = [
    "vt/shims stand in for flask_login, sqlalchemy_jsonfield, dotenv, netifaces; harness-controlled clock",
    "TESTING=False, PROPAGATE_EXCEPTIONS=False: an unhandled exception becomes a 500 and is recorded via "
    "got_request_exception",
    "a request still running after 10 s (normal requests take 2-150 ms) is interrupted and re-run once with a limit of "
    "90 s; if it again exceeds the limit it is reported as running without (practical) bound",
    "5xx is legitimate only when the request itself carries an error-injection option addressing it",
]
WATCHDOG_S = 10
# signatures whose verdict rests on a wall-clock limit: the runner replays them alone before reporting them
CONFIRM_ALONE = ("unbounded/",)


class Watchdog(BaseException):
    pass


def _alarm(signum, frame):
    raise Watchdog()


_env = {}


def env16():
    from .. import app, synth
    if "env" in _env:
        return _env["env"]
    e = app.make_env()
    from dashlive.server import models
    base_v = {"kind": "video", "enc": False, "timescale": 1000, "durations": [4000, 4000, 4000, 4000], "samples": 2,
              "first_dt": 0, "tfdt": True, "styp": False, "sidx": False, "base": "moof", "iv": 8, "subsamples": False,
              "sample_size": 40, "per_sample": True}
    base_a = dict(base_v, kind="audio", timescale=48000, durations=[192000] * 4, sample_size=20)
    names = {}
    names["noaudio"] = app.add_synth_stream(e, {"ref": 0, "tracks": [base_v]})
    names["short"] = app.add_synth_stream(e, {"ref": 0, "tracks": [dict(base_v, durations=[4000, 4000, 4100]), dict(base_a, durations=[192000, 192000, 192100])]})
    with e.app.app_context():
        # a stream without any file, one without a timing reference, one with an unindexed media file
        models.db.session.add(models.Stream(title="empty", directory="emptyst"))
        st = models.Stream.get(directory=names["short"])
        models.db.session.commit()
        noref = app.add_synth_stream(e, {"ref": 0, "tracks": [dict(base_v, sample_size=41), dict(base_a, sample_size=21)]})
        st = models.Stream.get(directory=noref)
        st.timing_ref = None
        unidx = app.add_synth_stream(e, {"ref": 0, "tracks": [dict(base_v, sample_size=42), dict(base_a, sample_size=22)]})
        st2 = models.Stream.get(directory=unidx)
        for mf in st2.media_files:
            if mf.content_type == "audio":
                mf.rep = None
        models.db.session.commit()
        names["noref"], names["unindexed"] = noref, unidx
        _env["ids"] = {
            "spk": [s.pk for s in models.Stream.all()] + [9999],
            "mfid": [m.pk for m in models.MediaFile.all()][:12] + [9999],
            "kpk": [k.pk for k in models.Key.all()][:3] + [9999],
            "upk": [1, 2, 3, 4, 9999],
        }
        _env["files"] = {s.directory: [m.name for m in s.media_files] for s in models.Stream.all()}
    app.add_mps(e, "mps1", "multi", [
        {"pid": "p1", "stream": "bbb", "start": 4, "duration": 32, "tracks": [["video", 1, "main"], ["audio", 2, "main"]]},
        {"pid": "p2", "stream": "tears", "start": 8, "duration": 44, "tracks": [["video", 1, "main"], ["audio", 2, "main"]]}])
    with e.app.app_context():
        _env["ids"]["ppk"] = [p.pk for p in models.db.session.execute(models.db.select(models.Period)).scalars()] + [9999]
    _env["streams"] = ["bbb", "tears", "emptyst", "nosuch"] + list(names.values())
    _env["env"] = e
    _env["clients"] = {}
    return e


def role_client(env, role):
    from .. import app
    cl = _env["clients"].get(role)
    if cl is None:
        cl = env.client()
        if role != "anonymous":
            name, _, pw = app.USERS[role]
            env.request("POST", "/api/login", client=cl, json={"username": name, "password": pw, "rememberme": False})
        _env["clients"][role] = cl
    return cl


def guarded_request(env, method, url, **kw):
    """-> (Resp | None, 'ok' | 'unbounded')"""
    from dashlive.server import models
    old = signal.signal(signal.SIGALRM, _alarm)
    try:
        # second attempt with a limit nine times as long: a request that is merely slow because all cores are busy
        # (thorough tiers run 16 shards) must not be taken for one that does not come back
        for attempt in (0, 1):
            signal.setitimer(signal.ITIMER_REAL, WATCHDOG_S if attempt == 0 else 9 * WATCHDOG_S)
            try:
                r = env.request(method, url, **kw)
                signal.setitimer(signal.ITIMER_REAL, 0)
                return r, "ok"
            except Watchdog:
                signal.setitimer(signal.ITIMER_REAL, 0)
                try:
                    with env.app.app_context():
                        models.db.session.remove()
                except Exception:
                    pass
                continue
        return None, "unbounded"
    finally:
        signal.setitimer(signal.ITIMER_REAL, 0)
        signal.signal(signal.SIGALRM, old)


VALUE_POOL = ["0", "1", "-1", "2", "4", "30", "2147483648", "9223372036854775808", "1" + "0" * 30, "abc", "1.5", "", "none", "None",
              "true", "True", "on", "x" * 3000, "&", "<a>", "%", "%00", "{foo}", "{0}", "a,b", ",", "=", "404=5", "404", "=5",
              "503=1,404=2", "404=now", "500=00:00:01Z", "épée", "‮", "all", "foo", "playready-foo", "all-foo", "-", "clearkey-",
              "bogus", "ping,foo", "scte35", "ping", "1e9", "0x10", "٣", " 5", "5 ", "+5", "1970-01-01T00:00:00Z", "2100-01-01T00:00:00Z",
              "2024-02-30T00:00:00Z", "today", "now", "epoch", "00:00:10Z", "25:00:00Z", "10:00:00Z,10:00:04Z", "[]", "[(404, 3)]", "600",
              "300", "-5", "1000000000", "direct", "xsd", "http://x/{cfgs}", "https://a/b?c=d&e=f",
              # (appended later, so that stored cases keep their indexes) numbers at the limit the option parsers accept,
              # numbers that overflow a date but not a timedelta, counts that are cheap to ask for and expensive to serve,
              # and braces as str.format sees them
              "1000000000000", "999999999999", "-1000000000000", "-999999999999", "100000000", "99999999", "86399999999999",
              "253402300800", "{", "}", "}{", "{kids[9]}", "{cfgs.x}", "{default_kid!z}", "{:>9999999}", "https://a/{x}/{0}"]
# the routes that interpret the manifest/media option set (named by endpoint; resolved against app.url_map at run time)
FOCUS_ROUTES = ["dash-mpd-v3", "dash-mpd-v3", "dash-mpd-v3", "dash-media", "dash-media", "dash-media-by-time", "mpd-patch", "time",
                "time", "mps-manifest", "mps-init-seg", "mps-media-seg-by-number", "view-stream", "video", "video-mps",
                "dash-od-media", "dash-mpd-v2"]
# option bundles that only bite together (an option that is ignored unless another one switches its feature on)
COMBOS = [
    {"drm": "playready", "playready__la_url": None}, {"drm": "all", "playready__la_url": None},
    {"drm": "marlin", "marlin__la_url": None}, {"drm": "clearkey", "clearkey__la_url": None},
    {"drm": "playready", "playready__version": None}, {"drm": "all", "playready__piff": None},
    {"events": "ping", "ping__inband": "0", "ping__count": None}, {"events": "scte35", "scte35__inband": "0", "scte35__count": None},
    {"events": "ping", "ping__inband": "0", "ping__count": "3", "ping__interval": None},
    {"events": "ping", "ping__inband": "0", "ping__count": "3", "ping__start": None},
    {"events": "scte35", "scte35__inband": "0", "scte35__count": "3", "scte35__duration": None},
    {"events": "ping", "ping__inband": "1", "ping__interval": None}, {"events": "scte35", "scte35__inband": "1", "scte35__duration": None},
    {"events": "ping", "ping__timescale": None}, {"events": "scte35", "scte35__program_id": None},
    {"time": "xsd", "drift": None}, {"drift": None}, {"patch": "1", "mup": None}, {"timeline": "1", "depth": None},
    {"timeline": "1", "start": None}, {"mup": None, "depth": None},
]
INJECTION_OPTS = {"verr", "aerr", "terr", "merr"}


def fill(rule, pick):
    """path for a werkzeug rule with variables drawn via pick(name) -> str"""
    import re
    out = []
    for conv, args, var in rule._trace if False else ():
        pass
    path = rule.rule
    for m in re.finditer(r"<(?:[^:>]+:)?([^>]+)>", rule.rule):
        path = path.replace(m.group(0), pick(m.group(1)), 1)
    return path


def check_surface(case) -> Outcome:
    from urllib.parse import quote
    from .. import clock
    env = env16()
    out = Outcome()
    rules = sorted(env.app.url_map.iter_rules(), key=lambda r: (r.rule, r.endpoint))
    if isinstance(case["rule"], str):
        # a route named by its endpoint: the option-consuming routes get extra weight this way
        named = [r for r in rules if r.endpoint == case["rule"]]
        rule = named[0] if named else rules[0]
        out.cls("focus-route")
    else:
        rule = rules[case["rule"] % len(rules)]
    streams = _env["streams"]
    picks = case["picks"]
    stream = streams[picks[0] % len(streams)]
    files = _env["files"].get(stream) or ["bbb_v7", "nosuchfile"]
    ids = _env["ids"]
    manifests = ["hand_made.mpd", "manifest_a.mpd", "manifest_b.mpd", "manifest_e.mpd", "manifest_h.mpd", "manifest_i.mpd",
                 "manifest_n.mpd", "manifest_ef.mpd", "manifest_vod_aiv.mpd", "enc.mpd", "manifest_vod.mpd", "bogus.mpd", "hand_made"]

    def pick(var):
        i = picks[(hash_name(var)) % len(picks)]
        table = {
            "stream": streams, "manifest": manifests, "mode": ["live", "vod", "odvod"],
            "filename": files + ["nosuchfile", "bbb_v7", "routemap.js"], "ext": ["m4v", "m4a", "mp4", "m4s"],
            "segment_num": ["1", "2", "init", "0", "10", "11", "999", str(2**40), "7905600"],
            "segment_time": ["0", "960", "3840", "176128", "999999", str(2**40)],
            "segnum": ["0", "1", "5", "10", "11", "999"],
            "spk": [str(x) for x in ids["spk"]], "mfid": [str(x) for x in ids["mfid"]], "kpk": [str(x) for x in ids["kpk"]],
            "upk": [str(x) for x in ids["upk"]], "ppk": [str(x) for x in ids["ppk"]],
            "mps_name": ["mps1", "nosuch", "a.b"], "method": ["head", "xsd", "iso", "http-ntp"],
            "publish": ["0", "1008201864", str(2**40)], "path": ["x", "a/b"],
        }
        vals = table.get(var, ["x", "1"])
        return vals[i % len(vals)]

    path = fill(rule, pick)
    q = []
    has_injection = False
    for name, vi in case["opts"]:
        v = VALUE_POOL[vi % len(VALUE_POOL)]
        q.append(f"{quote(name, safe='')}={quote(v, safe='')}")
        if name in INJECTION_OPTS:
            has_injection = True
    if case.get("combo") is not None:
        ci, vi = case["combo"]
        for name, v in COMBOS[ci % len(COMBOS)].items():
            v = VALUE_POOL[vi % len(VALUE_POOL)] if v is None else v
            q.append(f"{quote(name, safe='')}={quote(v, safe='')}")
        out.cls("combo")
    if case.get("dup") and q:
        q.append(q[0].split("=")[0] + "=dup")
    url = path + ("?" + "&".join(q) if q else "")
    method = case["method"] if case["method"] in (rule.methods or {"GET"}) else "GET"
    headers = {}
    if case.get("range"):
        headers["Range"] = case["range"]
    role = case["role"]
    clock.set_now(["2024-05-05T10:00:00Z", "1970-01-01T00:00:30Z", "2024-01-01T00:00:00Z", "2038-01-19T03:14:08Z"][case["clock"] % 4])
    kw = {"headers": headers}
    if method in ("POST", "PUT"):
        if case.get("json"):
            kw["json"] = {n: VALUE_POOL[vi % len(VALUE_POOL)] for n, vi in case["opts"]}
        else:
            kw["data"] = {n: VALUE_POOL[vi % len(VALUE_POOL)] for n, vi in case["opts"]}
    r, state = guarded_request(env, method, url, client=role_client(env, role), **kw)
    out.cls("rule:" + rule.endpoint, "role:" + role, "method:" + method)
    optnames = "+".join(sorted({n for n, _ in case["opts"]} |
                               (set(COMBOS[case["combo"][0] % len(COMBOS)]) if case.get("combo") is not None else set())))[:60]
    if state == "unbounded":
        out.fail(f"unbounded/{rule.endpoint}/{optnames}", f"{method} {url[:400]} as {role}: still running after {WATCHDOG_S}s and again after {9 * WATCHDOG_S}s")
        return out
    if r.exc is not None and "Install Flask with the 'async' extra" in str(r.exc):
        out.trivial = "async-view-unavailable-in-this-environment"      # asgiref is not installed in /venv
        return out
    if r.exc is not None or r.status >= 500:
        if has_injection and r.exc is None and r.status in (503, 504) and b"Synthetic" in r.body:
            out.cls("synthetic-5xx")
        else:
            out.fail(f"5xx/{rule.endpoint}/{type(r.exc).__name__ if r.exc is not None else r.status}/{r.exc_where}",
                     f"{method} {url[:500]} as {role} -> {r.status} {r.exc!r}")
    out.nontrivial = r.status not in (404, 405) and bool(case["opts"])
    return out


def hash_name(s: str) -> int:
    return sum(ord(c) * (i + 1) for i, c in enumerate(s))


class HttpSurface(Engine):
    name = "http_surface"

    def budget(self, tier):
        return 40_000 if tier == "quick" else 3_000_000

    def strategy(self, tier):
        from hypothesis import strategies as st
        from .c07 import option_names
        names = option_names() + ["csrf_token", "ajax", "next", "index", "playready_la_url", "clearkey_la_url", "marlin_la_url", "es5", "nosuchoption"]
        opt = st.tuples(st.sampled_from(names), st.integers(0, len(VALUE_POOL) - 1))
        return st.fixed_dictionaries({
            "rule": st.one_of(st.integers(0, 200), st.integers(0, 200), st.sampled_from(FOCUS_ROUTES)), "picks": st.lists(st.integers(0, 40), min_size=6, max_size=6),
            "opts": st.lists(opt, min_size=0, max_size=4),
            "method": st.sampled_from(["GET", "GET", "GET", "HEAD", "POST", "PUT", "DELETE"]),
            # roles that must not be able to change anything: every case then sees the same server state
            # (management requests by the media/admin roles are exercised, with state restoration, by C17)
            "role": st.sampled_from(["anonymous", "anonymous", "user"]),
            "range": st.sampled_from([None, None, None, "bytes=0-10", "bytes=-5", "bytes=5-", "bytes=9999999-", "items=0-1", "bytes=a-b"]),
            "clock": st.integers(0, 3), "dup": st.booleans(), "json": st.booleans(),
            "combo": st.one_of(st.none(), st.none(), st.tuples(st.integers(0, len(COMBOS) - 1), st.integers(0, len(VALUE_POOL) - 1))),
        })

    def check(self, case):
        return check_surface(case)


# ---------------------------------------------------------------- (c) injection exactness

def check_injection(case) -> Outcome:
    from .. import app, clock
    env = app.shared_env()
    out = Outcome()
    clock.set_now("2024-05-05T10:00:00Z")
    spec = case["spec"]            # {"verr": [[code, n], ...], "aerr": [...], "terr": [...], "failures": N|None}
    q = []
    for k in ("verr", "aerr", "terr"):
        if spec.get(k):
            q.append(f"{k}=" + ",".join(f"{c}={n}" for c, n in spec[k]))
    if spec.get("failures") is not None:
        q.append(f"failures={spec['failures']}")
    qs = "?" + "&".join(q) if q else ""
    reps = {"video": ("bbb_v7", "m4v", "verr"), "audio": ("bbb_a1", "m4a", "aerr"), "text": ("bbb_t1", "mp4", "terr")}
    client = env.client()
    counters = {}
    hits = 0
    for step in case["steps"]:
        if step[0] == "new-session":
            client = env.client()
            counters = {}
            continue
        _, ctype, n = step
        rep, ext, key = reps[ctype]
        url = f"/dash/vod/bbb/{rep}/{n}.{ext}{qs}"
        r = env.get(url, client=client)
        addressed = [c for c, pos in spec.get(key, []) if pos == n]
        want = None
        for code in addressed:           # the first addressed entry that still fires
            if code >= 500 and spec.get("failures") is not None:
                cnt = counters.get((ctype, code), 0) + 1
                counters[(ctype, code)] = cnt
                if cnt > spec["failures"]:
                    counters[(ctype, code)] = 0
                    continue
            want = code
            break
        if addressed:
            hits += 1
        exists = 1 <= n <= {"video": 10, "audio": 10, "text": 4}[ctype]
        desc = f"{url} (step {step}, spec {spec})"
        if r.exc is not None:
            out.fail(f"injection/exception/{type(r.exc).__name__}/{r.exc_where}", f"{desc}: {r.exc!r}")
            break
        if want is not None:
            if r.status != want:
                out.fail(f"injection/addressed-request-not-{'5xx' if want >= 500 else '4xx'}-as-asked", f"{desc}: got {r.status} want {want}")
            elif b"Synthetic" not in r.body:
                out.fail("injection/error-body-not-marked-synthetic", f"{desc}: {r.body[:60]!r}")
        else:
            expect = 200 if exists else 404
            if r.status != expect:
                kind = "unaddressed-request-affected" if not addressed else "exhausted-injection-still-firing"
                out.fail(f"injection/{kind}/{r.status}", f"{desc}: got {r.status} want {expect}")
    out.weight = max(1, len(case["steps"]))
    out.nontrivial = hits >= 2
    out.cls("failures:" + str(spec.get("failures")))
    seen = {}
    for sg, d in out.violations:
        seen.setdefault(sg, d)
    out.violations = list(seen.items())
    return out


class Injection(Engine):
    name = "injection"

    def budget(self, tier):
        return 1200 if tier == "quick" else 80_000

    def strategy(self, tier):
        from hypothesis import strategies as st
        errs = st.lists(st.tuples(st.sampled_from([404, 410, 503, 504]), st.integers(1, 6)), min_size=0, max_size=3,
                        unique_by=lambda t: t[1]).map(lambda l: [list(x) for x in l])
        spec = st.fixed_dictionaries({"verr": errs, "aerr": errs, "terr": errs,
                                      "failures": st.one_of(st.none(), st.integers(0, 3))})
        step = st.one_of(st.tuples(st.just("get"), st.sampled_from(["video", "audio", "text"]), st.integers(1, 7)),
                         st.tuples(st.just("get"), st.just("video"), st.integers(1, 3)),
                         st.just(("new-session",)))
        return st.fixed_dictionaries({"spec": spec, "steps": st.lists(step, min_size=2, max_size=14).map(lambda l: [list(x) for x in l])})

    def check(self, case):
        return check_injection(case)


class Mp4Input(Engine):
    name = "mp4_input"

    def budget(self, tier):
        return 1600 if tier == "quick" else 300_000

    def strategy(self, tier):
        from .. import app
        from . import c16_mp4
        app.boot()
        return c16_mp4.strategy()

    def setup(self, tier):
        # a corrupt count or size field must not be able to take the machine down: with an address-space limit an
        # allocation the parser should never have attempted surfaces as MemoryError (reported as uncontrolled)
        import resource
        lim = 3 << 30
        resource.setrlimit(resource.RLIMIT_AS, (lim, lim))

    def check(self, case):
        from . import c16_mp4
        return c16_mp4.check_mp4(case)


class Mp4Fuzz(Engine):
    """coverage-guided bytes (atheris / libFuzzer) into Mp4Atom.load; even shards start from small valid files,
    odd shards from an empty corpus; the inputs that tripped the oracle and the corpus the fuzzer grew are
    re-judged here, in process, by c16_fuzz.check_bytes"""
    name = "mp4_fuzz"
    kind = "custom"

    def budget(self, tier):
        return 16_000 if tier == "quick" else 3_200_000

    def check(self, case):
        from . import c16_fuzz
        return c16_fuzz.check_bytes(bytes.fromhex(case["hex"]))

    def setup(self, tier):
        Mp4Input.setup(self, tier)

    def run(self, ctx):
        import json as _json
        import os
        import shutil
        import subprocess
        import sys
        import tempfile
        from . import c16_fuzz
        runs = ctx.share(self.budget(ctx.tier))
        wd = tempfile.mkdtemp(prefix="vt-fuzz-", dir=os.environ.get("VT_TMP"))
        try:
            seeded = ctx.shard % 2 == 0
            env = dict(os.environ, PYTHONPATH=os.pathsep.join(p for p in sys.path if p))
            import time as _time
            deadline = float(os.environ.get("VT_DEADLINE", "0") or 0)
            if deadline and _time.time() > deadline - 20:
                ctx.stats.notes.setdefault("time_budget_reached", __import__("collections").Counter())[self.name] += 1
                return
            budget_s = max(10, int(0.7 * (deadline - _time.time()))) if deadline else 0
            r = subprocess.run([sys.executable, "-m", "vt.props.c16_fuzz", wd, str(runs), str(ctx.engine_seed(3) % (2 ** 31)),
                                "1" if seeded else "0", str(budget_s)], cwd=str(Path(__file__).resolve().parents[2]), env=env,
                               stdout=subprocess.DEVNULL, stderr=subprocess.PIPE, timeout=6 * 3600)
            stats = {}
            try:
                stats = _json.loads((Path(wd) / "stats.json").read_text())
            except (OSError, ValueError):
                pass
            if not stats:
                from ..runner import HarnessError
                raise HarnessError(f"atheris child produced no statistics (rc={r.returncode}): {r.stderr.decode(errors='replace')[-1500:]}")
            ctx.stats.notes.setdefault("fuzz_executions", __import__("collections").Counter())["seeded" if seeded else "empty-corpus"] += stats.get("n", 0)
            # every execution of the fuzz target ran the oracle: they are evaluations of this run (the recorded cases
            # below are only the corpus entries and the inputs that tripped the oracle)
            ctx.stats.evaluations += int(stats.get("n", 0))
            ctx.stats.notes.setdefault("fuzz_outcomes", __import__("collections").Counter()).update(
                {"parsed": stats.get("parsed", 0), "raised": stats.get("raised", 0)})
            files = sorted((Path(wd) / "hits").glob("*.bin")) + sorted((Path(wd) / "corpus").glob("*"))
            for f in files[:4000]:
                data = f.read_bytes()
                if f.name.startswith("seed-") or len(data) > c16_fuzz.MAX_LEN:
                    continue
                case = {"hex": data.hex()}
                out = c16_fuzz.check_bytes(data)
                out.cls("corpus:" + ("seeded" if seeded else "empty"))
                ctx.record(self.name, case, out)
        finally:
            shutil.rmtree(wd, ignore_errors=True)


ENGINES = [HttpSurface(), Injection(), Mp4Input(), Mp4Fuzz()]
