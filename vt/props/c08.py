"""C08 - live timing parameters are coherent for every clock and option (pure layer on DashTiming,
plus HTTP confirmation of the four MPD attributes)."""
from __future__ import annotations

import datetime as dt

from ..runner import Engine, Outcome

PROPERTY = "C08"
RULE = ("boundary_grid enumerates every second of the first two minutes (and the last) of the 1st of every "
        "month of 2023-2025, 29 Feb 2024 and 31 Dec x start in {epoch,today,month,year,now} x mup in "
        "{absent,-1,4,30} x depth in {absent,30,7200}; timing_random draws now over 1971-2100 (half of the "
        "mass within 2 minutes of a day/month/year boundary), start symbolic or explicit <= now with any UTC "
        "offset, depth, mup, reference segment duration/timescale, and a later instant now+delta (1us..days) "
        "for the monotonicity clauses; http_confirm renders the manifest and compares the attributes. "
        "Non-trivial: now within 120 s after a day/month/year boundary, or now-AST < requested depth, or a mup "
        "is in force. distinct = canonical JSON of the case.")
ASSUMPTIONS = [
    "options are parsed by the server's own OptionsRepository from their URL text (the accepted domain)",
    "explicit start values are whole seconds (the documented form YYYY-MM-DDTHH:MM:SSZ); fractional seconds "
    "are generated too and reported under their own signature",
    "reference segment duration 0.5 s - 30 s",
]
UTC = dt.timezone.utc
SYMBOLIC = ["epoch", "today", "month", "year", "now"]


def _mk(now, start_text, depth, mup, seg_ticks, timescale, nseg):
    from .. import app
    app.boot()
    from dashlive.mpeg.dash.reference import StreamTimingReference
    from dashlive.mpeg.dash.timing import DashTiming
    from dashlive.server.options.repository import OptionsRepository
    params = {}
    if start_text is not None:
        params["start"] = start_text
    if depth is not None:
        params["depth"] = str(depth)
    if mup is not None:
        params["mup"] = str(mup)
    opts = OptionsRepository.convert_cgi_options(params, defaults=OptionsRepository.get_default_options())
    opts.add_field("mode", "live")
    ref = StreamTimingReference(media_name="ref", media_duration=seg_ticks * nseg, num_media_segments=nseg,
                                segment_duration=seg_ticks, timescale=timescale)
    return DashTiming(now, ref, opts), opts


def _real(d):
    """normalise to a stdlib aware datetime in UTC for arithmetic"""
    from .. import clock
    if d.tzinfo is None:
        d = d.replace(tzinfo=UTC)
    off = d.utcoffset()
    base = clock.REAL(d.year, d.month, d.day, d.hour, d.minute, d.second, d.microsecond, tzinfo=UTC)
    return base - off


def judge(now, start_text, depth, mup, seg_ticks, timescale, nseg, out: Outcome, tag: str):
    """Every clause of the statement for one instant; returns (ast, publish) as real UTC datetimes."""
    desc = f"now={now.isoformat()} start={start_text} depth={depth} mup={mup} seg={seg_ticks}/{timescale}"
    try:
        t, opts = _mk(now, start_text, depth, mup, seg_ticks, timescale, nseg)
    except ValueError as exc:
        out.trivial = "options-rejected"
        return None
    except Exception as exc:
        out.fail(f"{tag}/raises/{type(exc).__name__}", f"{desc}: {exc!r}")
        return None
    z = dt.timedelta(0)
    ast, pub, n = _real(t.availabilityStartTime), _real(t.publishTime), _real(now)
    if ast > n:
        out.fail(f"{tag}/ast>now", f"{desc}: AST {ast}")
    if not (ast <= pub <= n):
        k = "publish<ast" if pub < ast else "publish>now"
        out.fail(f"{tag}/{k}", f"{desc}: AST {ast} publishTime {pub}")
    if pub.microsecond != 0:
        out.fail(f"{tag}/publish-not-whole-second", f"{desc}: publishTime {pub}")
    tsbd = t.timeShiftBufferDepth
    if not isinstance(tsbd, int) or tsbd < 0 or dt.timedelta(seconds=tsbd) > n - ast:
        out.fail(f"{tag}/tsbd-out-of-range", f"{desc}: TSBD {tsbd} elapsed {n - ast}")
    if t.elapsedTime != n - ast:
        out.fail(f"{tag}/elapsed!=now-ast", f"{desc}: {t.elapsedTime} vs {n - ast}")
    fa = n - ast - dt.timedelta(seconds=tsbd if isinstance(tsbd, int) else 0)
    if t.firstAvailableTime != fa or t.firstAvailableTime < z:
        out.fail(f"{tag}/first-available-wrong", f"{desc}: {t.firstAvailableTime} want {fa}")
    p = t.minimumUpdatePeriod
    if p is not None:
        if p <= 0:
            out.fail(f"{tag}/mup<=0-in-force", f"{desc}: {p}")
        else:
            per = dt.timedelta(seconds=p)
            if (pub - ast) % per != z:
                out.fail(f"{tag}/publish-not-on-mup-grid", f"{desc}: AST {ast} publish {pub} p {p}")
            if n - pub >= per + dt.timedelta(seconds=1):
                out.fail(f"{tag}/publish-lags-more-than-mup+1s", f"{desc}: publish {pub} p {p}")
    if start_text in SYMBOLIC:
        if n - ast < dt.timedelta(seconds=60):
            out.fail(f"{tag}/symbolic-younger-than-60s", f"{desc}: AST {ast}")
        if start_text == "now" and ast != n.replace(microsecond=0) - dt.timedelta(seconds=60):
            out.fail(f"{tag}/now-not-60s-behind", f"{desc}: AST {ast}")
    return ast, pub, (p is not None)


def boundaryness(n) -> str:
    s = n.hour * 3600 + n.minute * 60 + n.second
    if s < 120:
        if n.day == 1 and n.month == 1:
            return "after-year-boundary"
        if n.day == 1:
            return "after-month-boundary"
        return "after-day-boundary"
    if s >= 86400 - 2:
        return "before-day-boundary"
    return "midday"


class BoundaryGrid(Engine):
    name = "boundary_grid"
    kind = "enumerate"
    exhaustive = True

    def cases(self, tier):
        days = [(y, m, 1) for y in (2023, 2024, 2025) for m in range(1, 13)] + [(2024, 2, 29), (2023, 12, 31), (2024, 12, 31)]
        for d in days:
            for start in SYMBOLIC:
                for mup in (None, -1, 4, 30):
                    yield {"day": list(d), "start": start, "mup": mup}

    def check(self, case):
        from .. import clock
        out = Outcome()
        y, m, d = case["day"]
        secs = list(range(0, 121)) + [86399]
        ast_by_day = None
        n_eval = 0
        for depth in (None, 30, 7200):
            prev_pub = None
            for s in secs:
                for us in (0, 500000):
                    now = clock.REAL(y, m, d, tzinfo=UTC) + dt.timedelta(seconds=s, microseconds=us)
                    res = judge(now, case["start"], depth, case["mup"], 960, 240, 10, out, case["start"])
                    n_eval += 1
                    if res is None:
                        continue
                    ast, pub, _ = res
                    if prev_pub is not None and pub < prev_pub[0]:
                        why = "ast-moved" if ast != prev_pub[1] else "same-ast"
                        out.fail(f"{case['start']}/publish-decreased/{why}", f"day {case['day']} s={s}: {prev_pub} -> {pub}")
                    prev_pub = (pub, ast)
                    if case["start"] != "now" and s >= 60:
                        if ast_by_day is None:
                            ast_by_day = ast
                        elif ast != ast_by_day:
                            out.fail(f"{case['start']}/ast-changed-within-day",
                                     f"day {case['day']} s={s} depth={depth}: {ast_by_day} vs {ast}")
            if len(out.violations) > 20:
                break
        out.weight = n_eval
        out.nontrivial = True
        out.cls(case["start"], "mup:" + str(case["mup"]))
        seen = {}
        for sg, dd in out.violations:
            seen.setdefault(sg, dd)
        out.violations = list(seen.items())
        return out


class TimingRandom(Engine):
    name = "timing_random"

    def budget(self, tier):
        return 50_000 if tier == "quick" else 3_000_000

    def strategy(self, tier):
        from hypothesis import strategies as st
        near = st.one_of(st.integers(0, 120), st.integers(86398, 86399), st.integers(0, 86399))
        return st.fixed_dictionaries({
            "day": st.integers(366, 47400),                       # days after the epoch: 1971..2099
            "snap": st.sampled_from(["none", "none", "month", "year", "leap"]),
            "sec": near, "us": st.one_of(st.just(0), st.integers(0, 999999), st.sampled_from([1, 999999])),
            "start": st.sampled_from(SYMBOLIC + ["explicit", "explicit", "explicit-frac", "default"]),
            "age_s": st.one_of(st.integers(0, 200), st.integers(0, 10**5), st.integers(0, 10**9)),
            "age_us": st.one_of(st.just(0), st.integers(0, 999999)),
            "offset_min": st.one_of(st.just(0), st.integers(-840, 840)),
            "depth": st.one_of(st.none(), st.sampled_from([0, 1, 30, 60, 1800]), st.integers(0, 10**6)),
            "mup": st.one_of(st.none(), st.sampled_from([-1, 0, 4, 30]), st.integers(1, 3600)),
            "seg_ms": st.one_of(st.sampled_from([2000, 4000, 3840, 10000]), st.integers(500, 30000)),
            "timescale": st.sampled_from([1, 10, 240, 1000, 12800, 44100, 48000, 90000, 10**7]),
            "delta_us": st.one_of(st.integers(1, 2 * 10**6), st.integers(1, 10**8), st.integers(1, 5 * 86400 * 10**6)),
        })

    def check(self, case):
        from .. import clock
        out = Outcome()
        epoch = clock.REAL(1970, 1, 1, tzinfo=UTC)
        day = epoch + dt.timedelta(days=case["day"])
        if case["snap"] == "month":
            day = day.replace(day=1)
        elif case["snap"] == "year":
            day = day.replace(month=1, day=1)
        elif case["snap"] == "leap":
            y = day.year - day.year % 4
            if y % 100 == 0 and y % 400 != 0:
                y += 4
            day = day.replace(year=max(1972, y), month=2, day=29)
        now = day + dt.timedelta(seconds=case["sec"], microseconds=case["us"])
        kind = case["start"]
        tag = kind
        if kind in ("explicit", "explicit-frac"):
            age = dt.timedelta(seconds=case["age_s"], microseconds=case["age_us"] if kind == "explicit-frac" else 0)
            st_ = now - age
            if kind == "explicit":
                st_ = st_.replace(microsecond=0)
            if st_ < clock.REAL(1970, 1, 1, tzinfo=UTC):
                st_ = clock.REAL(1970, 1, 1, tzinfo=UTC)
            tz = dt.timezone(dt.timedelta(minutes=case["offset_min"]))
            loc = st_.astimezone(tz)
            text = "%04d-%02d-%02dT%02d:%02d:%02d" % (loc.year, loc.month, loc.day, loc.hour, loc.minute, loc.second)
            if loc.microsecond:
                text += ".%06d" % loc.microsecond
            if case["offset_min"] == 0:
                text += "Z"
            else:
                m = abs(case["offset_min"])
                text += "%s%02d:%02d" % ("+" if case["offset_min"] > 0 else "-", m // 60, m % 60)
            start_text = text
        elif kind == "default":
            start_text = None
        else:
            start_text = kind
        ts = case["timescale"]
        seg_ticks = max(1, case["seg_ms"] * ts // 1000)
        if seg_ticks * 1000 < 500 * ts:        # keep the reference segment >= 0.5 s
            seg_ticks = -(-500 * ts // 1000)
        r1 = judge(now, start_text, case["depth"], case["mup"], seg_ticks, ts, 10, out, tag)
        now2 = now + dt.timedelta(microseconds=case["delta_us"])
        r2 = judge(now2, start_text, case["depth"], case["mup"], seg_ticks, ts, 10, out, tag)
        out.weight = 2
        mup_in_force = False
        if r1 and r2:
            a1, p1, mup_in_force = r1
            a2, p2, _ = r2
            if p2 < p1:
                why = "ast-moved" if a1 != a2 else "same-ast"
                out.fail(f"{tag}/publish-decreased/{why}",
                         f"now {now} -> {now2} (mup {case['mup']}): AST {a1} -> {a2}, publishTime {p1} -> {p2}")
            if kind in ("epoch", "today", "month", "year") and now.date() == now2.date() and \
                    now.hour * 3600 + now.minute * 60 + now.second >= 60 and a1 != a2:
                out.fail(f"{tag}/ast-changed-within-day", f"now {now} -> {now2}: {a1} -> {a2}")
            young = case["depth"] is not None and (now - a1) < dt.timedelta(seconds=case["depth"])
            out.nontrivial = boundaryness(now) != "midday" or young or mup_in_force
            if young:
                out.cls("younger-than-depth")
        out.cls(kind, boundaryness(now), "mup-in-force" if mup_in_force else "no-mup")
        seen = {}
        for sg, dd in out.violations:
            seen.setdefault(sg, dd)
        out.violations = list(seen.items())
        return out


class HttpConfirm(Engine):
    """The four MPD attributes of a rendered manifest equal what the statement requires of them."""
    name = "http_confirm"

    def budget(self, tier):
        return 800 if tier == "quick" else 40_000

    def strategy(self, tier):
        from hypothesis import strategies as st
        from .. import strategies
        return st.fixed_dictionaries({
            "stream": st.sampled_from(["bbb", "tears"]),
            "template": st.sampled_from(["hand_made.mpd", "manifest_a.mpd", "manifest_e.mpd", "manifest_h.mpd",
                                         "manifest_i.mpd", "manifest_n.mpd", "manifest_ef.mpd"]),
            "opts": st.fixed_dictionaries({}, optional={
                "depth": st.one_of(st.sampled_from(["0", "30", "1800"]), st.integers(0, 10**5).map(str)),
                "mup": st.one_of(st.sampled_from(["-1", "4", "30"]), st.integers(1, 600).map(str)),
            }),
            "clock": strategies.live_clock(),
        })

    def check(self, case):
        from .. import app, mpd, session
        from fractions import Fraction
        env = app.shared_env()
        out = Outcome()
        T, url, consts = session.live_case_to_request(env, case)
        s = session.Session(env, T, url).load()
        if s.resp.status != 200 or s.mpd is None or s.mpd.type != "dynamic":
            out.trivial = "no-live-manifest"
            return out
        m, now = s.mpd, s.now
        tag = "mpd/" + case["clock"]["start"]
        d = f"T={T.isoformat()} {url}: AST {m.root.get('availabilityStartTime')} publishTime {m.root.get('publishTime')} " \
            f"TSBD {m.root.get('timeShiftBufferDepth')} mup {m.root.get('minimumUpdatePeriod')}"
        if m.ast is None:
            out.fail(f"{tag}/attribute-missing", d)
            return out
        if m.tsbd is None:
            # some templates omit a zero timeShiftBufferDepth (stream younger than one second)
            out.trivial = "no-timeShiftBufferDepth-attribute"
            return out
        if m.ast > now:
            out.fail(f"{tag}/ast>now", d)
        if m.publish is None:
            out.cls("no-publishTime-attribute")      # presence is judged by C05, not here
        else:
            if not (m.ast <= m.publish <= now):
                out.fail(f"{tag}/publish-outside-[ast,now]", d)
            if m.publish.denominator != 1:
                out.fail(f"{tag}/publish-not-whole-second", d)
        if not (0 <= m.tsbd <= now - m.ast):
            out.fail(f"{tag}/tsbd-out-of-range", d)
        if m.mup is not None and m.mup > 0 and m.publish is not None:
            if (m.publish - m.ast) % m.mup != 0:
                out.fail(f"{tag}/publish-not-on-mup-grid", d)
            if now - m.publish >= m.mup + 1:
                out.fail(f"{tag}/publish-lags-more-than-mup+1s", d)
        if case["clock"]["start"] in SYMBOLIC and now - m.ast < 60:
            out.fail(f"{tag}/symbolic-younger-than-60s", d)
        want_depth = case["opts"].get("depth")
        out.nontrivial = m.mup is not None or (want_depth is not None and now - m.ast < int(want_depth))
        out.cls(case["template"], case["clock"]["start"])
        return out


ENGINES = [BoundaryGrid(), TimingRandom(), HttpConfirm()]
