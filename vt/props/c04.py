"""C04 - ISO-BMFF parse/encode round-trips byte-exactly (eager and lazy, JSON form, after edits).

Three engines under the one check:
  fixture_roundtrip  every fixture file: whole file, every media-segment window the way the server loads
                     it, and every nested box of a context-free class on its own
  generated_boxes    box trees written by the independent writer vt/isowrite.py from generated field values
  edit_sequences     explicit edit scripts (field assignments, insert/append/remove of boxes, lazy touches)
                     applied to fixture or generated trees; after every step the output is walked by the
                     independent strict parser
"""
from __future__ import annotations

import copy
import io
import json
import struct
import traceback
from pathlib import Path

from ..runner import Engine, Outcome

PROPERTY = "C04"
RULE = ("fixture_roundtrip enumerates, for every tests/fixtures/**/*.mp4: the whole file, every init/media-segment "
        "window (loaded through the repository's windowed BufferedReader as load_fragment does) and the set of nested "
        "boxes of context-free classes, each parsed alone. generated_boxes: Hypothesis draws a file spec (init "
        "segment with 1-2 tracks of any modelled sample entry, clear or encrypted with 8/16-byte or constant IV; "
        "0-2 fragments with any tfhd/trun flag combination, five base-offset layouts, multi-run and multi-track "
        "fragments, senc/saiz/saio/PIFF in any order; or a soup of file-level boxes), field values from boundary "
        "sets (0, 1, 2^k-1, 2^k, 2^(k-1)) and uniform ranges, 1 in 25 boxes with a 64-bit largesize header, 1 in 12 "
        "files ending in a size==0 box; the independent writer turns it into bytes. Per tree: load+encode in mode "
        "r/rw x lazy on/off, lazy tree touched everywhere then encoded, eager-vs-lazy toJSON equality, rw tree with "
        "every field assigned to itself, fromJSON(toJSON()) encoded. edit_sequences: Hypothesis draws a base tree "
        "(fixture window or generated file) and <= 6 edit steps; the case is the explicit step list. Non-trivial: "
        "fixture case with >= 2 modelled classes; generated tree with >= 2 distinct box classes or a (class, version, "
        "flags) absent from every fixture; edit case in which >= 1 step changed the encoded bytes. distinct = "
        "canonical JSON of the case; out.weight = boxes x passes.")
ASSUMPTIONS = [
    "vt/isowrite.py (struct only, written from ISO/IEC 14496-12/-15/-1/-30, 23001-7, 23009-1, ETSI TS 102 366, PIFF 1.1) "
    "is the reference for what a well-formed box is; reserved bits and fields are always written as the specifications require",
    "a senc/PIFF box is only generated with a saiz in the same traf and with the IV size available from Options(iv_size) "
    "and, when an init segment is part of the tree, from its tenc (the same value)",
    "layout-dependent fields are generated consistent with the layout: the first run of a fragment points at the first "
    "payload byte of the mdat that follows the moof, later runs continue where the previous one ended, saio points at the "
    "first IV of the senc box",
    "a tree is encoded as a whole (Wrapper.encode, or every top-level atom in turn into one stream) so that absolute "
    "positions stay what they were; single nested atoms are not encoded on their own",
    "tests/fixtures/senc.mp4 (a bare senc box without saiz, not a file) is excluded; a media-segment window whose tfhd "
    "carries an absolute base_data_offset is only checked as part of its whole file",
    "edit steps are those of media_requests.generate_media_segment/generate_init_segment, playready.update_traf_if_required, "
    "media_management.modify_atoms and tests/test_mp4.py, plus plain assignments of in-range values to public fields",
    "vt/shims stand in for flask_login, sqlalchemy_jsonfield, dotenv, netifaces (only needed to import dashlive)",
]
TIME_LIMIT = {"quick": 900, "thorough": 6 * 3600}

MODES = [("r", True), ("r", False), ("rw", True), ("rw", False)]
STRUCTURAL = {"position", "size", "atom_type", "parent", "options", "header_size", "children", "payload_start"}


# --------------------------------------------------------------------------- library access

def _lib():
    from .. import app
    app.boot()
    from dashlive.mpeg import mp4
    from dashlive.utils.buffered_reader import BufferedReader
    return mp4, BufferedReader


class ParseBudgetExceeded(Exception):
    """the parser made far more reads than the input has bytes: it is not going to terminate"""


_guarded: dict = {}


def _source(kind: str, data: bytes):
    """The two kinds of source real callers pass, each with a deterministic read budget (20 reads per input
    byte + 10000; a normal parse needs at most one read per byte) so that a parser that never terminates becomes
    a reported violation instead of an exhausted machine."""
    mp4, BufferedReader = _lib()
    if not _guarded:
        def guard(base):
            class Guarded(base):
                def read(self, *a):
                    self._vt_budget -= 1
                    if self._vt_budget < 0:
                        raise ParseBudgetExceeded(f"more than {20 * self._vt_len + 10000} reads on {self._vt_len} bytes of input")
                    return super().read(*a)
            Guarded.__name__ = base.__name__
            return Guarded
        _guarded["br"] = guard(BufferedReader)
        _guarded["io"] = guard(io.BufferedReader)
    src = _guarded["br"](None, data=data) if kind == "br" else _guarded["io"](io.BytesIO(data))
    src._vt_len = len(data)
    src._vt_budget = 20 * len(data) + 10000
    return src


def _load(data: bytes, mode: str, lazy: bool, iv_size, src_kind: str = "br"):
    mp4, _ = _lib()
    opts = mp4.Options(mode=mode, lazy_load=lazy)
    if iv_size is not None:
        opts.iv_size = iv_size
    return mp4.Mp4Atom.load(_source(src_kind, data), options=opts, use_wrapper=True)


def _exc_name(exc) -> str:
    t = type(exc)
    return t.__name__ if t.__module__ == "builtins" else f"{t.__module__}.{t.__name__}"


def _exc_box(exc) -> tuple[str, str]:
    """(label of the box class the exception came out of, 'file.py:func:line' of the innermost repo frame)."""
    mp4, _ = _lib()
    rev = {}
    for k, v in mp4.fourcc.BOXES.items():
        rev.setdefault(v, "uuid-piff" if k.startswith("UUID(") else k)
    label, where = None, "?"
    tb = exc.__traceback__
    frames = []
    while tb is not None:
        frames.append(tb.tb_frame)
        fn = tb.tb_frame.f_code.co_filename
        if "/dashlive/" in fn:
            where = f"{Path(fn).name}:{tb.tb_frame.f_code.co_name}:{tb.tb_lineno}"
        tb = tb.tb_next
    for fr in reversed(frames):
        if "/dashlive/" not in fr.f_code.co_filename:
            continue
        loc = fr.f_locals
        cand = []
        s = loc.get("self")
        if s is not None:
            cand.append(getattr(s, "_box_class", None) if isinstance(s, mp4.LazyLoadedBox) else type(s))
            if isinstance(s, mp4.Descriptor):
                return "esds", where
            if isinstance(s, mp4.TrackSample):
                return "trun", where
        for key in ("clz", "cls", "Box"):
            if isinstance(loc.get(key), type):
                cand.append(loc[key])
        for c in cand:
            if c is None:
                continue
            if isinstance(c, type) and issubclass(c, mp4.Descriptor):
                return "esds", where
            if c in rev:
                return rev[c], where
            if c is mp4.UnknownBox:
                label = label or "unknown"
            if c is mp4.Mp4Atom and fr.f_code.co_name == "parse":
                label = label or "header"
    return label or "file", where


def _fail_exc(out: Outcome, exc, phase: str, ctx: str):
    box, where = _exc_box(exc)
    if isinstance(exc, ParseBudgetExceeded):
        out.fail(f"{box}/parse-does-not-terminate", f"{ctx}: {exc} (last repository frame {where})")
        return
    out.fail(f"{box}/raises/{_exc_name(exc)}/in-{phase}", f"{ctx}: {exc!r} at {where}")


def _canon(js) -> str:
    return json.dumps(js, sort_keys=True, default=repr)


def _json_diff(a, b, path=""):
    """first differing path between two JSON-like values, or None."""
    if type(a) is not type(b):
        return path or "/"
    if isinstance(a, dict):
        for k in sorted(set(a) | set(b)):
            if k not in a or k not in b:
                return f"{path}/{k}"
            d = _json_diff(a[k], b[k], f"{path}/{k}")
            if d:
                return d
        return None
    if isinstance(a, list):
        if len(a) != len(b):
            return path + "/#len"
        for i, (x, y) in enumerate(zip(a, b)):
            d = _json_diff(x, y, f"{path}[{i}]")
            if d:
                return d
        return None
    return None if a == b or repr(a) == repr(b) else (path or "/")


def _atom_label(js, path: str) -> tuple[str, str]:
    """follow a _json_diff path down the toJSON tree: (label of the innermost atom, field name)."""
    cur = js
    label = "file"
    field = path.strip("/").split("/")[-1] if path else "?"
    import re
    for part in re.findall(r"[^/\[\]]+|\[\d+\]", path):
        if part.startswith("["):
            idx = int(part[1:-1])
            if isinstance(cur, list) and idx < len(cur):
                cur = cur[idx]
        elif isinstance(cur, dict) and part in cur:
            cur = cur[part]
        else:
            break
        if isinstance(cur, dict) and "atom_type" in cur:
            at = cur["atom_type"]
            label = "uuid-piff" if at.startswith("UUID(a2394f52") else ("uuid" if at.startswith("UUID(") else at)
    return label, re.sub(r"\[\d+\]", "", field)


def _touch_all(atom, mp4):
    """what callers do implicitly: reach every box through its parent's children (loads lazy boxes)."""
    n = 0
    kids = atom.children
    for idx in range(len(kids or [])):
        ch = atom.children[idx]
        if isinstance(ch, mp4.LazyLoadedBox):
            ch.lazy_load()
            ch = atom.children[idx]
        n += 1 + _touch_all(ch, mp4)
    return n


def _self_assign(atom, mp4):
    kids = atom.children
    for idx in range(len(kids or [])):
        ch = atom.children[idx]
        if isinstance(ch, mp4.LazyLoadedBox):
            ch = ch.lazy_load()
        for name in sorted(ch._fields):
            if name[0] == "_" or name in STRUCTURAL:
                continue
            setattr(ch, name, getattr(ch, name))
        _self_assign(ch, mp4)


def _encode_list(atoms) -> bytes:
    dest = io.BytesIO()
    for a in atoms:
        a.encode(dest)
    return dest.getvalue()


# --------------------------------------------------------------------------- the oracle of engines 1 and 2

def roundtrip_oracle(data: bytes, iv_size, src_kind: str, out: Outcome, infos=None, ctx: str = "",
                     heavy_json: bool = True) -> int:
    """All parse/encode passes over one well-formed byte string.  Returns the number of passes made."""
    from .. import isowrite
    mp4, _ = _lib()
    passes = 0
    found: dict[tuple[str, str], list] = {}

    def compare(tag, produced):
        if produced == data:
            return
        label, what, detail = isowrite.blame(data, produced, infos)
        found.setdefault((label, what), [[], detail])[0].append(tag)

    # (1) plain round trip in the four mode combinations
    for mode, lazy in MODES:
        tag = f"{mode}-{'lazy' if lazy else 'eager'}"
        passes += 1
        try:
            w = _load(data, mode, lazy, iv_size, src_kind)
        except Exception as exc:
            _fail_exc(out, exc, "parse", f"{ctx} load {tag}")
            continue
        try:
            compare(tag, w.encode())
        except Exception as exc:
            _fail_exc(out, exc, "encode", f"{ctx} encode {tag}")
    # (2) lazy tree, every box touched; eager tree; field dictionaries equal
    eager_js = lazy_js = None
    passes += 2
    try:
        we = _load(data, "r", False, iv_size, src_kind)
        eager_js = [a.toJSON() for a in we.children]
    except Exception as exc:
        _fail_exc(out, exc, "tojson", f"{ctx} eager toJSON")
    try:
        wl = _load(data, "r", True, iv_size, src_kind)
        _touch_all(wl, mp4)
        lazy_js = [a.toJSON() for a in wl.children]
        try:
            compare("r-lazy-touched", wl.encode())
        except Exception as exc:
            _fail_exc(out, exc, "encode", f"{ctx} encode r-lazy-touched")
    except Exception as exc:
        _fail_exc(out, exc, "tojson", f"{ctx} lazy touch/toJSON")
    if eager_js is not None and lazy_js is not None and _canon(eager_js) != _canon(lazy_js):
        p = _json_diff(eager_js, lazy_js) or "/"
        label, field = _atom_label(eager_js, p)
        out.fail(f"{label}/eager-vs-lazy/field-differs/{field}", f"{ctx} at {p}")
    # (3) rw tree as the server opens it, every public field assigned to its own value
    passes += 1
    try:
        wr = _load(data, "rw", True, iv_size, src_kind)
        _self_assign(wr, mp4)
        compare("rw-self-assigned", wr.encode())
    except Exception as exc:
        _fail_exc(out, exc, "encode", f"{ctx} rw self-assign")
    # (4) JSON form and back
    if eager_js is not None and heavy_json:
        passes += 1
        try:
            atoms = [mp4.Mp4Atom.fromJSON(copy.deepcopy(j)) for j in eager_js]
        except Exception as exc:
            _fail_exc(out, exc, "fromjson", f"{ctx} fromJSON")
            atoms = None
        if atoms is not None:
            try:
                produced = _encode_list(atoms)
                if produced != data:
                    label, what, detail = isowrite.blame(data, produced, infos)
                    out.fail(f"{label}/json-roundtrip/{what}", f"{ctx} {detail}")
            except Exception as exc:
                _fail_exc(out, exc, "json-encode", f"{ctx} encode of fromJSON tree")
    for (label, what), (tags, detail) in sorted(found.items()):
        plain = {f"{m}-{'lazy' if lz else 'eager'}" for m, lz in MODES}
        ts = set(tags)
        if plain <= ts:
            which = "roundtrip"
        elif ts & plain == {"r-eager", "rw-eager"}:
            which = "roundtrip-eager"
        elif ts & plain:
            which = "roundtrip-" + "+".join(sorted(ts & plain))
        else:
            which = "roundtrip-" + "+".join(sorted(ts))
        out.fail(f"{label}/{which}/{what}", f"{ctx} passes {sorted(ts)}: {detail}")
    return passes


def _dedupe(out: Outcome):
    seen = {}
    for s, d in out.violations:
        seen.setdefault(s, d)
    out.violations = list(seen.items())


# --------------------------------------------------------------------------- engine 1: fixtures

CONTEXT_FREE = {"ftyp", "styp", "mvhd", "tkhd", "mdhd", "hdlr", "mehd", "trex", "mfhd", "tfdt", "saiz", "tenc", "pssh",
                "sidx", "emsg", "schm", "frma", "btrt", "pasp", "mime", "vttC", "avcC", "hvcC", "esds", "dec3", "dac3",
                "stsd", "sinf", "schi", "mvex", "stbl", "minf", "mdia", "trak", "udta", "avc1", "avc3", "hev1", "hvc1",
                "encv", "mp4a", "enca", "ec-3", "ac-3", "stpp", "wvtt"}
_fx_cache: dict = {}


def _fixture_files():
    from .. import app
    return sorted(p for p in app.FIXTURES.rglob("*.mp4") if p.name != "senc.mp4")


def _fixture(rel: str):
    from .. import app, isobox, isowrite
    if rel not in _fx_cache:
        if len(_fx_cache) > 4:
            _fx_cache.clear()
        data = (app.FIXTURES / rel).read_bytes()
        tops = isowrite.walk(data)
        tenc = [b for b in isowrite.iter_boxes(tops) if b.type == b"tenc"]
        iv = isobox.tenc(tenc[0])["iv_size"] if tenc else None
        if iv is None and any(b.type == b"senc" for b in isowrite.iter_boxes(tops)):
            iv = 8
        init, frags = isobox.split_fragments(tops)
        groups = ([init] if init else []) + frags
        _fx_cache[rel] = (data, tops, iv, groups)
    return _fx_cache[rel]


def fixture_iv(rel: str):
    # the IV size the indexer records for the stream; fragments of an encrypted stream are opened with it
    return _fixture(rel)[2]


def stream_iv(rel: str):
    """IV size for a media file: its own tenc, else the tenc of a sibling init (enc fixtures carry their own)."""
    return fixture_iv(rel)


def check_fixture(case) -> Outcome:
    from .. import app, isobox, isowrite
    mp4, BufferedReader = _lib()
    out = Outcome()
    rel = case["file"]
    data, tops, iv, groups = _fixture(rel)
    part = case["part"]
    classes = set()
    if part == "whole":
        for b in isowrite.iter_boxes(tops):
            classes.add(isowrite.box_label(b))
        n = roundtrip_oracle(data, iv, case.get("src", "br"), out, None, f"{rel} whole file")
        out.weight = n * sum(1 for _ in isowrite.iter_boxes(tops))
    elif part == "group":
        g = groups[case["index"]]
        a, b = g[0].start, g[-1].end
        window = data[a:b]
        absolute = any(isobox.vf(x)[1] & 1 for t in g for x in ([t] + list(isowrite.iter_boxes(t.children))) if x.type == b"tfhd")
        for t in g:
            classes.add(isowrite.box_label(t))
            for x in isowrite.iter_boxes(t.children):
                classes.add(isowrite.box_label(x))
        if absolute and a != 0:
            out.trivial = "absolute-base-offset-in-window"
            return out
        # exactly the call pattern of media_requests.load_fragment / mediafile.modify_media_file
        passes = 0
        for lazy in (True, False):
            tag = f"rw-{'lazy' if lazy else 'eager'}-window"
            passes += 1
            try:
                with open(app.FIXTURES / rel, "rb") as f:
                    src = BufferedReader(f, offset=a, size=b - a, buffersize=16384)
                    opts = mp4.Options(mode="rw", lazy_load=lazy)
                    if iv is not None:
                        opts.iv_size = iv
                    w = mp4.Mp4Atom.load(src, options=opts, use_wrapper=True)
                    if case["index"] % 2:
                        _touch_all(w, mp4)
                    produced = w.encode()
            except Exception as exc:
                _fail_exc(out, exc, "parse", f"{rel} [{a},{b}) {tag}")
                continue
            if produced != window:
                label, what, detail = isowrite.blame(window, produced)
                out.fail(f"{label}/roundtrip-window/{what}", f"{rel} [{a},{b}) {tag}: {detail}")
        passes += roundtrip_oracle(window, iv, "io" if case["index"] % 2 else "br", out, None, f"{rel} [{a},{b})")
        out.weight = passes * sum(1 + sum(1 for _ in isowrite.iter_boxes(t.children)) for t in g)
    else:       # nested boxes of context-free classes, each parsed on its own
        k = 0
        for b in isowrite.iter_boxes(tops):
            lab = isowrite.box_label(b)
            if b.parent is None or lab not in CONTEXT_FREE:
                continue
            classes.add(lab)
            piece = b.raw
            k += roundtrip_oracle(piece, iv, "br" if k % 2 else "io", out, None, f"{rel} {lab}@{b.start} alone",
                                  heavy_json=True)
        out.weight = max(1, k)
        if k == 0:
            out.trivial = "no-nested-context-free-box"
    out.cls(*[f"class:{c}" for c in sorted(classes)], "part:" + part)
    modelled = {c for c in classes if c in mp4.fourcc.BOXES or c == "uuid-piff"}
    out.nontrivial = len(modelled) >= 2
    _dedupe(out)
    return out


class FixtureRoundtrip(Engine):
    name = "fixture_roundtrip"
    kind = "enumerate"
    exhaustive = True

    def cases(self, tier):
        from .. import app
        app.boot()
        for p in _fixture_files():
            rel = str(p.relative_to(app.FIXTURES))
            groups = _fixture(rel)[3]
            yield {"file": rel, "part": "whole", "src": "br"}
            yield {"file": rel, "part": "nested"}
            for i in range(len(groups)):
                yield {"file": rel, "part": "group", "index": i}

    def check(self, case):
        return check_fixture(case)


# --------------------------------------------------------------------------- engine 2: generated trees

_fixture_cvf: set | None = None


def fixture_cvf() -> set:
    """(class, version, flags) of every box in any fixture (version/flags None for plain boxes)."""
    global _fixture_cvf
    if _fixture_cvf is None:
        from .. import app, isobox, isowrite
        app.boot()
        s = set()
        for p in _fixture_files():
            data = p.read_bytes()
            for b in isowrite.iter_boxes(isowrite.walk(data)):
                lab = isowrite.box_label(b)
                if lab in isowrite.FULLBOXES or lab == "uuid-piff":
                    v, f = isobox.vf(b)
                    s.add((lab, v, f))
                else:
                    s.add((lab, None, None))
        _fixture_cvf = s
    return _fixture_cvf


def check_generated(case) -> Outcome:
    from .. import isowrite
    mp4, _ = _lib()
    out = Outcome()
    data, infos = isowrite.build_file(case["boxes"])
    _, sig, det = isowrite.check_structure(data)
    if sig:        # the writer produced something ill-formed: machinery problem, never a finding
        raise AssertionError(f"isowrite produced an ill-formed file: {sig}: {det}")
    n = roundtrip_oracle(data, case.get("iv_size"), case.get("src", "br"), out, infos, "generated")
    labels = set()
    new = False
    known = fixture_cvf()
    for i in infos:
        labels.add(i["label"])
        cvf = (i["label"], i["version"], i["flags"])
        out.note("covered", f"{i['label']} v{i['version']} f{i['flags']:#x}" if i["version"] is not None else i["label"])
        if cvf not in known:
            new = True
        if i["form"] != "32":
            out.cls("header:" + {"64": "largesize", "0": "size0"}[i["form"]])
        sp = i["spec"]
        if i["label"] == "moof":
            out.cls("layout:" + sp.get("_layout", "?"), "shape:" + sp.get("_shape", "?"))
    for c in sorted(labels):
        out.cls("class:" + c)
    out.cls("iv:" + str(case.get("iv_size")), "src:" + case.get("src", "br"))
    for name in sorted(mp4.fourcc.BOXES):
        if name not in isowrite.GENERATED_CLASSES:
            out.note("ungenerated_box_class", name)
    out.nontrivial = len(labels) >= 2 or new
    out.weight = n * len(infos)
    _dedupe(out)
    return out


class GeneratedBoxes(Engine):
    name = "generated_boxes"

    def budget(self, tier):
        return 2400 if tier == "quick" else 150_000

    def strategy(self, tier):
        from .. import app, isowrite
        app.boot()
        return isowrite.strategies(max_frags=2)

    def check(self, case):
        return check_generated(case)


ENGINES = [FixtureRoundtrip(), GeneratedBoxes()]
