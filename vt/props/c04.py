"""C04 - ISO-BMFF parse/encode round-trips byte-exactly (eager and lazy, JSON form, after edits).

Three engines under the one check:
  fixture_roundtrip  every fixture file: whole file, every media-segment window the way the server loads
                     it, and every nested box of a context-free class on its own
  generated_boxes    box trees written by the independent writer vt/isowrite.py from generated field values
  edit_sequences     explicit edit scripts (field assignments, insert/append/remove of boxes, lazy touches)
                     applied to fixture or generated trees; after every step the output is walked by the
                     independent strict parser
"""
from __future__ import annotations

import copy
import io
import json
import struct
from pathlib import Path

from ..runner import Engine, Outcome

PROPERTY = "C04"
RULE = ("fixture_roundtrip enumerates, for every tests/fixtures/**/*.mp4: the whole file, every init/media-segment "
        "window (loaded through the repository's windowed BufferedReader as load_fragment does, plus as a byte string) "
        "and the set of nested boxes of context-free classes, each parsed alone. generated_boxes: Hypothesis draws a "
        "file spec (init segment with 1-2 tracks of any modelled sample entry, clear or encrypted with 8/16-byte or "
        "constant IV; 0-2 fragments with any tfhd/trun flag combination, five base-offset layouts, multi-run and "
        "multi-track fragments, senc/saiz/saio/PIFF in any order; or a soup of file-level boxes), field values from "
        "boundary sets (0, 1, 2^k-1, 2^k-2, 2^(k-1), 2^(k-1)-1, 2^32+-1 for 64-bit fields) and uniform ranges; 1 in 25 "
        "boxes asks for a 64-bit largesize header and 1 in 12 files for a final size==0 box - those header forms are "
        "judged on variants of the tree so that the tree with ordinary headers always goes through the full oracle. "
        "The independent writer turns a spec into bytes. Per tree: load+encode in mode r/rw x lazy on/off, lazy tree "
        "touched everywhere then encoded, eager-vs-lazy toJSON equality, rw tree with every public field assigned to "
        "itself, fromJSON(toJSON()) encoded; a difference is attributed to the innermost box (and field) that differs; "
        "a rewritten position-dependent field in a fragment that moved because another box changed length is not "
        "reported on its own. edit_sequences: Hypothesis draws a base tree (fixture window or generated file that the "
        "library parses, encodes and re-parses without error) and 2-8 edit steps; the case is the explicit step list, "
        "steps whose target does not exist in the base are skipped. Non-trivial: fixture case with >= 2 modelled "
        "classes; generated tree with >= 2 distinct box classes or a (class, version, flags) absent from every fixture; "
        "edit case in which >= 1 step changed the encoded bytes. distinct = canonical JSON of the case; out.weight = "
        "boxes x passes (edit: steps performed).")
ASSUMPTIONS = [
    "vt/isowrite.py (struct only, written from ISO/IEC 14496-12/-15/-1/-30, 23001-7, 23009-1, ETSI TS 102 366, PIFF 1.1) "
    "is the reference for what a well-formed box is; reserved bits and fields are always written as the specifications require",
    "a senc/PIFF box is only generated with a saiz in the same traf and with the IV size available from Options(iv_size) "
    "and, when an init segment is part of the tree, from its tenc (the same value)",
    "layout-dependent fields are generated consistent with the layout: the first run of a fragment points at the first "
    "payload byte of the mdat that follows the moof, later runs continue where the previous one ended, saio points at the "
    "first IV of the senc box",
    "a tree is encoded as a whole (Wrapper.encode, or every top-level atom in turn into one stream) so that absolute "
    "positions stay what they were; single nested atoms are not encoded on their own",
    "tests/fixtures/senc.mp4 (a bare senc box without saiz, not a file) is excluded; a media-segment window whose tfhd "
    "carries an absolute base_data_offset is only checked as part of its whole file",
    "edit steps are those of media_requests.generate_media_segment/generate_init_segment, playready.update_traf_if_required, "
    "media_management.modify_atoms and tests/test_mp4.py, plus plain assignments of in-range values to public fields",
    "vt/shims stand in for flask_login, sqlalchemy_jsonfield, dotenv, netifaces (only needed to import dashlive)",
]
TIME_LIMIT = {"quick": 900, "thorough": 6 * 3600}

MODES = [("r", True), ("r", False), ("rw", True), ("rw", False)]
STRUCTURAL = {"position", "size", "atom_type", "parent", "options", "header_size", "children", "payload_start"}


# --------------------------------------------------------------------------- library access

def _lib():
    from .. import app
    app.boot()
    from dashlive.mpeg import mp4
    from dashlive.utils.buffered_reader import BufferedReader
    return mp4, BufferedReader


class ParseBudgetExceeded(Exception):
    """the parser made far more reads than the input has bytes: it is not going to terminate"""


_guarded: dict = {}


def _source(kind: str, data: bytes):
    """The two kinds of source real callers pass, each with a deterministic read budget (4 reads per input
    byte + 2000; a normal parse needs at most one read per byte) so that a parser that never terminates becomes
    a reported violation instead of an exhausted machine."""
    mp4, BufferedReader = _lib()
    if not _guarded:
        def guard(base):
            class Guarded(base):
                def read(self, *a):
                    self._vt_budget -= 1
                    if self._vt_budget < 0:
                        raise ParseBudgetExceeded(f"more than {4 * self._vt_len + 2000} reads on {self._vt_len} bytes of input")
                    return super().read(*a)
            Guarded.__name__ = base.__name__
            return Guarded
        _guarded["br"] = guard(BufferedReader)
        _guarded["io"] = guard(io.BufferedReader)
    src = _guarded["br"](None, data=data) if kind == "br" else _guarded["io"](io.BytesIO(data))
    src._vt_len = len(data)
    src._vt_budget = 4 * len(data) + 2000
    return src


def _load(data: bytes, mode: str, lazy: bool, iv_size, src_kind: str = "br"):
    mp4, _ = _lib()
    opts = mp4.Options(mode=mode, lazy_load=lazy)
    if iv_size is not None:
        opts.iv_size = iv_size
    return mp4.Mp4Atom.load(_source(src_kind, data), options=opts, use_wrapper=True)


def _exc_name(exc) -> str:
    t = type(exc)
    return t.__name__ if t.__module__ == "builtins" else f"{t.__module__}.{t.__name__}"


def _exc_box(exc) -> tuple[str, str]:
    """(label of the box class the exception came out of, 'file.py:func:line' of the innermost repo frame)."""
    mp4, _ = _lib()
    rev = {}
    for k, v in mp4.fourcc.BOXES.items():
        rev.setdefault(v, "uuid-piff" if k.startswith("UUID(") else k)
    label, where = None, "?"
    tb = exc.__traceback__
    frames = []
    while tb is not None:
        frames.append(tb.tb_frame)
        fn = tb.tb_frame.f_code.co_filename
        if "/dashlive/" in fn:
            where = f"{Path(fn).name}:{tb.tb_frame.f_code.co_name}:{tb.tb_lineno}"
        tb = tb.tb_next
    for fr in reversed(frames):
        if "/dashlive/" not in fr.f_code.co_filename:
            continue
        loc = fr.f_locals
        cand = []
        s = loc.get("self")
        if s is not None:
            cand.append(getattr(s, "_box_class", None) if isinstance(s, mp4.LazyLoadedBox) else type(s))
            if isinstance(s, mp4.Descriptor):
                return "esds", where
            if isinstance(s, mp4.TrackSample):
                return "trun", where
        for key in ("clz", "cls", "Box"):
            if isinstance(loc.get(key), type):
                cand.append(loc[key])
        for c in cand:
            if c is None:
                continue
            if isinstance(c, type) and issubclass(c, mp4.Descriptor):
                return "esds", where
            if c in rev:
                return rev[c], where
            if c is mp4.UnknownBox:
                label = label or "unknown"
            if c is mp4.Mp4Atom and fr.f_code.co_name == "parse":
                label = label or "header"
    return label or "file", where


def _phase(exc) -> str:
    """which stage of the library the exception came out of, by the innermost recognisable frame."""
    names = []
    tb = exc.__traceback__
    while tb is not None:
        if "/dashlive/" in tb.tb_frame.f_code.co_filename:
            names.append(tb.tb_frame.f_code.co_name)
        tb = tb.tb_next
    for n in reversed(names):
        if n in ("parse", "load", "lazy_load", "parse_payload", "parse_header"):
            return "parse"
        if n in ("encode", "encode_fields", "encode_box_fields", "post_encode", "post_encode_all", "output_box_fields"):
            return "encode"
        if n in ("fromJSON", "__init__", "_copy_args", "from_kwargs"):
            return "fromjson"
        if n in ("toJSON", "_to_json", "_convert_value_to_json"):
            return "tojson"
    return "call"


def _fail_exc(out: Outcome, exc, phase: str | None, ctx: str):
    box, where = _exc_box(exc)
    if isinstance(exc, ParseBudgetExceeded):
        out.fail(f"{box}/parse-does-not-terminate", f"{ctx}: {exc} (last repository frame {where})")
        return
    out.fail(f"{box}/raises/{_exc_name(exc)}/in-{phase or _phase(exc)}", f"{ctx}: {exc!r} at {where}")


def _canon(js) -> str:
    return json.dumps(js, sort_keys=True, default=repr)


def _json_diff(a, b, path=""):
    """first differing path between two JSON-like values, or None."""
    if type(a) is not type(b):
        return path or "/"
    if isinstance(a, dict):
        for k in sorted(set(a) | set(b)):
            if k not in a or k not in b:
                return f"{path}/{k}"
            d = _json_diff(a[k], b[k], f"{path}/{k}")
            if d:
                return d
        return None
    if isinstance(a, list):
        if len(a) != len(b):
            return path + "/#len"
        for i, (x, y) in enumerate(zip(a, b)):
            d = _json_diff(x, y, f"{path}[{i}]")
            if d:
                return d
        return None
    return None if a == b or repr(a) == repr(b) else (path or "/")


def _atom_label(js, path: str) -> tuple[str, str]:
    """follow a _json_diff path down the toJSON tree: (label of the innermost atom, field name)."""
    cur = js
    label = "file"
    field = path.strip("/").split("/")[-1] if path else "?"
    import re
    for part in re.findall(r"[^/\[\]]+|\[\d+\]", path):
        if part.startswith("["):
            idx = int(part[1:-1])
            if isinstance(cur, list) and idx < len(cur):
                cur = cur[idx]
        elif isinstance(cur, dict) and part in cur:
            cur = cur[part]
        else:
            break
        if isinstance(cur, dict) and "atom_type" in cur:
            at = cur["atom_type"]
            label = "uuid-piff" if at.startswith("UUID(a2394f52") else ("uuid" if at.startswith("UUID(") else at)
    return label, re.sub(r"\[\d+\]", "", field)


def _touch_all(atom, mp4):
    """what callers do implicitly: reach every box through its parent's children (loads lazy boxes)."""
    n = 0
    kids = atom.children
    for idx in range(len(kids or [])):
        ch = atom.children[idx]
        if isinstance(ch, mp4.LazyLoadedBox):
            ch.lazy_load()
            ch = atom.children[idx]
        n += 1 + _touch_all(ch, mp4)
    return n


def _self_assign(atom, mp4):
    kids = atom.children
    for idx in range(len(kids or [])):
        ch = atom.children[idx]
        if isinstance(ch, mp4.LazyLoadedBox):
            ch = ch.lazy_load()
        for name in sorted(ch._fields):
            if name[0] == "_" or name in STRUCTURAL:
                continue
            setattr(ch, name, getattr(ch, name))
        _self_assign(ch, mp4)


def _encode_list(atoms) -> bytes:
    dest = io.BytesIO()
    for a in atoms:
        a.encode(dest)
    return dest.getvalue()


# --------------------------------------------------------------------------- the oracle of engines 1 and 2

def roundtrip_oracle(data: bytes, iv_size, src_kind: str, out: Outcome, infos=None, ctx: str = "") -> int:
    """All parse/encode passes over one well-formed byte string.  Returns the number of passes made.

    Signatures:  <box>/roundtrip/<how it differs>            re-encoding from fields differs (any mode)
                 <box>/roundtrip-lazy-only/<how>             only trees with untouched lazy boxes differ
                 <box>/json-roundtrip/<how>                  only the fromJSON(toJSON()) tree differs
                 <box>/eager-vs-lazy/field-differs/<field>
                 <box>/raises/<Exception>/in-<parse|encode|tojson|fromjson|json-encode>
                 <box>/parse-does-not-terminate
    """
    from .. import isowrite
    mp4, _ = _lib()
    passes = 0
    found: dict[tuple[str, str], list] = {}

    raised: set = set()

    compared: set = set()

    def compare(tag, produced):
        compared.add(tag)
        if produced == data:
            return
        for label, what, detail in isowrite.blame(data, produced, infos):
            found.setdefault((label, what), [set(), detail])[0].add(tag)

    def failed(exc, phase, where):
        key = (_exc_box(exc)[0], _exc_name(exc))
        if phase == "json-encode" and key in raised:
            return          # the same box already raised the same exception when the parsed tree was encoded
        raised.add(key)
        _fail_exc(out, exc, phase, where)

    # (1) plain round trip in the four mode combinations
    for mode, lazy in MODES:
        tag = f"{mode}-{'lazy' if lazy else 'eager'}"
        passes += 1
        try:
            w = _load(data, mode, lazy, iv_size, src_kind)
        except Exception as exc:
            failed(exc, None, f"{ctx} load {tag}")
            if not lazy:
                return passes       # the eager parser rejects the input: every other pass fails the same way
            continue
        try:
            compare(tag, w.encode())
        except Exception as exc:
            failed(exc, None, f"{ctx} encode {tag}")
    # (2) eager tree and lazy tree with every box touched expose the same field values
    eager_js = lazy_js = None
    passes += 2
    try:
        we = _load(data, "r", False, iv_size, src_kind)
        eager_js = [a.toJSON() for a in we.children]
    except Exception as exc:
        failed(exc, None, f"{ctx} eager toJSON")
    try:
        wl = _load(data, "r", True, iv_size, src_kind)
        _touch_all(wl, mp4)
        lazy_js = [a.toJSON() for a in wl.children]
        compare("r-lazy-touched", wl.encode())
    except Exception as exc:
        failed(exc, None, f"{ctx} lazy tree touched/toJSON/encode")
    if eager_js is not None and lazy_js is not None and _canon(eager_js) != _canon(lazy_js):
        p = _json_diff(eager_js, lazy_js) or "/"
        label, field = _atom_label(eager_js, p)
        out.fail(f"{label}/eager-vs-lazy/field-differs/{field}", f"{ctx} at {p}")
    # (3) rw tree as the server opens it, every public field assigned to its own value
    passes += 1
    try:
        wr = _load(data, "rw", True, iv_size, src_kind)
        _self_assign(wr, mp4)
        compare("rw-self-assigned", wr.encode())
    except Exception as exc:
        failed(exc, None, f"{ctx} rw tree, fields assigned to themselves")
    # (4) JSON form and back
    json_found = None
    if eager_js is not None:
        passes += 1
        try:
            atoms = [mp4.Mp4Atom.fromJSON(copy.deepcopy(j)) for j in eager_js]
        except Exception as exc:
            failed(exc, "fromjson", f"{ctx} fromJSON")
            atoms = None
        if atoms is not None:
            try:
                produced = _encode_list(atoms)
                if produced != data:
                    json_found = isowrite.blame(data, produced, infos)
            except Exception as exc:
                failed(exc, "json-encode", f"{ctx} encode of the fromJSON tree")
    causes = [k for k in found if not k[1].startswith("consequence:")]
    for (label, what), (tags, detail) in sorted(found.items()):
        if what.startswith("consequence:"):
            if causes:
                continue        # explained by the length change reported under another signature
            what = what[len("consequence:"):]
        which = "roundtrip-lazy-only" if tags <= {"r-lazy", "rw-lazy"} else "roundtrip"
        out.fail(f"{label}/{which}/{what}", f"{ctx} passes {sorted(tags)}: {detail}")
    # a JSON-only difference can only be told from an encoder difference when the parsed tree itself was compared
    jf = (json_found or []) if "r-eager" in compared else []
    jcauses = [r for r in jf if not r[1].startswith("consequence:")]
    for label, what, detail in jf:
        if what.startswith("consequence:"):
            if jcauses:
                continue
            what = what[len("consequence:"):]
        if (label, what) not in found:
            out.fail(f"{label}/json-roundtrip/{what}", f"{ctx} {detail}")
    return passes


def size0_oracle(data: bytes, iv_size, src_kind: str, out: Outcome, plain_sigs: set = frozenset()) -> int:
    """data ends in a box whose size field is 0 ("extends to the end of the file", 14496-12 4.2).  As for the
    64-bit form, what the tree with ordinary headers already shows is not blamed on the header a second time."""
    n = 0
    for mode, lazy in MODES:
        tag = f"{mode}-{'lazy' if lazy else 'eager'}"
        n += 1
        try:
            produced = _load(data, mode, lazy, iv_size, src_kind).encode()
        except ParseBudgetExceeded as exc:
            out.fail("header/size0/parse-does-not-terminate", f"{tag}: {exc}; input ends {data[-24:].hex()}")
            break
        except Exception as exc:
            box, _where = _exc_box(exc)
            if any(p.startswith(f"{box}/raises/{_exc_name(exc)}/") for p in plain_sigs):
                continue
            # which exception it is depends on the bytes that get misread as a header: one name for all
            out.fail("header/size0/parse-raises", f"{tag}: {exc!r} at {_exc_box(exc)[1]}; input ends {data[-24:].hex()}")
            continue
        if produced != data and not plain_sigs:
            k = next((i for i in range(min(len(produced), len(data))) if produced[i] != data[i]), min(len(produced), len(data)))
            out.fail("header/size0/re-encoded-differently",
                     f"{tag}: {len(data)} bytes in, {len(produced)} out, first difference at {k}: "
                     f"in {data[max(0, k - 8):k + 24].hex()} out {produced[max(0, k - 8):k + 24].hex()}")
    return n


def _dedupe(out: Outcome):
    seen = {}
    for s, d in out.violations:
        seen.setdefault(s, d)
    out.violations = list(seen.items())


# --------------------------------------------------------------------------- engine 1: fixtures

CONTEXT_FREE = {"ftyp", "styp", "mvhd", "tkhd", "mdhd", "hdlr", "mehd", "trex", "mfhd", "tfdt", "saiz", "tenc", "pssh",
                "sidx", "emsg", "schm", "frma", "btrt", "pasp", "mime", "vttC", "avcC", "hvcC", "esds", "dec3", "dac3",
                "stsd", "sinf", "schi", "mvex", "stbl", "minf", "mdia", "trak", "udta", "avc1", "avc3", "hev1", "hvc1",
                "encv", "mp4a", "enca", "ec-3", "ac-3", "stpp", "wvtt"}
_fx_cache: dict = {}


def _fixture_files():
    from .. import app
    return sorted(p for p in app.FIXTURES.rglob("*.mp4") if p.name != "senc.mp4")


def _fixture(rel: str):
    from .. import app, isobox, isowrite
    if rel not in _fx_cache:
        if len(_fx_cache) > 4:
            _fx_cache.clear()
        data = (app.FIXTURES / rel).read_bytes()
        tops = isowrite.walk(data)
        tenc = [b for b in isowrite.iter_boxes(tops) if b.type == b"tenc"]
        iv = isobox.tenc(tenc[0])["iv_size"] if tenc else None
        if iv is None and any(b.type == b"senc" for b in isowrite.iter_boxes(tops)):
            iv = 8
        init, frags = isobox.split_fragments(tops)
        groups = ([init] if init else []) + frags
        _fx_cache[rel] = (data, tops, iv, groups)
    return _fx_cache[rel]


def check_fixture(case) -> Outcome:
    from .. import app, isobox, isowrite
    mp4, BufferedReader = _lib()
    out = Outcome()
    rel = case["file"]
    data, tops, iv, groups = _fixture(rel)
    part = case["part"]
    classes = set()
    if part == "whole":
        for b in isowrite.iter_boxes(tops):
            classes.add(isowrite.box_label(b))
        n = roundtrip_oracle(data, iv, case.get("src", "br"), out, None, f"{rel} whole file")
        out.weight = n * sum(1 for _ in isowrite.iter_boxes(tops))
    elif part == "group":
        g = groups[case["index"]]
        a, b = g[0].start, g[-1].end
        window = data[a:b]
        absolute = any(isobox.vf(x)[1] & 1 for t in g for x in ([t] + list(isowrite.iter_boxes(t.children))) if x.type == b"tfhd")
        for t in g:
            classes.add(isowrite.box_label(t))
            for x in isowrite.iter_boxes(t.children):
                classes.add(isowrite.box_label(x))
        if absolute and a != 0:
            out.trivial = "absolute-base-offset-in-window"
            return out
        # exactly the call pattern of media_requests.load_fragment / mediafile.modify_media_file
        passes = 0
        for lazy in (True, False):
            tag = f"rw-{'lazy' if lazy else 'eager'}-window"
            passes += 1
            try:
                with open(app.FIXTURES / rel, "rb") as f:
                    src = BufferedReader(f, offset=a, size=b - a, buffersize=16384)
                    opts = mp4.Options(mode="rw", lazy_load=lazy)
                    if iv is not None:
                        opts.iv_size = iv
                    w = mp4.Mp4Atom.load(src, options=opts, use_wrapper=True)
                    if case["index"] % 2:
                        _touch_all(w, mp4)
                    produced = w.encode()
            except Exception as exc:
                _fail_exc(out, exc, "parse", f"{rel} [{a},{b}) {tag}")
                continue
            if produced != window:
                for label, what, detail in isowrite.blame(window, produced):
                    out.fail(f"{label}/roundtrip-window/{what.replace('consequence:', '')}", f"{rel} [{a},{b}) {tag}: {detail}")
        passes += roundtrip_oracle(window, iv, "io" if case["index"] % 2 else "br", out, None, f"{rel} [{a},{b})")
        out.weight = passes * sum(1 + sum(1 for _ in isowrite.iter_boxes(t.children)) for t in g)
    else:       # nested boxes of context-free classes, each parsed on its own
        k = 0
        for b in isowrite.iter_boxes(tops):
            lab = isowrite.box_label(b)
            if b.parent is None or lab not in CONTEXT_FREE:
                continue
            classes.add(lab)
            piece = b.raw
            k += roundtrip_oracle(piece, iv, "br" if k % 2 else "io", out, None, f"{rel} {lab}@{b.start} alone")
        out.weight = max(1, k)
        if k == 0:
            out.trivial = "no-nested-context-free-box"
    out.cls(*[f"class:{c}" for c in sorted(classes)], "part:" + part)
    modelled = {c for c in classes if c in mp4.fourcc.BOXES or c == "uuid-piff"}
    out.nontrivial = len(modelled) >= 2
    _dedupe(out)
    return out


class FixtureRoundtrip(Engine):
    name = "fixture_roundtrip"
    kind = "enumerate"
    exhaustive = True

    def cases(self, tier):
        from .. import app
        app.boot()
        for p in _fixture_files():
            rel = str(p.relative_to(app.FIXTURES))
            groups = _fixture(rel)[3]
            yield {"file": rel, "part": "whole", "src": "br"}
            yield {"file": rel, "part": "nested"}
            for i in range(len(groups)):
                yield {"file": rel, "part": "group", "index": i}

    def check(self, case):
        return check_fixture(case)


# --------------------------------------------------------------------------- engine 2: generated trees

_fixture_cvf: set | None = None


def fixture_cvf() -> set:
    """(class, version, flags) of every box in any fixture (version/flags None for plain boxes)."""
    global _fixture_cvf
    if _fixture_cvf is None:
        from .. import app, isobox, isowrite
        app.boot()
        s = set()
        for p in _fixture_files():
            data = p.read_bytes()
            for b in isowrite.iter_boxes(isowrite.walk(data)):
                lab = isowrite.box_label(b)
                if lab in isowrite.FULLBOXES or lab == "uuid-piff":
                    v, f = isobox.vf(b)
                    s.add((lab, v, f))
                else:
                    s.add((lab, None, None))
        _fixture_cvf = s
    return _fixture_cvf


def _with_forms(boxes, keep: set):
    """copy of the spec list in which only the header forms in `keep` survive ("64", "0")."""
    out = []
    for b in boxes:
        c = {k: v for k, v in b.items() if k != "hdr" or v in keep}
        if "c" in c:
            c["c"] = _with_forms(c["c"], keep)
        out.append(c)
    return out


def _has_form(boxes, form) -> bool:
    return any(b.get("hdr") == form or _has_form(b.get("c", []), form) for b in boxes)


def largesize_oracle(data: bytes, iv_size, src_kind: str, out: Outcome, plain_sigs: set) -> int:
    """The same tree as the plain variant, some boxes written with size==1 and a 64-bit largesize.  Header forms
    are judged on their own: what the plain variant already shows is not repeated, and whatever else goes wrong
    only in this variant is a consequence of the header handling and carries its name."""
    from .. import isowrite
    n = 0
    for mode, lazy in MODES:
        tag = f"{mode}-{'lazy' if lazy else 'eager'}"
        n += 1
        try:
            w = _load(data, mode, lazy, iv_size, src_kind)
        except Exception as exc:
            box, where = _exc_box(exc)
            if f"{box}/raises/{_exc_name(exc)}/in-{_phase(exc)}" not in plain_sigs:
                out.fail("header/largesize/parse-raises", f"{tag}: {exc!r} at {where} (the same tree with 32-bit sizes parses)")
            continue
        try:
            produced = w.encode()
        except Exception as exc:
            box, where = _exc_box(exc)
            if f"{box}/raises/{_exc_name(exc)}/in-{_phase(exc)}" not in plain_sigs:
                out.fail("header/largesize/encode-raises", f"{tag}: {exc!r} at {where} (the same tree with 32-bit sizes encodes)")
            continue
        if produced != data:
            for label, what, detail in isowrite.blame(data, produced):
                if label == "header":
                    out.fail(f"header/{what.replace('size32', '32bit')}", f"{tag}: {detail}; {len(data)} bytes in, {len(produced)} out")
    return n


def check_generated(case) -> Outcome:
    from .. import isowrite
    mp4, _ = _lib()
    out = Outcome()
    iv, src = case.get("iv_size"), case.get("src", "br")
    # header forms are an orthogonal dimension: the tree with ordinary 32-bit sizes goes through the full oracle,
    # the 64-bit and the size==0 variants through their own
    plain = _with_forms(case["boxes"], set())
    data, infos = isowrite.build_file(plain)
    _, sig, det = isowrite.check_structure(data)
    if sig:        # the writer produced something ill-formed: machinery problem, never a finding
        raise AssertionError(f"isowrite produced an ill-formed file: {sig}: {det}")
    n = roundtrip_oracle(data, iv, src, out, infos, "generated")
    plain_sigs = {s for s, _ in out.violations}
    if _has_form(case["boxes"], "64"):
        d64, infos = isowrite.build_file(_with_forms(case["boxes"], {"64"}))
        n += largesize_oracle(d64, iv, src, out, plain_sigs)
    if case["boxes"][-1].get("hdr") == "0":
        d0, _ = isowrite.build_file(_with_forms(case["boxes"], {"0"}))
        n += size0_oracle(d0, iv, src, out, plain_sigs)
    labels = set()
    new = False
    known = fixture_cvf()
    for i in infos:
        labels.add(i["label"])
        cvf = (i["label"], i["version"], i["flags"])
        tup = f"{i['label']} v{i['version']} f{i['flags']:#x}" if i["version"] is not None else i["label"]
        out.note("covered", tup)
        out.cls("cvf:" + tup)       # evidence keeps every class but only the 60 most frequent notes
        if cvf not in known:
            new = True
        if i["form"] != "32":
            out.cls("header:largesize")
        sp = i["spec"]
        if i["label"] == "moof":
            out.cls("layout:" + sp.get("_layout", "?"), "shape:" + sp.get("_shape", "?"))
    if case["boxes"][-1].get("hdr") == "0":
        out.cls("header:size0")
    for c in sorted(labels):
        out.cls("class:" + c)
    out.cls("iv:" + str(iv), "src:" + src)
    for name in sorted(mp4.fourcc.BOXES):
        if name not in isowrite.GENERATED_CLASSES:
            out.note("ungenerated_box_class", name)
    out.nontrivial = len(labels) >= 2 or new
    out.weight = n * len(infos)
    _dedupe(out)
    return out


class GeneratedBoxes(Engine):
    name = "generated_boxes"

    def budget(self, tier):
        return 4000 if tier == "quick" else 160_000

    def strategy(self, tier):
        from .. import app, isowrite
        app.boot()
        return isowrite.strategies(max_frags=2)

    def check(self, case):
        return check_generated(case)


# --------------------------------------------------------------------------- engine 3: edit sequences

def _rd_mehd(b):
    from .. import isobox
    v, _ = isobox.vf(b)
    return struct.unpack_from(">Q" if v == 1 else ">I", b.data, b.start + b.hdr + 4)[0]


def _rd_lang(b):
    from .. import isobox
    v, _ = isobox.vf(b)
    x = struct.unpack_from(">H", b.data, b.start + b.hdr + 4 + (28 if v == 1 else 16))[0]
    return "".join(chr(0x60 + ((x >> s) & 0x1F)) for s in (10, 5, 0))


def _readers():
    """independent field readers: (box fourcc, library field name) -> function(isobox.Box) -> value"""
    from .. import isobox
    R = {
        ("tfdt", "base_media_decode_time"): lambda b: isobox.tfdt_time(b)[1],
        ("mfhd", "sequence_number"): isobox.mfhd_seq,
        ("tkhd", "track_id"): isobox.tkhd_track_id,
        ("trex", "track_id"): lambda b: isobox.trex(b)["track_id"],
        ("mehd", "fragment_duration"): _rd_mehd,
        ("mdhd", "language"): _rd_lang,
        ("mvhd", "next_track_id"): lambda b: struct.unpack_from(">I", b.data, b.end - 4)[0],
        ("emsg", "event_id"): lambda b: isobox.emsg(b)["id"],
    }
    for f in ("track_id", "sample_description_index", "default_sample_duration", "default_sample_size", "default_sample_flags"):
        R[("tfhd", f)] = (lambda name: lambda b: isobox.tfhd(b).get(name))(f)
    for f in ("timescale", "duration"):
        R[("mdhd", f)] = (lambda name: lambda b: isobox.mdhd(b)[name])(f)
        R[("mvhd", f)] = (lambda name: lambda b: isobox.mvhd(b)[name])(f)
    for f in ("timescale", "event_duration", "value", "presentation_time", "presentation_time_delta", "scheme_id_uri"):
        R[("emsg", f)] = (lambda name: lambda b: isobox.emsg(b).get(name))(f)
    R[("sidx", "timescale")] = lambda b: isobox.sidx(b)["timescale"]
    R[("sidx", "earliest_presentation_time")] = lambda b: isobox.sidx(b)["ept"]
    R[("sidx", "reference_id")] = lambda b: isobox.sidx(b)["reference_id"]
    return R


TFHD_FLAG = {"sample_description_index": 0x2, "default_sample_duration": 0x8, "default_sample_size": 0x10,
             "default_sample_flags": 0x20}


def _resolve(wrap, path):
    cur = wrap
    for name in path:
        cur = getattr(cur, name.replace("-", "_"))
    return cur


def _find(boxes, path):
    """first box along a path of fourccs in the independent tree"""
    cur = None
    level = boxes
    for name in path:
        cur = next((b for b in level if b.type == name.encode("latin1")), None)
        if cur is None:
            return None
        level = cur.children
    return cur


def _count(boxes, fourcc: bytes, usertype: bytes | None = None) -> int:
    from .. import isowrite
    return sum(1 for b in isowrite.iter_boxes(boxes) if b.type == fourcc and (usertype is None or b.usertype == usertype))


class _Skip(Exception):
    pass


def _apply_step(mp4, wrap, step, model, note):
    """Performs one edit the way its real caller does.  Raises _Skip when the tree does not have what the step
    needs (a precondition, not a finding).  Returns a description of what must be observable afterwards."""
    op = step["op"]
    expect = {"op": op}
    if op == "touch":
        try:
            _resolve(wrap, step["path"])
        except AttributeError:
            raise _Skip()
        return expect
    if op == "set":
        try:
            box = _resolve(wrap, step["path"])
        except AttributeError:
            raise _Skip()
        field, value = step["field"], step["value"]
        if field not in box._fields:
            raise _Skip()
        if box.atom_type == "tfhd" and field in TFHD_FLAG and not box.flags & TFHD_FLAG[field]:
            raise _Skip()
        if box.atom_type == "emsg" and field in ("presentation_time", "presentation_time_delta") and \
                (field == "presentation_time") != (box.version == 1):
            raise _Skip()
        wide = box.atom_type in ("tfdt", "mvhd") and field in ("base_media_decode_time", "duration")
        if isinstance(value, int) and value >= 2**32 and not wide and getattr(box, "version", 0) != 1:
            raise _Skip()       # not a legal value for the 32-bit form of the field
        if isinstance(value, int) and value >= 2**32 and field in ("timescale", "track_id", "sequence_number", "next_track_id",
                                                                   "event_duration", "event_id", "reference_id"):
            raise _Skip()
        setattr(box, field, value)
        model[(tuple(step["path"]), field)] = value
        expect["target"] = f"{box.atom_type}.{field}"
        return expect
    if op == "set_sample":
        try:
            trun = _resolve(wrap, step["path"])
        except AttributeError:
            raise _Skip()
        if not trun.flags & 0x100 or not trun.samples:
            raise _Skip()
        i = step["index"] % len(trun.samples)
        trun.samples[i].duration = step["value"]
        model[(tuple(step["path"]), ("sample_duration", i))] = step["value"]
        expect["target"] = "trun.samples.duration"
        return expect
    if op == "set_none":
        try:
            box = _resolve(wrap, step["path"])
        except AttributeError:
            raise _Skip()
        setattr(box, step["field"], None)
        expect["target"] = f"{box.atom_type}.{step['field']}=None"
        return expect
    if op == "or_flags":
        try:
            box = _resolve(wrap, step["path"])
        except AttributeError:
            raise _Skip()
        box.flags |= step["mask"]
        expect["target"] = f"{box.atom_type}.flags"
        return expect
    if op == "insert_tfdt":
        try:
            traf = _resolve(wrap, ["moof", "traf"])
        except AttributeError:
            raise _Skip()
        if traf.find_child("tfdt") is not None or traf.find_child("trun") is None:
            raise _Skip()       # the server does this to a fragment it is about to serve: it has a trun
        tfdt = mp4.TrackFragmentDecodeTimeBox(version=0, flags=0, base_media_decode_time=step["value"])
        traf.insert_child(traf.index("tfhd") + 1, tfdt)
        traf.trun.flags |= mp4.TrackFragmentRunBox.data_offset_present
        model[(("moof", "traf", "tfdt"), "base_media_decode_time")] = step["value"]
        expect.update(target="traf+tfdt", added=(b"tfdt", None))
        return expect
    if op in ("append_pssh", "insert_pssh"):
        try:
            parent = _resolve(wrap, [step["where"]])
        except AttributeError:
            raise _Skip()
        kids = [bytes.fromhex(k) for k in step["kids"]]
        data = None if step["data"] is None else bytes.fromhex(step["data"])
        pssh = mp4.ContentProtectionSpecificBox(version=step["version"], flags=0, system_id=bytes.fromhex(step["system_id"]),
                                                key_ids=kids if step["version"] else [], data=data)
        if op == "append_pssh":
            parent.append_child(pssh)
        else:
            parent.insert_child(0, pssh)
        expect.update(target=f"{step['where']}+pssh", added=(b"pssh", None),
                      pssh={"version": step["version"], "system_id": bytes.fromhex(step["system_id"]),
                            "kids": kids if step["version"] else [], "data": data or b"", "where": step["where"],
                            "last": op == "append_pssh"})
        return expect
    if op == "insert_emsg":
        try:
            idx = wrap.index("moof")
        except ValueError:
            raise _Skip()
        kw = {"version": step["version"], "flags": 0, "scheme_id_uri": step["scheme_id_uri"], "timescale": step["timescale"],
              "event_duration": step["event_duration"], "event_id": step["event_id"], "value": step["value"],
              "data": bytes.fromhex(step["data"])}
        kw["presentation_time" if step["version"] else "presentation_time_delta"] = step["time"]
        wrap.children.insert(idx, mp4.EventMessageBox(**kw))        # exactly what generate_media_segment does
        # paths of the model are by first match: an emsg set earlier is now the second one
        for k in [k for k in model if k[0] == ("emsg",)]:
            del model[k]
        expect.update(target="file+emsg", added=(b"emsg", None), emsg=dict(kw, index=idx))
        return expect
    if op == "insert_piff":
        try:
            traf = _resolve(wrap, ["moof", "traf"])
        except AttributeError:
            raise _Skip()
        senc = traf.find_child("senc")
        if senc is None or traf.find_child("saiz") is None:
            raise _Skip()
        pos = traf.index("saiz")
        piff = mp4.PiffSampleEncryptionBox.clone_from_senc(senc)
        traf.insert_child(pos, piff)
        traf.trun._invalidate()
        expect.update(target="traf+piff", added=(b"uuid", bytes.fromhex("a2394f525a9b4f14a2446c427c648df4")), piff=True)
        return expect
    if op == "del":
        try:
            parent = _resolve(wrap, step["path"])
        except AttributeError:
            raise _Skip()
        name = step["name"]
        if parent.find_atom(name, check_parent=False, no_exception=True) in (None, parent):
            raise _Skip()
        delattr(parent, name.replace("-", "_"))
        gone = tuple(step["path"]) + (name,)
        for k in [k for k in model if k[0][:len(gone)] == gone]:
            del model[k]
        expect.update(target=f"-{name}", removed=name.encode("latin1"))
        return expect
    if op == "move_senc_before_saiz":
        try:
            traf = _resolve(wrap, ["moof", "traf"])
        except AttributeError:
            raise _Skip()
        if traf.find_child("senc") is None or traf.find_child("saiz") is None:
            raise _Skip()
        pos = traf.index("senc")
        senc = traf.children[pos]
        traf.remove_child(pos)
        traf.insert_child(traf.index("saiz"), senc)
        expect.update(target="traf:senc<->saiz")
        return expect
    raise AssertionError(f"unknown op {op}")


def _edit_base(case):
    """(bytes of the base tree, iv_size) or None when the base is not usable."""
    from .. import isowrite
    base = case["base"]
    if base["kind"] == "fixture":
        data, tops, iv, groups = _fixture(base["file"])
        g = groups[base["group"]]
        return data[g[0].start:g[-1].end], iv
    data, _ = isowrite.build_file(_with_forms(base["boxes"], set()))
    return data, base.get("iv_size")


def check_edits(case) -> Outcome:
    from .. import isobox, isowrite
    mp4, _ = _lib()
    out = Outcome()
    data, iv = _edit_base(case)
    lazy = case["lazy"]
    out.cls("base:" + case["base"]["kind"], "lazy" if lazy else "eager")
    try:
        # the base must be a tree the library handles on its own (parse everything, encode, parse the result):
        # whatever fails here is a finding of the round-trip engines, not of an edit
        probe = _load(data, "r", False, iv, "br").encode()
        isowrite.walk(probe)
        _load(probe, "r", False, iv, "br")
        wrap = _load(data, "rw", lazy, iv, case.get("src", "br"))
        prev = wrap.encode()
    except Exception:
        out.trivial = "base-does-not-roundtrip"
        return out
    try:
        isowrite.walk(prev)
    except isowrite.BoxError:
        out.trivial = "base-does-not-reencode"
        return out
    readers = _readers()
    model: dict = {}
    changed = 0
    done = 0
    for si, step in enumerate(case["steps"]):
        op = step["op"]
        before = isowrite.walk(prev)
        try:
            expect = _apply_step(mp4, wrap, step, model, out.note)
        except _Skip:
            out.cls("skipped:" + op)
            continue
        except Exception as exc:
            out.fail(f"edit/{_exc_box(exc)[0]}/{op}-raises/{_exc_name(exc)}", f"step {si} {step}: {exc!r} at {_exc_box(exc)[1]}")
            break
        done += 1
        out.cls("op:" + op)
        target = expect.get("target", op)
        # the callers' protocol (media_requests.generate_media_segment, tests/test_mp4.py): a fragment whose tfhd
        # carries an absolute base_data_offset gets it reset to None before it is encoded after a modification,
        # because the library cannot know how far the fragment moved.  An edit that leaves a stale absolute base
        # behind is not a supported edit (first version of this engine reported saio/trun encode errors for it).
        if not (step.get("field") == "base_data_offset" and op == "set"):
            for top in wrap.children:
                if top.atom_type != "moof":
                    continue
                for traf in top.children:
                    if traf.atom_type != "traf":
                        continue
                    tfhd = traf.find_child("tfhd")
                    # (without the flag the attribute holds the position the moof had when it was parsed, which is
                    # just as stale; generate_media_segment resets it for every fragment it serves)
                    if tfhd is not None and tfhd.base_data_offset is not None:
                        tfhd.base_data_offset = None
                        out.cls("base-reset-by-protocol")
        try:
            cur = wrap.encode()
        except Exception as exc:
            # named after the box whose encoder gave up: the same stale state is reached through many different steps
            out.fail(f"edit/{_exc_box(exc)[0]}/encode-raises/{_exc_name(exc)}",
                     f"step {si} {step} ({target}): {exc!r} at {_exc_box(exc)[1]}")
            break
        if cur != prev:
            changed += 1
        boxes, sig, det = isowrite.check_structure(cur)
        if sig:
            # named after what is wrong with the output, not after the step: a box that encodes wrongly shows after any step
            out.fail(f"edit/{sig}", f"step {si} {step} ({target}): {det}")
            break
        # what the step added or removed is there / gone, everything else keeps its count
        if "added" in expect:
            t, ut = expect["added"]
            if _count(boxes, t, ut) != _count(before, t, ut) + 1:
                out.fail(f"edit/{op}/box-not-added", f"step {si} {step}: {_count(before, t, ut)} -> {_count(boxes, t, ut)}")
        if "removed" in expect:
            t = expect["removed"]
            if _count(boxes, t) >= _count(before, t):
                out.fail(f"edit/{op}/box-not-removed", f"step {si} {step}")
        if op == "insert_tfdt":
            kinds = [isowrite.box_label(c) for c in _find(boxes, ["moof", "traf"]).children]
            if kinds[kinds.index("tfhd") + 1:][:1] != ["tfdt"]:
                out.fail("edit/insert_tfdt/box-at-wrong-position", f"step {si}: {kinds}")
        if "pssh" in expect:
            e = expect["pssh"]
            parent = _find(boxes, [e["where"]])
            cands = [b for b in parent.children if b.type == b"pssh"]
            at = parent.children[-1] if e["last"] else parent.children[0]
            if at.type != b"pssh":
                out.fail(f"edit/{op}/box-at-wrong-position", f"step {si}: {[isowrite.box_label(c) for c in parent.children]}")
            got = isobox.pssh(cands[-1] if e["last"] else cands[0]) if cands else None
            want = {"version": e["version"], "system_id": e["system_id"], "kids": e["kids"], "data": e["data"]}
            if got != want:
                out.fail(f"edit/{op}/pssh-written-values-differ", f"step {si}: want {want} got {got}")
        if "emsg" in expect:
            e = expect["emsg"]
            b = boxes[e["index"]] if e["index"] < len(boxes) else None
            got = isobox.emsg(b) if b is not None and b.type == b"emsg" else None
            want = {"version": e["version"], "scheme_id_uri": e["scheme_id_uri"], "value": e["value"], "timescale": e["timescale"],
                    "event_duration": e["event_duration"], "id": e["event_id"], "message_data": e["data"]}
            want["presentation_time" if e["version"] else "presentation_time_delta"] = e.get("presentation_time", e.get("presentation_time_delta"))
            if got != want:
                out.fail(f"edit/{op}/emsg-written-values-differ", f"step {si}: want {want} got {got}")
        if expect.get("piff"):
            traf = _find(boxes, ["moof", "traf"])
            kinds = [isowrite.box_label(c) for c in traf.children]
            senc_b = next(c for c in traf.children if c.type == b"senc")
            first_saiz = kinds.index("saiz")
            if first_saiz == 0 or kinds[first_saiz - 1] != "uuid-piff":
                out.fail("edit/insert_piff/box-at-wrong-position", f"step {si}: {kinds}")
            elif senc_b.payload != traf.children[first_saiz - 1].payload:     # the clone sits right before the saiz
                out.fail("edit/insert_piff/body-differs-from-senc", f"step {si}: {kinds}")
        # every value assigned so far (and not overwritten or deleted) is what an independent reader finds
        for (path, field), value in sorted(model.items(), key=repr):
            b = _find(boxes, path)
            name = path[-1]
            if b is None:
                out.fail(f"edit/{op}/box-with-assigned-field-vanished/{name}", f"step {si}: {path}")
                continue
            try:
                if isinstance(field, tuple):
                    got = isobox.trun(b)["samples"][field[1]].get("duration")
                    fname = "samples.duration"
                else:
                    rd = readers.get((name, field))
                    if rd is None:
                        continue
                    got = rd(b)
                    fname = field
            except Exception as exc:
                out.fail(f"edit/{op}/{name}-unreadable-afterwards", f"step {si}: {exc!r}")
                continue
            if got != value:
                out.fail(f"{name}/edit-assigned-value-lost/{fname}", f"step {si} ({op} {target}): {path}.{field} assigned {value!r}, "
                         f"independent reader finds {got!r} ({'lazy' if lazy else 'eager'} rw tree)")
        # the library's own parser agrees on the assigned values
        try:
            again = _load(cur, "r", False, iv, "br")
            for (path, field), value in sorted(model.items(), key=repr):
                try:
                    box = _resolve(again, list(path))
                except AttributeError:
                    continue
                got = box.samples[field[1]].duration if isinstance(field, tuple) else getattr(box, field)
                if got != value:
                    out.fail(f"{path[-1]}/edit-assigned-value-not-reparsed/{field if isinstance(field, str) else 'samples.duration'}",
                             f"step {si} ({op} {target}): assigned {value!r}, library re-parse gives {got!r}")
        except Exception as exc:
            out.fail(f"edit/{_exc_box(exc)[0]}/output-does-not-reparse/{_exc_name(exc)}", f"step {si} {step} ({target}): {exc!r} at {_exc_box(exc)[1]}")
        prev = cur
        if out.violations:
            break
    out.weight = max(1, done)
    out.nontrivial = changed >= 1
    if done == 0:
        out.trivial = "no-applicable-step"
    _dedupe(out)
    return out


def _edit_strategy():
    from hypothesis import strategies as st
    from .. import app, isowrite
    app.boot()
    frag_bases, init_bases = [], []
    for p in _fixture_files():
        rel = str(p.relative_to(app.FIXTURES))
        groups = _fixture(rel)[3]
        for i, g in enumerate(groups):
            kinds = {b.type for b in g}
            if b"moof" in kinds:
                frag_bases.append({"kind": "fixture", "file": rel, "group": i})
            elif b"moov" in kinds:
                init_bases.append({"kind": "fixture", "file": rel, "group": i})
    gen = isowrite.strategies(max_frags=1).map(lambda c: {"kind": "gen", "boxes": c["boxes"], "iv_size": c["iv_size"]})

    def u(bits):
        top = (1 << bits) - 1
        return st.one_of(st.sampled_from([0, 1, top, top - 1, 1 << (bits - 1)] + ([1 << 32, (1 << 32) + 5, (1 << 34) + 7] if bits > 32 else [])),
                         st.integers(0, top), st.integers(0, 100000))

    hex16 = st.binary(min_size=16, max_size=16).map(bytes.hex)
    ascii_s = st.text(alphabet="abcdefghijklmnopqrstuvwxyz0123456789:/._-", max_size=20)
    T = ["moof", "traf"]

    def setf(path, field, values):
        return st.fixed_dictionaries({"op": st.just("set"), "path": st.just(path), "field": st.just(field), "value": values})

    frag_steps = st.one_of(
        setf(T + ["tfdt"], "base_media_decode_time", u(64)), setf(T + ["tfdt"], "base_media_decode_time", u(64)),
        setf(["moof", "mfhd"], "sequence_number", u(32)),
        setf(T + ["tfhd"], "track_id", u(32)), setf(T + ["tfhd"], "default_sample_duration", u(32)),
        setf(T + ["tfhd"], "default_sample_size", u(32)), setf(T + ["tfhd"], "default_sample_flags", u(32)),
        setf(T + ["tfhd"], "sample_description_index", u(32)),
        st.fixed_dictionaries({"op": st.just("set_sample"), "path": st.just(T + ["trun"]), "index": st.integers(0, 200), "value": u(32)}),
        st.just({"op": "set_none", "path": T + ["tfhd"], "field": "base_data_offset"}),
        st.just({"op": "set_none", "path": T + ["saio"], "field": "offsets"}),
        st.just({"op": "or_flags", "path": T + ["trun"], "mask": 1}),
        st.fixed_dictionaries({"op": st.just("insert_tfdt"), "value": u(32)}),
        st.just({"op": "insert_piff"}), st.just({"op": "move_senc_before_saiz"}),
        st.just({"op": "del", "path": [], "name": "sidx"}), st.just({"op": "del", "path": [], "name": "styp"}),
        st.just({"op": "del", "path": T, "name": "tfdt"}),
        st.fixed_dictionaries({"op": st.just("insert_emsg"), "version": st.integers(0, 1), "scheme_id_uri": ascii_s, "value": ascii_s,
                               "timescale": u(32), "event_duration": u(32), "event_id": u(32), "time": u(32),
                               "data": st.binary(max_size=20).map(bytes.hex)}),
        setf(["emsg"], "event_duration", u(32)), setf(["emsg"], "timescale", u(32)), setf(["emsg"], "value", ascii_s),
        setf(["emsg"], "presentation_time_delta", u(32)), setf(["emsg"], "presentation_time", u(64)), setf(["emsg"], "event_id", u(32)),
        setf(["sidx"], "timescale", u(32)), setf(["sidx"], "earliest_presentation_time", u(32)), setf(["sidx"], "reference_id", u(32)),
        st.sampled_from([{"op": "touch", "path": T + [n]} for n in ("trun", "tfhd", "tfdt", "senc", "saio", "saiz")]),
    )
    pssh_step = st.fixed_dictionaries({"op": st.sampled_from(["append_pssh", "append_pssh", "insert_pssh"]), "where": st.just("moov"),
                                       "version": st.integers(0, 1), "system_id": hex16, "kids": st.lists(hex16, max_size=3),
                                       "data": st.one_of(st.none(), st.binary(max_size=30).map(bytes.hex))})
    M = ["moov", "trak", "mdia", "mdhd"]
    lang = st.one_of(st.sampled_from(["und", "eng", "fra"]), st.text(alphabet="abcdefghijklmnopqrstuvwxyz", min_size=3, max_size=3))
    init_steps = st.one_of(
        pssh_step, pssh_step,
        st.just({"op": "del", "path": ["moov", "mvex"], "name": "mehd"}), st.just({"op": "del", "path": ["moov"], "name": "mvex"}),
        st.just({"op": "del", "path": ["moov"], "name": "udta"}), st.just({"op": "del", "path": [], "name": "free"}),
        st.just({"op": "del", "path": ["moov"], "name": "pssh"}),
        setf(["moov", "trak", "tkhd"], "track_id", u(32)), setf(["moov", "mvex", "trex"], "track_id", u(32)),
        setf(["moov", "mvhd"], "next_track_id", u(32)), setf(M, "language", lang), setf(M, "timescale", u(32)),
        setf(M, "duration", u(32)), setf(["moov", "mvhd"], "timescale", u(32)), setf(["moov", "mvhd"], "duration", u(64)),
        setf(["moov", "mvex", "mehd"], "fragment_duration", u(32)),
        st.sampled_from([{"op": "touch", "path": p} for p in (["moov", "trak", "mdia", "minf", "stbl", "stsd"], ["moov", "mvex", "trex"], M,
                                                              ["moov", "trak", "tkhd"])]),
    )
    moof_pssh = st.fixed_dictionaries({"op": st.just("append_pssh"), "where": st.just("moof"), "version": st.integers(0, 1),
                                       "system_id": hex16, "kids": st.lists(hex16, max_size=2),
                                       "data": st.one_of(st.none(), st.binary(max_size=12).map(bytes.hex))})

    @st.composite
    def case(draw):
        k = draw(st.integers(0, 9))
        if k < 4:
            base, pool = draw(st.sampled_from(frag_bases)), st.one_of(frag_steps, frag_steps, frag_steps, moof_pssh)
        elif k < 6:
            base, pool = draw(st.sampled_from(init_bases)), init_steps
        else:
            base = draw(gen)
            has_moov = any(b["t"] == "moov" for b in base["boxes"])
            has_moof = any(b["t"] == "moof" for b in base["boxes"])
            pool = st.one_of(*([init_steps] * has_moov + [frag_steps] * has_moof + [frag_steps, init_steps][:1 - (has_moov or has_moof)]))
        return {"base": base, "lazy": draw(st.sampled_from([True, True, False])), "src": draw(st.sampled_from(["br", "io"])),
                "steps": draw(st.lists(pool, min_size=2, max_size=8))}
    return case()


class EditSequences(Engine):
    name = "edit_sequences"

    def budget(self, tier):
        return 2800 if tier == "quick" else 100_000

    def strategy(self, tier):
        return _edit_strategy()

    def check(self, case):
        return check_edits(case)


ENGINES = [FixtureRoundtrip(), GeneratedBoxes(), EditSequences()]
