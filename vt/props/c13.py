"""C13 - byte-range requests return exactly the requested bytes (RFC 7233 section 2.1, 4)."""
from __future__ import annotations

import re

from ..runner import Engine, Outcome

PROPERTY = "C13"
RULE = ("Range header values are generated structurally (first-last, first-, -suffix with bounds drawn from "
        "{0,1,L-2,L-1,L,L+1,2L,2^63} and uniform) and as malformed strings (other units, several ranges, "
        "whitespace, signs, empty parts, non-ASCII digits, arbitrary text) for five range-capable URLs (clear "
        "and encrypted vod segment, audio segment, on-demand video and audio file); the boundary grid 8x8 per "
        "form is enumerated exhaustively. Non-trivial: the header is a single RFC 7233 byte-range with a bound "
        "within 1 of 0, L-1 or L. distinct = distinct (url, header).")
ASSUMPTIONS = [
    "RFC 7233 grammar: bytes-unit case-insensitive, 1*DIGIT positions, no embedded whitespace",
    "a header that is not a single valid byte-range-spec (incl. last < first) may be answered 400, 416 or be "
    "ignored/served; if served the body must agree with Content-Range",
    "vt/shims stand in for flask_login, sqlalchemy_jsonfield, dotenv, netifaces",
]

URLS = [
    ("seg-clear", "/dash/vod/bbb/bbb_v7/3.m4v", False),
    ("seg-enc", "/dash/vod/bbb/bbb_v7_enc/2.m4v?drm=all", False),
    ("seg-audio", "/dash/vod/bbb/bbb_a1/10.m4a", False),
    # range-capable URLs whose body is produced by further rewriting steps
    ("seg-corrupt", "/dash/vod/bbb/bbb_v7/3.m4v?vcorrupt=3&frames=2", False),
    ("seg-events", "/dash/vod/bbb/bbb_v6/2.m4v?events=ping,scte35&ping__interval=50&scte35__interval=130", False),
    ("seg-live-time", "/dash/live/tears/tears_v1/time/720000.m4v?start=2024-05-05T09:00:00Z&timeline=1", False),
    ("od-video", "/dash/odvod/bbb/bbb_v7.m4v", True),
    ("od-text", "/dash/odvod/bbb/bbb_t1.mp4", True),
]
SINGLE = re.compile(r"^bytes=(?:(\d+)-(\d*)|-(\d+))$", re.IGNORECASE | re.ASCII)
CONTENT_RANGE = re.compile(r"^bytes (\d+)-(\d+)/(\d+)$")

_full: dict[str, bytes] = {}


def _env():
    from .. import app, clock
    env = app.shared_env()
    clock.set_now("2024-05-05T10:00:00Z")
    return env


def full_body(key: str, url: str, mandatory: bool) -> bytes:
    if key not in _full:
        env = _env()
        if mandatory:
            # the on-demand route serves the stored file: the reference is the file itself
            path = env.blob_folder / "bbb" / (url.rsplit("/", 1)[1].split(".")[0] + ".mp4")
            _full[key] = path.read_bytes()
        else:
            r = env.get(url)
            if r.status != 200:
                raise RuntimeError(f"reference GET {url} -> {r.status}")
            _full[key] = r.body
    return _full[key]


def classify_header(h: str, L: int):
    """-> ('single', first, end) satisfiable | ('unsat',) | ('invalid',)"""
    m = SINGLE.match(h)
    if not m:
        return ("invalid",)
    if m.group(3) is not None:
        s = int(m.group(3))
        if s == 0:
            return ("unsat",)
        return ("single", max(0, L - s), L - 1)
    first = int(m.group(1))
    last = int(m.group(2)) if m.group(2) else None
    if last is not None and last < first:
        return ("invalid",)
    if first >= L:
        return ("unsat",)
    return ("single", first, L - 1 if last is None else min(last, L - 1))


def consistent(resp, full: bytes, out: Outcome, tag: str, h: str):
    """body / Content-Range / Content-Length agreement for a response that chose to serve."""
    L = len(full)
    cl = resp.headers.get("Content-Length")
    if cl is not None and int(cl) != len(resp.body):
        out.fail(f"{tag}/content-length-mismatch", f"{h!r}: Content-Length {cl} body {len(resp.body)}")
    if resp.status == 206:
        cr = resp.headers.get("Content-Range", "")
        m = CONTENT_RANGE.match(cr)
        if not m:
            out.fail(f"{tag}/206-bad-content-range", f"{h!r}: Content-Range {cr!r}")
            return
        a, b, tot = int(m.group(1)), int(m.group(2)), int(m.group(3))
        if tot != L or a > b or b >= L:
            out.fail(f"{tag}/206-content-range-outside-resource", f"{h!r}: {cr!r} L={L}")
        elif resp.body != full[a:b + 1]:
            out.fail(f"{tag}/206-body-differs-from-content-range", f"{h!r}: {cr!r} body len {len(resp.body)}")
    elif resp.status == 200:
        if resp.body != full:
            out.fail(f"{tag}/200-body-not-full", f"{h!r}: body len {len(resp.body)} L={L}")
    elif resp.status == 416:
        cr = resp.headers.get("Content-Range", "")
        if cr != f"bytes */{L}":
            out.fail(f"{tag}/416-content-range", f"{h!r}: {cr!r}")


def judge(urlkey: str, url: str, mandatory: bool, h: str | None) -> Outcome:
    out = Outcome()
    env = _env()
    full = full_body(urlkey, url, mandatory)
    L = len(full)
    kind = "od" if mandatory else "seg"
    headers = {} if h is None else {"Range": h}
    try:
        h.encode("latin-1") if h is not None else None
    except UnicodeEncodeError:
        out.trivial = "header-not-latin1"
        return out
    r = env.get(url, headers=headers)
    if r.status >= 500 or r.exc is not None:
        out.fail(f"{kind}/5xx/{type(r.exc).__name__ if r.exc else r.status}/{r.exc_where}",
                 f"Range: {h!r} -> {r.status} {r.exc!r}")
        return out
    if h is None:
        out.cls("absent")
        if mandatory:
            if r.status != 400:
                out.fail(f"{kind}/absent-range-not-400", f"status {r.status}")
        elif r.status != 200 or r.body != full:
            out.fail(f"{kind}/absent-range-not-full-200", f"status {r.status} len {len(r.body)}")
        return out
    c = classify_header(h, L)
    out.cls(c[0])
    if c[0] == "single":
        _, a, e = c
        form = "suffix" if h.lower().startswith("bytes=-") else ("open" if h.endswith("-") else "closed")
        beyond = "-beyond-end" if (form == "closed" and int(SINGLE.match(h).group(2)) >= L) or \
            (form == "suffix" and int(SINGLE.match(h).group(3)) > L) else ""
        tag = f"{kind}/{form}{beyond}"
        if r.status != 206:
            out.fail(f"{tag}/satisfiable-not-206/{r.status}", f"Range: {h!r} L={L} -> {r.status} body {len(r.body)}")
        else:
            want_cr = f"bytes {a}-{e}/{L}"
            if r.headers.get("Content-Range") != want_cr:
                out.fail(f"{tag}/wrong-content-range", f"Range: {h!r} -> {r.headers.get('Content-Range')!r} want {want_cr!r}")
            if r.body != full[a:e + 1]:
                out.fail(f"{tag}/wrong-body", f"Range: {h!r} -> body len {len(r.body)} want {e + 1 - a}")
            cl = r.headers.get("Content-Length")
            if cl is not None and int(cl) != e + 1 - a:
                out.fail(f"{tag}/wrong-content-length", f"Range: {h!r} -> {cl}")
        m = SINGLE.match(h)
        nums = [int(x) for x in m.groups() if x]
        out.nontrivial = any(abs(n - k) <= 1 for n in nums for k in (0, L - 1, L))
        out.cls(form + beyond)
    elif c[0] == "unsat":
        tag = f"{kind}/unsatisfiable"
        if r.status != 416:
            out.fail(f"{tag}/not-416/{r.status}", f"Range: {h!r} L={L} -> {r.status}")
        elif r.headers.get("Content-Range") != f"bytes */{L}":
            out.fail(f"{tag}/416-content-range", f"Range: {h!r} -> {r.headers.get('Content-Range')!r}")
        out.nontrivial = True
    else:
        tag = f"{kind}/invalid"
        if r.status not in (400, 416, 200, 206):
            out.fail(f"{tag}/unexpected-status/{r.status}", f"Range: {h!r}")
        elif r.status != 400:
            consistent(r, full, out, tag, h)
    return out


def boundary_values(L: int):
    return [0, 1, L - 2, L - 1, L, L + 1, 2 * L, 2 ** 63]


class BoundaryGrid(Engine):
    name = "boundary_grid"
    kind = "enumerate"
    exhaustive = True

    def cases(self, tier):
        for key, url, mand in URLS:
            yield {"url": key, "form": "absent"}
            for i in range(8):
                yield {"url": key, "form": "open", "a": i}
                yield {"url": key, "form": "suffix", "a": i}
                for j in range(8):
                    yield {"url": key, "form": "closed", "a": i, "b": j}

    def check(self, case):
        key, url, mand = next(u for u in URLS if u[0] == case["url"])
        L = len(full_body(key, url, mand))
        bv = boundary_values(L)
        f = case["form"]
        if f == "absent":
            h = None
        elif f == "open":
            h = f"bytes={bv[case['a']]}-"
        elif f == "suffix":
            h = f"bytes=-{bv[case['a']]}"
        else:
            h = f"bytes={bv[case['a']]}-{bv[case['b']]}"
        out = judge(key, url, mand, h)
        out.note("header", h if h is None else re.sub(r"\d{3,}", "N", h))
        return out


class RangeRandom(Engine):
    name = "range_random"

    def budget(self, tier):
        return 24_000 if tier == "quick" else 1_000_000

    def strategy(self, tier):
        from hypothesis import strategies as st
        # numbers are expressed relative to L so the case is independent of the file size
        num = st.one_of(
            st.tuples(st.sampled_from(["abs"]), st.integers(0, 70000)),
            st.tuples(st.sampled_from(["L"]), st.integers(-3, 3)),
            st.tuples(st.sampled_from(["L/2"]), st.integers(-3, 3)),
            st.tuples(st.sampled_from(["2L", "2^63", "2^64"]), st.integers(-1, 1)),
        )
        structured = st.one_of(
            st.tuples(st.just("closed"), num, num),
            st.tuples(st.just("span"), num, st.one_of(st.integers(0, 3), st.integers(0, 200000))),
            st.tuples(st.just("span"), num, st.one_of(st.integers(0, 3), st.integers(0, 200000))),
            st.tuples(st.just("open"), num),
            st.tuples(st.just("suffix"), num),
        )
        junk_piece = st.sampled_from(["bytes", "BYTES", "Bytes", "items", "", "=", "-", ",", " ", "\t", "+", "0", "5",
                                      "00", "1_0", "-1", "0x10", "1e3", "٣", "¹", "bytes=0-1", "bytes=5-", "none",
                                      ";", "/", "*", "9" * 30])
        malformed = st.one_of(
            st.lists(junk_piece, min_size=1, max_size=7).map("".join),
            st.text(alphabet="bytes=-, 0123456789+", max_size=16),
            st.text(max_size=12),
            st.tuples(st.just("multi"), num, num, num),
            st.tuples(st.just("ws"), num, num, st.sampled_from([" ", "\t", "  "]), st.integers(0, 4)),
            st.tuples(st.just("unit"), st.sampled_from(["BYTES", "Bytes", "bYtEs"]), num, num),
            st.tuples(st.just("sign"), st.sampled_from(["+", "-", "--"]), num, num),
        )
        return st.fixed_dictionaries({
            "url": st.sampled_from([u[0] for u in URLS]),
            "spec": st.one_of(structured, structured, structured, malformed),
        })

    @staticmethod
    def _num(n, L):
        base = {"abs": 0, "L": L, "L/2": L // 2, "2L": 2 * L, "2^63": 2 ** 63, "2^64": 2 ** 64}[n[0]]
        return max(0, base + n[1])

    def header(self, spec, L):
        if isinstance(spec, str):
            return spec
        k = spec[0]
        N = lambda n: self._num(n, L)
        if k == "closed":
            return f"bytes={N(spec[1])}-{N(spec[2])}"
        if k == "span":
            return f"bytes={N(spec[1])}-{N(spec[1]) + spec[2]}"
        if k == "open":
            return f"bytes={N(spec[1])}-"
        if k == "suffix":
            return f"bytes=-{N(spec[1])}"
        if k == "multi":
            return f"bytes={N(spec[1])}-{N(spec[2])}, {N(spec[3])}-"
        if k == "ws":
            parts = ["bytes", "=", str(N(spec[1])), "-", str(N(spec[2]))]
            parts.insert(spec[4] + 1 if spec[4] < 4 else 5, spec[3])
            return "".join(parts)
        if k == "unit":
            return f"{spec[1]}={N(spec[2])}-{N(spec[3])}"
        if k == "sign":
            return f"bytes={spec[1]}{N(spec[2])}-{N(spec[3])}"
        raise ValueError(spec)

    def check(self, case):
        key, url, mand = next(u for u in URLS if u[0] == case["url"])
        L = len(full_body(key, url, mand))
        h = self.header(case["spec"], L)
        if any(ord(c) < 32 and c != "\t" for c in h) or "\x7f" in h:
            o = Outcome()
            o.trivial = "control-char-not-sendable"
            return o
        out = judge(key, url, mand, h)
        out.cls(key)
        return out


ENGINES = [BoundaryGrid(), RangeRandom()]
