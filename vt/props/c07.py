"""C07 - options given to a manifest reach its media requests with the same meaning."""
from __future__ import annotations

import datetime as dt
from urllib.parse import urlsplit

from ..runner import Engine, Outcome

PROPERTY = "C07"
RULE = ("option_roundtrip: for every option in OptionsRepository.get_dash_options() (discovered at run time) a value "
        "is drawn by a strategy chosen from the identity of its from_string function (bool / int-or-none / "
        "int-with-default / float-or-none / string / list / date-time with any UTC offset and microsecond / "
        "quoted URL over the RFC 3986 reserved set / DRM selection: systems x location subsets / error list); "
        "to_string(v) is placed in a URL exactly as the server builds it, parsed by werkzeug in a request context "
        "and fed to from_string. manifest_to_media: a live or vod manifest is requested with a generated subset of "
        "options; the query string of every SegmentTemplate@initialization/@media is parsed by the server's own "
        "calculate_options() for the media route and compared field by field with the options the manifest request "
        "resolved. Non-trivial: the value needs escaping, is a list with >= 2 items, or the subset has >= 3 "
        "non-default options. distinct = canonical JSON of the case.")
ASSUMPTIONS = [
    "vt/shims stand in for flask_login, sqlalchemy_jsonfield, dotenv, netifaces; harness-controlled clock",
    "the server's own option parser is used on purpose for the end-to-end part (the property is about what the "
    "media endpoint obtains); werkzeug's query-string decoding is the transport",
    "plain string options are exercised with identifier-like text and their documented choices; reserved "
    "characters are generated for the licence-URL options (whose to_string documents quoting) only",
    "documented resolutions: symbolic start -> MPD@availabilityStartTime, depth -> MPD@timeShiftBufferDepth; "
    "error/corruption positions are translated by the manifest to segment numbers, so for those only presence "
    "and parseability on the media side are compared",
]
UTC = dt.timezone.utc
IDENT = "abcdefghijklmnopqrstuvwxyzABCDEFGHIJKLMNOPQRSTUVWXYZ0123456789_-."
RESERVED = ":/?#[]@!$&'()*+,;= %{}|\\^~`\"<>"


def option_names():
    from .. import app
    app.boot()
    from dashlive.server.options.repository import OptionsRepository
    return [o.cgi_name for o in OptionsRepository.get_dash_options()]


def _opt(cgi_name):
    from dashlive.server.options.repository import OptionsRepository
    return OptionsRepository.get_cgi_map()[cgi_name]


def value_kind(opt) -> str:
    return getattr(opt.from_string, "__name__", "?")


def value_strategy(kind: str, choices):
    """JSON-able description of a value; build_value() turns it into the Python value."""
    from hypothesis import strategies as st
    ident = st.text(IDENT, min_size=1, max_size=12).filter(lambda s: s.lower() not in ("none", ""))
    ch = [c[1] if isinstance(c, tuple) else c for c in (choices or ())]
    ch = [c for c in ch if c not in (None, "", "none")]
    if kind == "bool_from_string":
        return st.booleans().map(lambda b: ["bool", b])
    if kind == "int_or_none_from_string":
        return st.one_of(st.just(["none"]), st.integers(-10**6, 10**9).map(lambda i: ["int", i]),
                         # (numeric options accept values up to 10^12 in magnitude; beyond that they are rejected, which is C16's business)
                         st.sampled_from([0, 1, -1, 2**31, 10**12, -10**12]).map(lambda i: ["int", i]))
    if kind == "int_or_default":
        return st.integers(-10**6, 10**9).map(lambda i: ["int", i])
    if kind == "float_or_none_from_string":
        # legal values are the documented choices (PlayReady versions); general decimals without exponent too
        return st.one_of(st.just(["none"]), st.sampled_from([1.0, 2.0, 3.0, 4.0, 0.5]).map(lambda f: ["float", f]),
                         st.integers(0, 99999).map(lambda i: ["float", i / 1000.0]))
    if kind in ("string_or_none", "default_to_string"):
        base = [ident.map(lambda s: ["str", s])]
        if ch:
            base.append(st.sampled_from(ch).map(lambda s: ["str", s]))
        if kind == "string_or_none":
            base.append(st.just(["none"]))
        return st.one_of(*base)
    if kind == "list_without_none_from_string":
        item = st.sampled_from(ch) if ch else ident.filter(lambda s: "," not in s)
        return st.lists(item, min_size=0, max_size=4, unique=True).map(lambda l: ["list", l])
    if kind == "ast_from_string":
        when = st.fixed_dictionaries({"day": st.integers(1, 47000), "sec": st.integers(0, 86399),
                                      "us": st.one_of(st.just(0), st.integers(0, 999999)),
                                      "off": st.one_of(st.just(0), st.integers(-840, 840)),
                                      "naive": st.booleans()})
        return st.one_of(st.sampled_from(["now", "today", "month", "year", "epoch"]).map(lambda s: ["str", s]),
                         when.map(lambda w: ["datetime", w]))
    if kind == "unquoted_url_or_none_from_string":
        path = st.text(IDENT + RESERVED, min_size=0, max_size=30)
        return st.one_of(st.just(["none"]),
                         st.tuples(st.sampled_from(["http://", "https://", "ms3://"]), st.text(IDENT, min_size=1, max_size=10), path)
                         .map(lambda t: ["str", t[0] + t[1] + "/" + t[2]]).filter(lambda v: v[1].lower() not in ("none", "")))
    if kind == "_drm_selection_from_string":
        locs = st.lists(st.sampled_from(["cenc", "moov", "pro"]), min_size=1, max_size=3, unique=True)
        item = st.tuples(st.sampled_from(["clearkey", "marlin", "playready"]), locs)
        return st.lists(item, min_size=0, max_size=3, unique_by=lambda t: t[0]).map(lambda l: ["drm", [list(x) for x in l]])
    if kind == "_errors_from_string":
        pos = st.one_of(st.integers(0, 10**6).map(lambda i: ["int", i]),
                        st.tuples(st.integers(0, 23), st.integers(0, 59), st.integers(0, 59)).map(lambda t: ["time", list(t)]))
        item = st.tuples(st.sampled_from([404, 410, 503, 504]), pos)
        return st.lists(item, min_size=0, max_size=3).map(lambda l: ["errors", [list(x) for x in l]])
    return None


def build_value(desc):
    from .. import clock
    from dashlive.drm.location import DrmLocation
    k = desc[0]
    if k == "none":
        return None
    if k in ("bool", "int", "float", "str", "list"):
        return desc[1]
    if k == "datetime":
        w = desc[1]
        base = clock.REAL(1970, 1, 1, tzinfo=UTC) + dt.timedelta(days=w["day"], seconds=w["sec"], microseconds=w["us"])
        if w["naive"]:
            return base
        return base.astimezone(dt.timezone(dt.timedelta(minutes=w["off"])))
    if k == "drm":
        return [(name, {DrmLocation(l) for l in locs}) for name, locs in desc[1]]
    if k == "errors":
        out = []
        for code, (pk, pv) in desc[1]:
            out.append((code, pv if pk == "int" else dt.time(pv[0], pv[1], pv[2], tzinfo=UTC)))
        return out
    raise ValueError(desc)


def same(kind: str, a, b) -> bool:
    if kind == "_drm_selection_from_string":
        return {n: set(l) for n, l in (a or [])} == {n: set(l) for n, l in (b or [])}
    if kind == "_errors_from_string":
        def norm(items):
            return [(c, p if isinstance(p, int) else (p.hour, p.minute, p.second)) for c, p in items]
        return norm(a) == norm(b)
    if kind == "ast_from_string" and isinstance(a, dt.datetime) and isinstance(b, dt.datetime):
        if a.tzinfo is None:
            a = a.replace(tzinfo=UTC)
        if b.tzinfo is None:
            b = b.replace(tzinfo=UTC)
        return a == b and a.microsecond == b.microsecond
    return a == b and type(a) is type(b) or (a is None and b is None)


class OptionRoundTrip(Engine):
    name = "option_roundtrip"

    def budget(self, tier):
        return 40_000 if tier == "quick" else 3_000_000

    def strategy(self, tier):
        from hypothesis import strategies as st
        names = option_names()
        strategies_by_name = {}
        for n in names:
            o = _opt(n)
            s = value_strategy(value_kind(o), o.cgi_choices)
            strategies_by_name[n] = s if s is not None else st.just(["unmapped"])
        return st.sampled_from(names).flatmap(
            lambda n: strategies_by_name[n].map(lambda v: {"option": n, "value": v}))

    def check(self, case):
        from .. import app
        out = Outcome()
        env = app.shared_env()
        opt = _opt(case["option"])
        kind = value_kind(opt)
        out.cls("kind:" + kind)
        out.note("option", case["option"])
        if case["value"][0] == "unmapped":
            out.note("unmapped_option", case["option"])
            out.trivial = "unmapped-option"
            return out
        v = build_value(case["value"])
        name = opt.cgi_name
        vk = case["value"][0]
        try:
            text = opt.to_string(v)
        except Exception as exc:
            out.fail(f"{name}/to_string-raises/{type(exc).__name__}/{vk}", f"value {v!r}: {exc!r}")
            return out
        if not isinstance(text, str) and not (isinstance(text, (int, float)) and not isinstance(text, bool)) and text is not None:
            out.fail(f"{name}/to_string-not-text/{type(text).__name__}", f"value {v!r} -> {text!r}")
            return out
        url = f"/x?{name}={text}"          # exactly what dict_to_cgi_params() produces
        try:
            with env.app.test_request_context(url):
                import flask
                arrived = flask.request.args.get(name)
            back = opt.from_string(arrived) if arrived is not None else None
        except Exception as exc:
            out.fail(f"{name}/from_string-raises/{type(exc).__name__}/{vk}", f"value {v!r} -> {text!r}: {exc!r}")
            return out
        if not same(kind, v, back):
            why = vk
            if isinstance(v, str) and kind == "unquoted_url_or_none_from_string":
                why = "url-with-plus-or-percent" if ("+" in v or "%" in v) else "url-other"
            out.fail(f"{name}/url-transport-changed/{why}", f"value {v!r} -> {url!r} -> arrives as {arrived!r} -> {back!r}")
        # the same value through the real container path: parsed options -> generate_cgi_parameters (defaults
        # removed) -> dict_to_cgi_params -> a URL -> parsed options.  A value that differs from its default must
        # arrive as the same value (an omitted parameter means "the default", which is a different meaning).
        if arrived is not None and opt.full_name not in ("mode", "encrypted"):     # those two travel in the URL path
            from dashlive.server.options.repository import OptionsRepository

            def field(c):
                holder = getattr(c, opt.prefix, None) if opt.prefix else c
                return getattr(holder, opt.full_name, None) if holder is not None else None
            try:
                dflt = OptionsRepository.get_default_options()
                c1 = OptionsRepository.convert_cgi_options({name: arrived}, defaults=dflt)
                qs = c1.generate_cgi_parameters_string()
                with env.app.test_request_context("/x" + qs):
                    args = flask.request.args.to_dict()
                c2 = OptionsRepository.convert_cgi_options(args, defaults=dflt)
                a, b = field(c1), field(c2)
            except Exception as exc:
                out.fail(f"{name}/container-roundtrip-raises/{type(exc).__name__}/{vk}", f"value {v!r} ({arrived!r}): {exc!r}")
                return out
            out.cls("container:default" if name not in args else "container:non-default")
            if not same(kind, a, b):
                why2 = vk
                if isinstance(a, str) and kind == "unquoted_url_or_none_from_string":
                    why2 = "url-with-plus-or-percent" if ("+" in a or "%" in a) else "url-other"
                out.fail(f"{name}/container-roundtrip-changed/{why2}", f"value {v!r}: parsed {a!r} -> {qs!r} -> parsed {b!r}")
        needs_escape = isinstance(text, str) and any(c in text for c in "+&=#% ")
        out.nontrivial = needs_escape or (isinstance(v, list) and len(v) >= 2)
        if needs_escape:
            out.cls("needs-escaping")
        return out


MEDIA_FIELDS = ["availabilityStartTime", "timeShiftBufferDepth", "leeway", "drmSelection", "bugCompatibility",
                "failureCount", "eventTypes"]
MEDIA_PREFIXED = {"playready": ["licenseUrl", "version", "piff"], "marlin": ["licenseUrl"], "clearkey": ["licenseUrl"],
                  "ping": ["count", "duration", "inband", "interval", "start", "timescale", "value", "version"],
                  "scte35": ["count", "duration", "inband", "interval", "start", "timescale", "value", "version", "program_id"]}
TYPE_BIT = {"video": 2, "audio": 4, "text": 8}


class ManifestToMedia(Engine):
    name = "manifest_to_media"

    def budget(self, tier):
        return 1500 if tier == "quick" else 150_000

    def strategy(self, tier):
        from hypothesis import strategies as st
        from .. import strategies
        url_tail = st.text(IDENT + "&=+?#% {}", min_size=0, max_size=16)
        la = st.tuples(st.sampled_from(["https://lic.example/", "http://h/p?cfg="]), url_tail).map(lambda t: t[0] + t[1])
        extra = st.fixed_dictionaries({}, optional={
            "playready__la_url": la, "marlin__la_url": la.map(lambda u: u.replace("https://", "ms3://")),
            "clearkey__la_url": la,
            "failures": st.one_of(st.integers(0, 3).map(str), st.just("none")),
            "leeway": st.one_of(st.integers(0, 200).map(str), st.just("none")),
        })
        return st.fixed_dictionaries({
            "stream": st.sampled_from(["bbb", "tears"]),
            "template": st.sampled_from(["hand_made.mpd", "manifest_a.mpd", "manifest_e.mpd", "manifest_h.mpd",
                                         "manifest_i.mpd", "manifest_n.mpd", "manifest_ef.mpd"]),
            "mode": st.sampled_from(["live", "live", "vod"]),
            "opts": st.tuples(strategies.live_option_vector(), extra).map(lambda t: {**t[0], **t[1]}),
            "clock": strategies.live_clock(),
        })

    def check(self, case):
        from urllib.parse import quote
        from .. import app, mpd, session, strategies
        import flask
        env = app.shared_env()
        out = Outcome()
        T, url, consts = session.live_case_to_request(env, dict(case))
        if case["mode"] != "live":
            url = url.replace("/dash/live/", f"/dash/{case['mode']}/", 1)
        # licence URLs are sent properly percent-encoded by the client
        s = session.Session(env, T, url).load()
        out.cls("tpl:" + case["template"], "mode:" + case["mode"])
        if s.resp.status != 200 or s.mpd is None:
            out.trivial = f"manifest-{s.resp.status}"
            return out
        from dashlive.server import models
        from dashlive.server.manifests import manifest_map
        from dashlive.server.requesthandler.base import RequestHandlerBase
        from dashlive.server.options.repository import OptionsRepository
        handler = RequestHandlerBase()
        mft = manifest_map[case["template"]]
        with env.app.test_request_context(url):
            stream = models.Stream.get(directory=consts["stream"])
            try:
                mopts = handler.calculate_options(mode=case["mode"], args=flask.request.args, stream=stream,
                                                  restrictions=mft.restrictions, features=mft.features)
            except ValueError:
                out.trivial = "options-rejected"
                return out
            mopts.remove_unused_parameters(case["mode"])
            menc = mopts.encrypted
        cgi_map = OptionsRepository.get_cgi_map()
        n_nondefault = len(case["opts"])
        checked = 0
        for rep in s.mpd.reps:
            ctype = rep.content_type
            bit = TYPE_BIT.get(ctype)
            if bit is None or rep.template is None:
                continue
            for kind_, u in (("init", rep.init_url()), ("media", rep.media_url(number=1, time=0) if rep.template.media else None)):
                if u is None:
                    continue
                rel = session.rel(u)
                q = urlsplit(rel).query
                with env.app.test_request_context(rel):
                    args = flask.request.args
                    # (b) nothing is forwarded that does not apply to this media type
                    for key in args.keys():
                        o = cgi_map.get(key)
                        if o is None:
                            out.fail(f"forwarded-unknown-parameter/{ctype}", f"{url} -> {rel}: {key}")
                        elif not (int(o.usage) & bit):
                            out.fail(f"forwarded-to-wrong-media-type/{key}/{ctype}", f"{url} -> {rel}")
                    try:
                        got = handler.calculate_options(mode=case["mode"], args=args, stream=stream)
                    except Exception as exc:
                        out.fail(f"media-url-unparsable/{ctype}/{type(exc).__name__}", f"{url} -> {rel}: {exc!r}")
                        continue
                checked += 1
                # (a) same meaning, field by field
                def cmp(label, a, b, okind=""):
                    if not same(okind, a, b):
                        out.fail(f"value-differs/{label}/{ctype}", f"{url} -> {rel}: manifest {a!r} media {b!r}")
                for f in MEDIA_FIELDS:
                    # which media types an option must reach is taken from the property statement, not
                    # from the usage flags of the code under test; events are carried by video only
                    if f == "eventTypes" and ctype != "video":
                        continue
                    a, b = getattr(mopts, f, None), getattr(got, f, None)
                    if f == "availabilityStartTime":
                        if case["mode"] != "live":
                            continue
                        if s.mpd.ast is None or not isinstance(b, dt.datetime):
                            out.fail(f"value-differs/start-not-resolved/{ctype}", f"{url} -> {rel}: media start {b!r}")
                        elif mpd.epoch_seconds(b if b.tzinfo else b.replace(tzinfo=UTC)) != s.mpd.ast:
                            out.fail(f"value-differs/start/{ctype}", f"{url} -> {rel}: media start {b!r} MPD AST {s.mpd.root.get('availabilityStartTime')}")
                        continue
                    if f == "timeShiftBufferDepth":
                        if case["mode"] != "live":
                            continue
                        if s.mpd.tsbd is not None and b != s.mpd.tsbd:
                            out.fail(f"value-differs/depth/{ctype}", f"{url} -> {rel}: media depth {b!r} MPD {s.mpd.root.get('timeShiftBufferDepth')}")
                        continue
                    if f == "drmSelection":
                        # a clear AdaptationSet (no encrypted variant) carries no DRM selection
                        if not menc or "_enc" not in rep.id and not any("_enc" in r.id for r in s.mpd.reps):
                            continue
                        cmp(f, a, b, "_drm_selection_from_string")
                        continue
                    cmp(f, a, b)
                for prefix, fields in MEDIA_PREFIXED.items():
                    pa, pb = getattr(mopts, prefix, None), getattr(got, prefix, None)
                    if pa is None:
                        continue
                    if prefix in ("playready", "marlin", "clearkey"):
                        names = {n for n, _ in (mopts.drmSelection or [])}
                        if prefix not in names:
                            continue
                    if prefix in ("ping", "scte35") and prefix not in (mopts.eventTypes or []):
                        continue
                    for f in fields:
                        if ctype == "text" or (prefix in ("ping", "scte35") and ctype != "video"):
                            continue
                        a = getattr(pa, f, None)
                        b = getattr(pb, f, None) if pb is not None else None
                        cmp(f"{prefix}.{f}", a, b)
        out.weight = max(1, checked)
        text = strategies.query_string(case["opts"])
        out.nontrivial = checked > 0 and (n_nondefault >= 3 or "%" in text)
        seen = {}
        for sg, d in out.violations:
            seen.setdefault(sg, d)
        out.violations = list(seen.items())
        return out


ENGINES = [OptionRoundTrip(), ManifestToMedia()]
