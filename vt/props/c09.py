"""C09 - successive manifests and MPD patches evolve consistently."""
from __future__ import annotations

import datetime as dt
from fractions import Fraction

from ..runner import Engine, Outcome

PROPERTY = "C09"
RULE = ("Hypothesis draws (stream fixture or synthetic, timeline-capable live template, option vector, T1 from the "
        "phase-controlled clock, delta = T2-T1 in classes: < one segment, a few segments, crossing a loop of the "
        "source, up to days (crossing midnight and the patch ttl)). Both manifests are expanded by the independent "
        "reader and compared; with patch=1 the PatchLocation of the T1 document is fetched at T2 and applied with an "
        "independent RFC 5261 <replace> applier. Non-trivial: the two windows overlap in >= 1 segment and differ "
        "in >= 1. distinct = canonical JSON of the case.")
ASSUMPTIONS = [
    "vt/shims stand in for flask_login, sqlalchemy_jsonfield, dotenv, netifaces; harness-controlled clock",
    "unprefixed names in patch selectors denote MPD-namespace elements (vt/xmlpatch.py)",
    "availabilityStartTime may legitimately move FORWARD for symbolic starts; only backward moves are violations; "
    "segments are matched by (Representation id, S@t) when both documents have the same availabilityStartTime",
]


def timelines(m):
    out = {}
    for rep in m.reps:
        if rep.template is None:
            continue
        tl = rep.template.timeline()
        if tl:
            out[rep.id] = (tl, rep.template.timescale)
    return out


def check_pair(case) -> Outcome:
    from lxml import etree
    from .. import app, clock, mpd, session, xmlpatch
    env = app.shared_env()
    out = Outcome()
    opts = dict(case["opts"])
    if case["patch"]:
        opts["patch"] = "1"
    opts.setdefault("timeline", "1")
    c = dict(case, opts=opts)
    T1, url, consts = session.live_case_to_request(env, c)
    T2 = T1 + dt.timedelta(microseconds=case["delta_us"])
    s1 = session.Session(env, T1, url).load()
    out.cls("tpl:" + case["template"], "patch" if case["patch"] else "no-patch",
            "delta:" + ("<seg" if case["delta_us"] < consts["seg_us"] else "<loop" if case["delta_us"] < consts["ref_us"] else
                        "<day" if case["delta_us"] < 86400 * 10**6 else ">=day"))
    if s1.resp.status != 200 or s1.mpd is None or s1.mpd.type != "dynamic":
        out.trivial = "no-live-manifest"
        return out
    s2 = session.Session(env, T2, url).load()
    if s2.resp.status != 200 or s2.mpd is None:
        out.fail("second-manifest-unavailable", f"{url} at T1={T1.isoformat()} ok but at T2={T2.isoformat()} -> {s2.resp.status} {s2.error}")
        return out
    m1, m2 = s1.mpd, s2.mpd
    desc = f"{url} T1={T1.isoformat()} T2={T2.isoformat()}"
    if m1.ast is not None and m2.ast is not None and m2.ast < m1.ast:
        out.fail("availabilityStartTime-moved-backward", f"{desc}: {m1.root.get('availabilityStartTime')} -> {m2.root.get('availabilityStartTime')}")
    if m1.publish is not None and m2.publish is not None and m2.publish < m1.publish:
        why = "ast-moved" if m1.ast != m2.ast else "same-ast"
        out.fail(f"publishTime-moved-backward/{why}", f"{desc}: {m1.root.get('publishTime')} -> {m2.root.get('publishTime')}")
    try:
        t1, t2 = timelines(m1), timelines(m2)
    except mpd.MpdError as exc:
        out.trivial = "timeline-unparsable"
        return out
    overlap = differ = False
    if m1.ast == m2.ast:
        for rid, (a, ts) in t1.items():
            if rid not in t2:
                continue
            b = t2[rid][0]
            da, db = dict(a), dict(b)
            for t in set(da) & set(db):
                overlap = True
                if da[t] != db[t]:
                    out.fail("shared-segment-duration-differs", f"{desc} rep {rid}: S t={t} d={da[t]} vs d={db[t]}")
                    break
            if set(da) != set(db):
                differ = True
            # a start listed in one document must not fall strictly inside a segment of the other
            if a and b:
                if b[0][0] < a[0][0]:
                    why = "depth-still-growing" if m1.tsbd != m2.tsbd else "steady-depth"
                    out.fail(f"window-start-moved-backward/{why}", f"{desc} rep {rid}: first t {a[0][0]} -> {b[0][0]} (TSBD {m1.tsbd} -> {m2.tsbd})")
                if b[-1][0] + b[-1][1] < a[-1][0] + a[-1][1]:
                    why = "/depth-still-growing" if m1.tsbd != m2.tsbd else ""
                    out.fail(f"window-end-moved-backward{why}", f"{desc} rep {rid}: end {a[-1][0] + a[-1][1]} -> {b[-1][0] + b[-1][1]} "
                                                                 f"(TSBD {m1.tsbd} -> {m2.tsbd})")
                starts_b = set(db)
                for t, d in a:
                    if b[0][0] <= t < b[-1][0] + b[-1][1] and t not in starts_b:
                        out.fail("segment-boundaries-disagree", f"{desc} rep {rid}: S t={t} of T1 is not a boundary at T2")
                        break
    out.nontrivial = overlap and differ
    # ---- patch
    if case["patch"]:
        pl = m1.patch_location()
        if pl is None:
            out.cls("no-patch-location")
        else:
            purl, ttl = pl
            clock.set_now(T2)
            r = env.get(session.rel(purl), client=s1.client)
            if r.status != 200:
                out.fail(f"patch/unavailable/{r.status}", f"{desc}: {purl} -> {r.status} {r.exc!r}")
            else:
                try:
                    proot = etree.fromstring(r.body)
                    patched = xmlpatch.apply(m1.root, proot)
                except etree.XMLSyntaxError as exc:
                    out.fail("patch/not-well-formed", f"{desc}: {exc}")
                    proot = patched = None
                except xmlpatch.PatchError as exc:
                    out.fail("patch/selector-or-operation", f"{desc}: {exc}")
                    patched = None
                if proot is not None:
                    if proot.get("mpdId") != m1.root.get("id"):
                        out.fail("patch/mpdId", f"{desc}: {proot.get('mpdId')} vs MPD@id {m1.root.get('id')}")
                    opt, pt1 = proot.get("originalPublishTime"), m1.root.get("publishTime")
                    try:
                        if mpd.parse_datetime(opt) != mpd.parse_datetime(pt1):
                            out.fail("patch/originalPublishTime", f"{desc}: {opt} vs T1 publishTime {pt1}")
                    except mpd.MpdError:
                        out.fail("patch/originalPublishTime", f"{desc}: {opt!r}")
                if patched is not None and m1.ast != m2.ast:
                    out.cls("patch-ast-differs")      # e.g. start=now: every full manifest is a new presentation
                elif patched is not None:
                    Q = mpd.Q
                    if patched.get("publishTime") != m2.root.get("publishTime"):
                        out.fail("patch/publishTime-differs-from-full-manifest", f"{desc}: patched {patched.get('publishTime')} full {m2.root.get('publishTime')}")
                    p1, p2 = patched.find(Q + "PatchLocation"), m2.root.find(Q + "PatchLocation")
                    if (p1 is None) != (p2 is None) or (p1 is not None and ((p1.text or "").strip() != (p2.text or "").strip() or p1.get("ttl") != p2.get("ttl"))):
                        out.fail("patch/PatchLocation-differs-from-full-manifest", f"{desc}: {None if p1 is None else (p1.text, p1.get('ttl'))} vs {None if p2 is None else (p2.text, p2.get('ttl'))}")
                    try:
                        pm = mpd.MPD(etree.tostring(patched), "http://localhost" + url)
                        tp = timelines(pm)
                        if m1.ast == m2.ast and {k: v[0] for k, v in tp.items()} != {k: v[0] for k, v in t2.items()}:
                            bad = [k for k in set(tp) | set(t2) if tp.get(k, (None,))[0] != t2.get(k, (None,))[0]]
                            out.fail("patch/timeline-differs-from-full-manifest", f"{desc}: representations {bad[:3]}")
                    except mpd.MpdError as exc:
                        out.fail("patch/patched-document-unreadable", f"{desc}: {exc}")
                    out.nontrivial = out.nontrivial or differ
    seen = {}
    for sg, d in out.violations:
        seen.setdefault(sg, d)
    out.violations = list(seen.items())
    return out


class Pairs(Engine):
    name = "manifest_pairs"

    def budget(self, tier):
        return 1500 if tier == "quick" else 100_000

    def strategy(self, tier):
        from hypothesis import strategies as st
        from .. import app, strategies, synth
        app.boot()
        from dashlive.server.manifests import manifest_map
        tpls = sorted(n for n, m in manifest_map.items() if "live" in m.supported_modes() and "segmentTimeline" in m.features)
        delta = st.one_of(st.integers(1000, 4 * 10**6), st.integers(2 * 10**6, 60 * 10**6), st.integers(2 * 10**6, 30 * 10**6),
                          st.integers(10**6, 3600 * 10**6), st.integers(10**6, 3 * 86400 * 10**6))
        return st.fixed_dictionaries({
            "stream": st.one_of(st.sampled_from(["bbb", "tears"]), st.builds(lambda sp: {"synth": sp}, synth.stream_specs(max_segments=8))),
            "template": st.sampled_from(tpls), "opts": strategies.live_option_vector(with_events=False),
            "clock": strategies.live_clock(), "delta_us": delta, "patch": st.booleans(),
        })

    def check(self, case):
        return check_pair(case)


ENGINES = [Pairs()]
