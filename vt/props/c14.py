"""C14 - timed events are delivered exactly once and decode to their schedule.

Two parts: the library-level SCTE-35 codec identity (vt/props/c14_codec.py, with the independent
decoder vt/scte.py) and the HTTP-level event delivery engines below."""
from __future__ import annotations

from ..runner import Engine, Outcome
from .c14_codec import Scte35Codec
from . import c14_codec

PROPERTY = "C14"
RULE = c14_codec.RULE
ASSUMPTIONS = list(c14_codec.ASSUMPTIONS)
ENGINES = [Scte35Codec()]


# ====================================================================== HTTP-level event delivery

RULE = (RULE + " event_delivery: Hypothesis draws (stream fixture/synthetic, vod or live, event type ping/scte35/both, "
        "schedule start/interval/count/duration/timescale/version/inband with interval >= 100 ms, clock); all emsg "
        "boxes of a run of consecutive video segments (vod: every number; live: up to 40 consecutive numbers ending "
        "at the newest edge, which crosses loop boundaries) are collected with the independent box reader and "
        "compared with the schedule; out-of-band schedules are read from the manifest's EventStream; SCTE-35 "
        "payloads are decoded with vt/scte.py. Non-trivial (delivery): >= 1 event on a segment boundary, >= 2 events "
        "in one segment, the last scheduled event inside the run, or the run crosses a loop.")
ASSUMPTIONS += [
    "schedule defaults as documented by the option list: count 0 (unbounded), duration 200, interval 1000, start 0, "
    "timescale 100, version 0 (in-band scte35 is always version 1), inband on",
    "an event within one event-timescale tick of a segment boundary may be carried by either neighbour (the server "
    "floors segment boundaries into the event timescale); events within one tick of the run's ends are optional",
    "vt/shims stand in for flask_login, sqlalchemy_jsonfield, dotenv, netifaces; harness-controlled clock",
]
DEFAULTS = {"count": 0, "duration": 200, "inband": True, "interval": 1000, "start": 0, "timescale": 100, "version": 0}
SCHEME = {"ping": "urn:dash-live:pingpong:2022", "scte35": "urn:scte:scte35:2014:xml+bin"}


def schedule_of(opts: dict, prefix: str) -> dict:
    s = dict(DEFAULTS)
    for k in list(s):
        v = opts.get(f"{prefix}__{k}")
        if v is None:
            continue
        if k == "inband":
            s[k] = v.lower() in ("1", "true", "on")
        else:
            s[k] = int(v)
    if prefix == "scte35" and s["inband"]:
        s["version"] = 1
    return s


def check_delivery(case) -> Outcome:
    import base64
    from fractions import Fraction
    from lxml import etree
    from .. import app, clock, isobox, mpd, scte, session, strategies
    env = app.shared_env()
    out = Outcome()
    mode = case["mode"]
    c = dict(case, template="hand_made.mpd")
    T, url, consts = session.live_case_to_request(env, c)
    if mode == "vod":
        url = url.replace("/dash/live/", "/dash/vod/", 1)
    s = session.Session(env, T, url).load()
    out.cls("mode:" + mode, "events:" + case["opts"].get("events", ""))
    if s.resp.status != 200 or s.mpd is None:
        out.trivial = f"manifest-{s.resp.status}"
        if s.resp.status >= 500:
            out.fail(f"manifest-5xx/{type(s.resp.exc).__name__}/{s.resp.exc_where}", f"{url}: {s.resp.exc!r}")
        return out
    m = s.mpd
    desc = f"T={T.isoformat()} {url}"
    kinds = [k for k in case["opts"].get("events", "").split(",") if k]
    scheds = {k: schedule_of(case["opts"], k) for k in kinds}
    # ---- manifest side
    Q = mpd.Q
    period = m.root.find(Q + "Period")
    for k, sc in scheds.items():
        if sc["inband"]:
            found = [e for e in m.root.iter(Q + "InbandEventStream") if e.get("schemeIdUri") == SCHEME[k]]
            if not found:
                out.fail(f"manifest/{k}/InbandEventStream-missing", desc)
            for e in found:
                if e.get("timescale") != str(sc["timescale"]):
                    out.fail(f"manifest/{k}/inband-timescale", f"{desc}: {e.get('timescale')} want {sc['timescale']}")
        else:
            found = [e for e in period.findall(Q + "EventStream") if e.get("schemeIdUri") == SCHEME[k]]
            if not found:
                out.fail(f"manifest/{k}/EventStream-missing", desc)
                continue
            es = found[0]
            if es.get("timescale") != str(sc["timescale"]):
                out.fail(f"manifest/{k}/eventstream-timescale", f"{desc}: {es.get('timescale')}")
            evs = es.findall(Q + "Event")
            if len(evs) != sc["count"]:
                out.fail(f"manifest/{k}/event-count", f"{desc}: {len(evs)} Events listed, schedule count {sc['count']}")
            for idx, ev in enumerate(evs):
                want_pt = sc["start"] + idx * sc["interval"]
                if ev.get("id") != str(idx) or ev.get("presentationTime") != str(want_pt) or ev.get("duration") != str(sc["duration"]):
                    out.fail(f"manifest/{k}/event-fields", f"{desc}: Event {idx}: id {ev.get('id')} presentationTime {ev.get('presentationTime')} (want {want_pt}) duration {ev.get('duration')}")
                    break
                if k == "scte35":
                    b = next((x for x in ev.iter() if isinstance(x.tag, str) and x.tag.endswith("}Binary")), None)
                    if b is None or not (b.text or "").strip():
                        out.fail("manifest/scte35/no-binary", f"{desc}: Event {idx}")
                        break
                    _judge_scte(base64.b64decode(b.text.strip()), idx, want_pt, sc, out, f"{desc} manifest Event {idx}", scte)
    # ---- in-band delivery over a run of consecutive video segments
    inband = {k: v for k, v in scheds.items() if v["inband"]}
    files = env.streams[consts["stream"]]["files"]
    rep = next((r for r in m.reps if r.content_type == "video" and r.template is not None and r.uses_number and r.id in files), None)
    if rep is None or not inband:
        out.nontrivial = bool(scheds) and not inband
        return _dedupe(out)
    scn = session.scan(files[rep.id]["path"])
    tpl = rep.template
    ts = tpl.timescale
    if mode == "vod":
        numbers = list(range(tpl.start_number, tpl.start_number + len(scn["durations"])))
    else:
        win = mpd.number_window(rep, s.now)
        if win is None:
            out.trivial = "empty-window"
            return out
        first, last = win
        numbers = list(range(max(first, last - 39), last + 1))
    # emsg ids and SCTE-35 splice_event_id are 32-bit fields: schedules whose event index would exceed that
    # inside the run are outside the statement's "id of k"
    if mode == "live":
        for k, sc in inband.items():
            if sc["count"] == 0 and (s.now - m.ast) * sc["timescale"] / sc["interval"] >= 2**32 - 1:
                out.trivial = "event-index-exceeds-32-bits"
                return _dedupe(out)
    segs = []      # (n, start ticks, end ticks, [emsg dicts])
    for n in numbers:
        r = s.fetch(rep.media_url(number=n))
        if r.status != 200:
            if r.status >= 500:
                out.fail(f"segment-5xx/{type(r.exc).__name__}/{r.exc_where}", f"{desc} $Number$={n}: {r.exc!r}")
            segs.append(None)
            continue
        try:
            root = isobox.Root(r.body)
            frag = isobox.Fragment([b for b in root.children if b.type in (b"styp", b"sidx", b"emsg", b"moof", b"mdat")], scn["iv_size"])
            ems = [isobox.emsg(b) for b in frag.emsgs]
            dur = frag.duration() if (all("duration" in x for x in frag.trun["samples"]) or "default_sample_duration" in frag.tfhd) else None
        except Exception as exc:
            out.fail(f"segment-unreadable/{type(exc).__name__}", f"{desc} $Number$={n}: {exc}")
            segs.append(None)
            continue
        if dur is None:
            dur = tpl.duration
        segs.append((n, frag.decode_time, frag.decode_time + dur, ems))
    runs = [x for x in segs if x is not None]
    if len(runs) != len(segs) or not runs:
        out.trivial = "run-incomplete"          # retrievability is C01's
        return _dedupe(out)
    # the statement is about a run of consecutive SEGMENTS.  With irregular stored durations consecutive
    # $Number$ values can deliver the same stored segment twice or skip one (nearest-segment mapping, see C02);
    # keep the longest prefix-free run of truly consecutive segments (a gap is allowed only at a loop wrap,
    # where the last segment of a loop is followed by the first one of the next loop)
    ref_in_ts = consts["ref_ticks"] * ts // consts["timescale"]
    clean = [runs[0]]
    for b in runs[1:]:
        a = clean[-1]
        drift = ref_in_ts - sum(scn["durations"])
        if b[1] == a[2] or (drift > 0 and b[1] - a[2] == drift and b[1] % ref_in_ts == 0):
            clean.append(b)
        else:
            out.cls("number-mapping-not-consecutive")
            break
    # the last segment of a loop covers the interval up to the start of the next loop (the timeline advertises
    # it with that duration)
    runs = [(a[0], a[1], (b[1] if b is not None and b[1] > a[2] else a[2]), a[3]) for a, b in zip(clean, clean[1:] + [None])]
    drift = ref_in_ts - sum(scn["durations"])
    if mode == "live" and drift > 0 and (runs[-1][2] + drift) % ref_in_ts == 0:
        a = runs[-1]
        runs[-1] = (a[0], a[1], a[2] + drift, a[3])
    run_start, run_end = Fraction(runs[0][1], ts), Fraction(runs[-1][2], ts)
    crosses_loop = (runs[-1][2] - runs[0][1]) > consts["ref_ticks"] * ts // consts["timescale"] or \
        any(a[2] != b[1] for a, b in zip(runs, runs[1:]))
    nontrivial = crosses_loop
    for k, sc in inband.items():
        ets = sc["timescale"]
        tick = Fraction(1, ets)
        got = {}      # id -> list of (segment, emsg)
        for seg in runs:
            for e in seg[3]:
                if e["scheme_id_uri"] != SCHEME[k]:
                    continue
                got.setdefault(e["id"], []).append((seg, e))
        # model
        def instant(kk):
            return Fraction(sc["start"] + kk * sc["interval"], ets)
        k_lo = max(0, -((-(run_start * ets - sc["start"])) // sc["interval"]) - 1)
        kk = int(k_lo)
        required, optional = set(), set()
        while True:
            if sc["count"] > 0 and kk >= sc["count"]:
                break
            e = instant(kk)
            if e >= run_end:
                break
            if e >= run_start - tick:
                if e < run_start or e >= run_end - tick:
                    optional.add(kk)
                else:
                    required.add(kk)
            kk += 1
            if kk - k_lo > 200000:
                break
        for eid, lst in got.items():
            if len(lst) > 1:
                out.fail(f"{k}/event-delivered-more-than-once", f"{desc}: id {eid} in segments {[x[0][0] for x in lst]}")
            if eid not in required and eid not in optional:
                why = "id>=count" if sc["count"] > 0 and eid >= sc["count"] else "outside-run"
                out.fail(f"{k}/unscheduled-event/{why}", f"{desc}: emsg id {eid} in $Number$={lst[0][0][0]} (schedule {sc})")
        missing = sorted(required - set(got))
        if missing:
            out.fail(f"{k}/scheduled-event-missing", f"{desc}: ids {missing[:5]} (schedule {sc}, run {float(run_start)}..{float(run_end)})")
        per_seg = {}
        for eid, lst in got.items():
            seg, e = lst[0]
            ek = instant(eid)
            s0, s1 = Fraction(seg[1], ts), Fraction(seg[2], ts)
            per_seg[seg[0]] = per_seg.get(seg[0], 0) + 1
            if not (s0 - tick <= ek < s1):
                out.fail(f"{k}/event-in-wrong-segment", f"{desc}: id {eid} at {float(ek)}s carried by $Number$={seg[0]} [{float(s0)},{float(s1)})")
            if abs(ek - s0) <= tick or abs(ek - s1) <= tick:
                nontrivial = True
            if e["timescale"] != ets:
                out.fail(f"{k}/emsg-timescale", f"{desc}: {e['timescale']} want {ets}")
            if e["version"] != sc["version"]:
                out.fail(f"{k}/emsg-version", f"{desc}: {e['version']} want {sc['version']}")
            if e["event_duration"] != sc["duration"]:
                out.fail(f"{k}/emsg-duration", f"{desc}: {e['event_duration']} want {sc['duration']}")
            if e["version"] == 1:
                if e["presentation_time"] != sc["start"] + eid * sc["interval"]:
                    out.fail(f"{k}/v1-presentation-time", f"{desc}: id {eid}: {e['presentation_time']} want {sc['start'] + eid * sc['interval']}")
            else:
                resolved = s0 + Fraction(e["presentation_time_delta"], ets)
                if abs(resolved - ek) > tick:
                    out.fail(f"{k}/v0-delta-resolves-elsewhere", f"{desc}: id {eid}: segment start {float(s0)} + delta {e['presentation_time_delta']}/{ets} = {float(resolved)} want {float(ek)}")
            if k == "scte35":
                _judge_scte(e["message_data"], eid, sc["start"] + eid * sc["interval"], sc, out, f"{desc} emsg id {eid}", scte)
            elif e["message_data"] != (b"ping" if eid % 2 == 0 else b"pong"):
                out.fail("ping/payload", f"{desc}: id {eid}: {e['message_data'][:10]!r}")
        if any(v >= 2 for v in per_seg.values()):
            nontrivial = True
        if sc["count"] > 0 and (sc["count"] - 1) in got:
            nontrivial = True
    out.weight = max(1, len(runs))
    out.nontrivial = nontrivial
    return _dedupe(out)


def _judge_scte(data: bytes, event_id: int, presentation_time: int, sc: dict, out: Outcome, where: str, scte):
    try:
        d = scte.decode_section(data)
    except Exception as exc:
        out.fail(f"scte35/undecodable/{type(exc).__name__}", f"{where}: {exc}")
        return
    if not d.get("crc_ok"):
        out.fail("scte35/crc", where)
    if not d.get("length_ok"):
        out.fail("scte35/section-length", where)
    cmd = d.get("command") or {}
    if d.get("splice_command_type") != 5:
        out.fail("scte35/not-splice-insert", f"{where}: type {d.get('splice_command_type')}")
        return
    if cmd.get("splice_event_id") != event_id:
        out.fail("scte35/event-id", f"{where}: {cmd.get('splice_event_id')} want {event_id}")
    want_pts = (presentation_time * 90000 // sc["timescale"]) & 0x1FFFFFFFF
    st_ = cmd.get("splice_time") or {}
    if st_.get("pts") != want_pts:
        out.fail("scte35/pts", f"{where}: {st_.get('pts')} want {want_pts}")
    bd = cmd.get("break_duration") or {}
    if bd.get("duration") != sc["duration"] * 90000 // sc["timescale"]:
        out.fail("scte35/break-duration", f"{where}: {bd.get('duration')} want {sc['duration'] * 90000 // sc['timescale']}")


def _dedupe(out: Outcome) -> Outcome:
    seen = {}
    for sg, d in out.violations:
        seen.setdefault(sg, d)
    out.violations = list(seen.items())
    return out


class EventDelivery(Engine):
    name = "event_delivery"

    def budget(self, tier):
        return 700 if tier == "quick" else 30_000

    def strategy(self, tier):
        from hypothesis import strategies as st
        from .. import app, strategies, synth
        app.boot()
        return st.fixed_dictionaries({
            "stream": st.one_of(st.sampled_from(["bbb", "tears"]), st.builds(lambda sp: {"synth": sp}, synth.stream_specs(max_segments=8, allow_enc=False))),
            "mode": st.sampled_from(["vod", "live", "live"]),
            "opts": strategies.event_options(wide_duration=True),
            "clock": strategies.live_clock(),
        })

    def check(self, case):
        return check_delivery(case)


ENGINES = [Scte35Codec(), EventDelivery()]
