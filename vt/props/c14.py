"""C14 - timed events are delivered exactly once and decode to their schedule.

Two parts: the library-level SCTE-35 codec identity (vt/props/c14_codec.py, with the independent
decoder vt/scte.py) and the HTTP-level event delivery engines below."""
from __future__ import annotations

from ..runner import Engine, Outcome
from .c14_codec import Scte35Codec
from . import c14_codec

PROPERTY = "C14"
RULE = c14_codec.RULE
ASSUMPTIONS = list(c14_codec.ASSUMPTIONS)
ENGINES = [Scte35Codec()]
