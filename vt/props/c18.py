"""C18 - the bundled validator accepts what the server generates and flags corruptions.

Two sides, both driven through vt/validator_adapter.py (synchronous worker pool, in-process HTTP client
at the controlled instant, asyncio.sleep replaced by a clock advance):

  accept   the validator runs over a pristine session and must finish within a step budget with no error;
  detect   the same session is run twice with the identical clock script; in the second pass exactly one
           response (chosen among those the validator really fetched in the first pass) is rewritten with one
           specification violation written with vt/isobox.py / struct / lxml only.  The validator must report
           at least one error whose location is the corrupted element.
"""
from __future__ import annotations

import math
import re
import struct

from ..runner import Engine, Outcome

PROPERTY = "C18"

RULE = (
    "Hypothesis draws (stream: fixture bbb/tears or synthetic spec, (template, mode) over every mode in "
    "manifest_map[template].supported_modes(), option vector from vt.strategies.live_option_vector filtered to the "
    "options the template lists in features/restrictions (bugs= is never sent), phase-controlled clock, validated "
    "duration = 1..4 nominal segments). The manifest is fetched through the in-process app at the controlled "
    "instant and the validator is driven exactly as tests/mixins/check_manifest.py does (load(data=), then "
    "validate / sleep / refresh, stop at the first reported error) with a synchronous pool; termination is "
    "judged in steps: loop iterations <= ceil((D + 3 x longest segment)/minimumUpdatePeriod)+4 (cap 100) and "
    "<= 600 HTTP requests. accept: non-trivial = manifest 200 and >= 1 init and >= 1 media segment fetched. "
    "detect: pass 1 pristine (errors there make the case trivial), then for each listed corruption a pass 2 in "
    "which the selector-th (modulo) eligible response of pass 1 - eligible responses ordered by (loop step, URL, "
    "Range, occurrence), never by arrival order - is rewritten; non-trivial = pass 1 clean and the rewritten "
    "response was consumed; the first listed corruption steers the case (drm on for saio, timeline=1 for "
    "timeline, short window + long duration for availabilityStartTime). 'located at': see ASSUMPTIONS. An "
    "enumerated sweep runs every (template, mode) x {default, drm=all, timeline=1} (live: with and without a forced "
    "refresh) on bbb with every corruption kind twice and also owns the pristine verdict of those sessions. "
    "distinct = canonical JSON of the case."
)

ASSUMPTIONS = [
    "vt/shims stand in for flask_login, sqlalchemy_jsonfield, dotenv, netifaces; harness-controlled clock; "
    "asyncio.sleep is replaced for the duration of a session by a function that advances the controlled clock",
    "the validator's WorkerPool is replaced by a synchronous pool with the contract of ConcurrentWorkerPool "
    "(submit -> .result(); leaving a group re-raises the first exception of a submitted function); the order of "
    "requests inside one loop step may still depend on set iteration inside the validator, therefore responses "
    "are addressed by (URL, Range, occurrence), never by arrival order",
    "options with which the server deviates on purpose (bugs=saio, clock drift, failure injection, video "
    "corruption) are outside the 'option set the template supports' and are never sent; drm= is only sent for "
    "templates with the drmSelection feature and streams that have encrypted tracks; encrypted := drm option "
    "present and != none (as upstream's check_manifest_using_options)",
    "termination: every Media Segment stays available for its duration + timeShiftBufferDepth after it became "
    "available (5.3.9.5.3), so a client that reloads every minimumUpdatePeriod can always collect D seconds of "
    "media within D + 3 longest-segment durations of stream time; the step budget is that time divided by "
    "minimumUpdatePeriod, + 4 (cap 100). Only when MPD@timeShiftBufferDepth < longest segment duration + 2 s "
    "(the validator skips segments that expire within 2 s) is running out of the budget recorded as trivial "
    "instead of a violation; a wall-clock guard of 25 s per session only ever produces "
    "trivial=inconclusive-timeout",
    "LOCATED AT. Every ValidationError carries location=LineRange(start,end) in the lines of the manifest text "
    "the validator held when the error was recorded (ValidationHistory i <-> i-th document, current errors <-> "
    "last document). lines(X) of an element X = first line of its start tag .. line of its end tag; head(X) = the "
    "lines of its start tag (computed here from the text with lxml, independently of dash_element.py, which uses "
    "[sourceline, max descendant sourceline] for element errors, [sourceline, sourceline] for attribute errors, "
    "and the parent Representation's range for MediaSegment/InitSegment). A location with start None is located "
    "nowhere (signature suffix /no-location); an error that only fits the Representation's lines in an EARLIER "
    "document of the session gets the suffix /stale-line-numbers. "
    "(a) media/init segment of Representation R in AdaptationSet A: the error range lies inside lines(A) and "
    "overlaps lines(R), or head(A), or lines(the SegmentTemplate/SegmentList/SegmentBase child of A). "
    "(b) manifest corruption of element E (attribute removed from E; E = the SegmentTimeline for a gap/overlap; "
    "E = MPD for availabilityStartTime): scope = nearest of {AdaptationSet, Period, MPD} that is E or contains "
    "E; the error range lies inside lines(scope) and overlaps head(E) (attribute removals on MPD, Period, "
    "AdaptationSet, Representation) or lines(E) (all other E) or lines(parent SegmentTemplate) for a timeline, "
    "or lines(R) of a Representation R that is E, contains E or inherits from E (E is a child of R's "
    "AdaptationSet). Errors attached to the whole Period/MPD for a corruption inside an AdaptationSet are "
    "'mislocated'.",
    "tolerances: the validator documents a decode-time tolerance of 1-2 video frames (timescale/20 for audio) and "
    "ISO/IEC 23009-1 7.2.1 allows MPD start time and media time to differ by 50% of the segment duration. "
    "Decode-time shifts are therefore >= 0.8 segment (class ge-seg; detectable from the MPD alone), or - only when "
    "the segment the validator read just before is the immediate predecessor in the track (tfdt + sample durations "
    "= this tfdt) - >= max(0.25 s, 3 sample durations) (class lt-seg); the corrupted segment always has another "
    "segment of the same Representation in the same session",
    "sequence numbers: ISO/IEC 14496-12 8.8.5 only requires mfhd.sequence_number to increase; the corruption "
    "sets it <= the predecessor's (or >= the successor's) value among the segments the validator reads",
    "mandatory (ISO/IEC 14496-12 Table 1 / 23009-1 6.3.3 / 23001-7): ftyp, moov, mvhd, trak, tkhd, mdia, mdhd, hdlr, "
    "minf, dinf, stbl, stsd, stts, stsc, stsz, stco, mvex, trex; for protected tracks sinf, frma, tenc (schm is left "
    "out: 14496-12 lists it as optional inside sinf). Mandatory MPD attributes (23009-1 "
    "tables): MPD@profiles, MPD@minBufferTime; dynamic: MPD@type (only when minimumUpdatePeriod is present), "
    "MPD@availabilityStartTime, MPD@publishTime, Period@id; Representation@id, Representation@bandwidth; "
    "@mimeType when only one of AdaptationSet/Representation carries it; S@d; @schemeIdUri of descriptors "
    "(ContentProtection, Role, Accessibility, AudioChannelConfiguration, EventStream, InbandEventStream, "
    "UTCTiming, Essential/SupplementalProperty)",
    "SegmentTimeline: the entries from a chosen one on are moved; back by 0.5 or 1 segment (overlap: violates "
    "5.3.9.6 directly), forward by 0.4, 0.5 or 1.5 segments (gap that is not a whole number of segments, so the "
    "remaining entries contradict the tfdt of the media they address by more than any tolerance; a gap of whole "
    "segments is legal per 5.3.9.6 and consistent with the media, hence never generated)",
    "a manifest answered 4xx/5xx is a trivial case here (C05/C16 judge the server)",
    "synthetic streams: on-demand mode serves the stored bytes verbatim, so for odvod cases the stored file itself "
    "is written with tfdt and default-base-is-moof (ISO/IEC 23009-1 6.3.4.2); the detect engine additionally uses "
    "constant segment durations and first decode time 0 for synthetic streams (so that the pristine pass is clean "
    "more often); the accept engine keeps the irregular streams of C01/C06",
]

TIME_LIMIT = {"quick": 1500, "thorough": 12 * 3600}
MAX_REQUESTS = 600

FEATURE_OF = {"abr": "abr", "acodec": "audioCodec", "base": "useBaseUrls", "drm": "drmSelection",
              "events": "eventTypes", "mup": "minimumUpdatePeriod", "patch": "patch",
              "timeline": "segmentTimeline", "time": "utcMethod"}
LIVE_ONLY = {"depth", "leeway", "mup", "patch", "time"}

SEGMENT_KINDS = ["tfdt", "mfhd", "trun-offset", "saio-offset", "init-box"]
MANIFEST_KINDS = ["timeline", "mpd-attr", "ast-changed"]
KINDS = SEGMENT_KINDS + MANIFEST_KINDS

INIT_BOXES = [
    ("ftyp",), ("moov",), ("moov", "mvhd"), ("moov", "trak"), ("moov", "trak", "tkhd"), ("moov", "trak", "mdia"),
    ("moov", "trak", "mdia", "mdhd"), ("moov", "trak", "mdia", "hdlr"), ("moov", "trak", "mdia", "minf"),
    ("moov", "trak", "mdia", "minf", "stbl"), ("moov", "trak", "mdia", "minf", "stbl", "stsd"),
    ("moov", "trak", "mdia", "minf", "dinf"), ("moov", "trak", "mdia", "minf", "stbl", "stts"),
    ("moov", "trak", "mdia", "minf", "stbl", "stsc"), ("moov", "trak", "mdia", "minf", "stbl", "stsz"),
    ("moov", "trak", "mdia", "minf", "stbl", "stco"),
    ("moov", "mvex"), ("moov", "mvex", "trex"),
    ("*", "sinf"), ("*", "sinf", "frma"), ("*", "sinf", "schi", "tenc"),
]

# (what, shift in units of the previous entry's duration).  A gap of a WHOLE number of segments is not generated:
# 5.3.9.6 allows S@t to exceed the end of the previous entry and every remaining entry would still name a real
# segment with matching tfdt - nothing a validator could object to.
TIMELINE_VARIANTS = [("gap", 0.5), ("gap", 1.5), ("overlap", 0.5), ("overlap", 1.0), ("gap", 0.4)]

MPD_NS = "urn:mpeg:dash:schema:mpd:2011"
Q = "{%s}" % MPD_NS
DESCRIPTORS = ["ContentProtection", "Role", "Accessibility", "AudioChannelConfiguration", "EventStream",
               "InbandEventStream", "UTCTiming", "EssentialProperty", "SupplementalProperty"]


# ====================================================================== case -> session parameters

def template_modes():
    from dashlive.server.manifests import manifest_map
    out = []
    for name, m in sorted(manifest_map.items()):
        for mode in ("live", "vod", "odvod"):
            if mode in m.supported_modes():
                out.append((name, mode))
    return out


def _allowed(restr, key):
    v = restr.get(key)
    if v is None:
        return None
    if isinstance(v, str):
        return {v}
    return set(v)


def supported_options(template: str, mode: str, raw: dict, has_enc: bool) -> dict:
    """The subset of `raw` that the template declares to support in this mode."""
    from dashlive.server.manifests import manifest_map
    m = manifest_map[template]
    feats, restr = set(m.features), dict(m.restrictions or {})
    out = {}
    for k, v in raw.items():
        head = k.split("__")[0]
        key = "events" if head in ("ping", "scte35") else "drm" if head == "playready" else head
        if key == "bugs":
            continue
        if key in LIVE_ONLY and mode != "live":
            continue
        feat = FEATURE_OF.get(key)
        if feat is not None and feat not in feats:
            continue
        if k == key:
            allowed = _allowed(restr, key)
            if allowed is not None and str(v) not in allowed:
                continue
        if key == "drm" and not has_enc:
            continue
        out[k] = v
    if out.get("drm", "none") == "none":
        out = {k: v for k, v in out.items() if not k.startswith("playready__")}
    if "events" not in out:
        out = {k: v for k, v in out.items() if not k.startswith(("ping__", "scte35__"))}
    else:
        evs = out["events"].split(",")
        out = {k: v for k, v in out.items() if "__" not in k or k.split("__")[0] not in ("ping", "scte35")
               or k.split("__")[0] in evs}
    return out


def stream_has_enc(stream) -> bool:
    if stream == "bbb":
        return True
    if isinstance(stream, dict):
        return any(t.get("enc") for t in stream["synth"]["tracks"])
    return False


def normalise_stream(stream, mode: str, regular: bool):
    """Synthetic specs only.  On-demand mode serves the stored bytes verbatim, so the stored file itself has to
    satisfy ISO/IEC 23009-1 6.3.4.2 (tfdt present, default-base-is-moof).  regular=True additionally gives every
    track constant segment durations (the detection side wants sessions whose pristine pass is clean)."""
    if not isinstance(stream, dict):
        return stream
    import copy
    spec = copy.deepcopy(stream["synth"])
    for tr in spec["tracks"]:
        if mode == "odvod" or regular:
            tr["base"] = "moof"
            tr["tfdt"] = True
        if regular:
            ds = sorted(tr["durations"])
            tr["durations"] = [ds[len(ds) // 2]] * len(ds)
            tr["first_dt"] = 0
    return {"synth": spec}


def base_case_strategy(pairs=None, regular: bool = False):
    from hypothesis import strategies as st
    from .. import strategies, synth
    pairs = pairs or template_modes()

    def build(stream, tm, raw, clk, dur, refresh):
        template, mode = tm
        stream = normalise_stream(stream, mode, regular)
        opts = supported_options(template, mode, raw, stream_has_enc(stream))
        if refresh and mode == "live":
            # steer towards sessions that must wait for new segments and reload the manifest
            opts["depth"] = str(10 + refresh * 4)
            clk = dict(clk, anchor="now")
            dur = max(dur, 3)
        return {"stream": stream, "template": template, "mode": mode, "opts": opts, "clock": clk, "dur_segs": dur}

    return st.builds(
        build,
        st.one_of(st.sampled_from(["bbb", "bbb", "tears"]), st.sampled_from(["bbb", "bbb", "tears"]) if regular
                  else st.builds(lambda sp: {"synth": sp}, synth.stream_specs()),
                  st.builds(lambda sp: {"synth": sp}, synth.stream_specs())),
        st.sampled_from(pairs),
        strategies.live_option_vector(),
        strategies.live_clock(),
        st.integers(1, 4),
        st.sampled_from([0, 0, 0, 1, 2, 4]))


class Params:
    """Everything a session needs, derived deterministically from the case."""

    def __init__(self, env, case):
        import datetime as dt
        from .. import clock, session, strategies
        self.case = case
        self.mode = case["mode"]
        self.stream = session.resolve_stream(env, case["stream"])
        opts = dict(case["opts"])
        self.encrypted = opts.get("drm", "none") != "none"
        if self.mode == "live":
            c = {"stream": case["stream"], "template": case["template"], "opts": opts, "clock": case["clock"]}
            self.T, path, self.consts = session.live_case_to_request(env, c)
        else:
            self.consts = session.stream_constants(env, self.stream)
            ck = case["clock"]
            self.T = clock.REAL(1970, 1, 1, tzinfo=dt.timezone.utc) + dt.timedelta(days=ck["base_day"], seconds=ck["base_sec"])
            path = f"/dash/{self.mode}/{self.stream}/{case['template']}" + strategies.query_string(opts)
        self.url = "http://localhost" + path
        self.seg_s = self.consts["seg_us"] / 1e6
        self.duration = max(1, math.ceil(case["dur_segs"] * self.seg_s))
        self.mup_s = None
        self.tsbd_s = None
        self.max_seg_s = self.seg_s
        self.loops = 0.0
        self.budget = 2

    def iteration_budget(self, body: bytes) -> int:
        self.budget = self._iteration_budget(body)
        return self.budget

    def _iteration_budget(self, body: bytes) -> int:
        from .. import mpd
        if self.mode != "live":
            return 2
        self.max_seg_s = self.seg_s
        try:
            m = mpd.MPD(body, self.url)
            self.mup_s = float(m.mup) if m.mup is not None else None
            self.tsbd_s = float(m.tsbd) if m.tsbd is not None else None
            if m.ast is not None and self.consts.get("ref_ticks") and self.consts.get("timescale"):
                elapsed = self.T.timestamp() - float(m.ast)
                self.loops = elapsed / (self.consts["ref_ticks"] / self.consts["timescale"])
            for r in m.reps:
                t = r.template
                if t is None:
                    continue
                ticks = t.duration
                if ticks is None and t.timeline_el is not None:
                    ticks = max((d for _, d in t.timeline()), default=None)
                if ticks:
                    self.max_seg_s = max(self.max_seg_s, ticks / t.timescale)
        except Exception:           # noqa: BLE001 - a corrupted manifest: fall back to the widest budget
            return 100
        # stream time a correct client needs: the requested duration plus three of the longest segments; every
        # loop iteration advances the clock by minimumUpdatePeriod (>= 1 s whenever the attribute is present)
        step = self.mup_s if self.mup_s else self.max_seg_s
        return min(100, math.ceil((self.duration + 3 * self.max_seg_s) / max(step, 1.0)) + 4)

    def degenerate_depth(self) -> bool:
        """a window shorter than the longest segment (+ the validator's 2 s expiry margin) may never hold a
        segment that is completely available and not about to expire"""
        return self.mode == "live" and self.tsbd_s is not None and self.tsbd_s < self.max_seg_s + 2


def run_session(env, p: Params, rewrite=None, budget=None):
    from .. import validator_adapter as va
    return va.run_validator(env, p.T, p.url, p.mode, p.encrypted, p.duration,
                            budget if budget is not None else p.iteration_budget, MAX_REQUESTS,
                            stream_dir=p.stream, rewrite=rewrite)


# ====================================================================== signatures

_PREFIX = re.compile(r"^(?:[^\s:]+(?::[^\s]+)?: )+")


def norm_msg(msg: str) -> str:
    m = _PREFIX.sub("", msg.strip())
    m = re.sub(r"https?://[^\s\"']+", "URL", m)
    m = re.sub(r"(?<![\w])/[\w./%-]+(?:\?[^\s\"']*)?", "PATH", m)
    m = re.sub(r"\b\d{4}-\d\d-\d\d[T ]\d\d:\d\d:\d\d(?:\.\d+)?(?:Z|[+-]\d\d:\d\d)?", "TS", m)
    m = re.sub(r"\bs[0-9a-f]{14}\w*", "REP", m)
    m = re.sub(r"\b(?:bbb|tears)_\w+", "REP", m)
    m = re.sub(r"\b[0-9a-fA-F]{8}-[0-9a-fA-F-]{27}\b", "UUID", m)
    m = re.sub(r"-?\d+(?:\.\d+)?(?:e[+-]?\d+)?", "N", m)
    m = re.sub(r"\s+", " ", m)
    return m[:110]


_BARE = re.compile(r"^(?:N|None|True|False|\w+) (?:!~=|!=) (?:N|None|True|False|\w+)$")
_src_cache: dict = {}


def call_text(err) -> str:
    """First argument of the check call that produced a message-less error ('self.expected_duration'), read from
    the validator's source at the recorded line: names the check without depending on line numbers."""
    from .. import deps
    key = (err.assertion.filename, err.assertion.lineno)
    if key not in _src_cache:
        text = ""
        try:
            path = next(deps.REPO.glob(f"dashlive/mpeg/dash/validator/{err.assertion.filename}"))
            lines = path.read_text().splitlines()
            chunk = " ".join(x.strip() for x in lines[err.assertion.lineno - 1:err.assertion.lineno + 2])
            m = re.search(r"(check_\w+)\(\s*([^,()]+(?:\([^()]*\))?[^,()]*)", chunk)
            if m:
                text = f"{m.group(1)}({m.group(2).strip()})"
        except Exception:           # noqa: BLE001
            text = ""
        _src_cache[key] = text
    return _src_cache[key]


def error_sig(err) -> str:
    msg = norm_msg(err.msg)
    if _BARE.match(msg):
        extra = call_text(err)
        if extra:
            msg = f"{msg} [{extra}]"
    return f"{err.assertion.filename}:{err.assertion.qualname}/{msg}"


def describe(p: Params) -> str:
    return f"T={p.T.isoformat()} {p.url} mode={p.mode} encrypted={p.encrypted} duration={p.duration}s"


def common_classes(out: Outcome, p: Params, case) -> None:
    from .. import session
    out.cls("tpl:" + case["template"], "mode:" + case["mode"], "stream:" + session.stream_label(case["stream"]),
            "drm:" + ("none" if not p.encrypted else case["opts"].get("drm", "").split("-")[0].split(",")[0]),
            "dur:%d" % case["dur_segs"])
    for k in ("timeline", "events", "patch", "abr", "base", "time"):
        if k in case["opts"]:
            out.cls(f"opt:{k}={case['opts'][k]}" if k != "events" else "opt:events")


def session_classes(out: Outcome, run, tag: str = "") -> None:
    if run.refreshes:
        out.cls(tag + "refresh")
        if run.patched:
            out.cls(tag + "patched-refresh")
    else:
        out.cls(tag + "single-pass")


# ====================================================================== classification of fetched responses

def sniff(f):
    """'manifest' | 'patch' | 'init' | 'media' | 'other' from the body alone (independent reader)."""
    from .. import isobox
    b = f.body
    if f.status not in (200, 206) or not b:
        return "other"
    head = b[:600].lstrip()
    if head.startswith(b"<"):
        if b"<MPD" in head or b":MPD" in head:
            return "manifest"
        if b"Patch" in head:
            return "patch"
        return "other"
    try:
        root = isobox.Root(b)
    except Exception:               # noqa: BLE001
        return "other"
    types = [c.type for c in root.children]
    if b"moov" in types:
        return "init"
    if b"moof" in types and b"mdat" in types:
        return "media"
    return "other"


class Doc:
    """Independent view of one manifest text: line ranges and URL ownership of its Representations."""

    def __init__(self, lines: list[str], url: str):
        from lxml import etree
        from .. import mpd
        self.lines = lines
        self.text = "\n".join(lines)
        self.url = url
        self.root = etree.fromstring(self.text.encode("utf-8"))
        self.tree = self.root.getroottree()
        self.reps = []
        try:
            self.mpd = mpd.MPD(self.text.encode("utf-8"), url)
        except Exception:           # noqa: BLE001
            self.mpd = None
        if self.mpd is not None:
            for r in self.mpd.reps:
                info = {"el": r.el, "aset": r.aset, "id": r.id, "base": r.base, "init": None, "media_re": None}
                try:
                    info["init"] = r.init_url()
                except Exception:   # noqa: BLE001
                    pass
                try:
                    if r.template is not None and r.template.media:
                        u = r.media_url(number=987654321, time=987654321)
                        info["media_re"] = re.compile("^" + re.escape(u).replace("987654321", r"0*(\d+)") + "$")
                except Exception:   # noqa: BLE001
                    pass
                self.reps.append(info)

    # ---- lines
    def last_line(self, el) -> int:
        m = el.sourceline or 0
        for d in el.iterdescendants():
            if d.sourceline and d.sourceline > m:
                m = d.sourceline
        return m

    def head_first(self, el) -> int:
        from lxml import etree
        line = el.sourceline or 1
        name = etree.QName(el).localname
        pat = re.compile(r"<(?:[\w.-]+:)?" + re.escape(name) + r"(?:[\s/>]|$)")
        for i in range(min(line, len(self.lines)), 0, -1):
            if pat.search(self.lines[i - 1]):
                return i
        return line

    def head(self, el):
        return (self.head_first(el), el.sourceline or self.head_first(el))

    def end_line(self, el) -> int:
        """line of the end tag (the last start-tag line for an empty element)"""
        from lxml import etree
        last = self.last_line(el)
        if len(el) == 0 and not (el.text or "").strip():
            return last
        pat = re.compile(r"</(?:[\w.-]+:)?" + re.escape(etree.QName(el).localname) + r"\s*>")
        for i in range(last, len(self.lines) + 1):
            if pat.search(self.lines[i - 1]):
                return i
        return last

    def span(self, el):
        return (self.head_first(el), self.end_line(el))

    # ---- ownership
    def owner(self, f):
        """Representation info owning a fetched URL (init or media), or None."""
        for info in self.reps:
            if info["init"] == f.url and f.range is None:
                return info, None
        for info in self.reps:
            if info["media_re"] is not None:
                mt = info["media_re"].match(f.url)
                if mt:
                    return info, int(mt.group(1)) if mt.groups() else 0
        for info in self.reps:
            if info["base"] == f.url and f.range is not None:
                return info, int(f.range.split("=")[-1].split("-")[0])
        return None, None

    def rep_by_id(self, rid):
        for info in self.reps:
            if info["id"] == rid:
                return info
        return None


def _overlap(a, b) -> bool:
    return not (a[1] < b[0] or b[1] < a[0])


def _inside(a, b) -> bool:
    return b[0] <= a[0] and a[1] <= b[1]


def _loc(err):
    loc = err.location
    if loc is None or loc[0] is None:
        return None
    end = loc[1] if loc[1] is not None else loc[0]
    return (loc[0], max(loc[0], end))


def located_segment(doc: Doc, rep_id: str, err) -> bool:
    loc = _loc(err)
    info = doc.rep_by_id(rep_id)
    if loc is None or info is None:
        return False
    a = info["aset"]
    if not _inside(loc, doc.span(a)):
        return False
    if _overlap(loc, doc.span(info["el"])) or _overlap(loc, doc.head(a)):
        return True
    for tag in ("SegmentTemplate", "SegmentList", "SegmentBase"):
        t = a.find(Q + tag)
        if t is not None and _overlap(loc, doc.span(t)):
            return True
    return False


def _scope(el):
    cur = el
    while cur is not None:
        if cur.tag in (Q + "AdaptationSet", Q + "Period", Q + "MPD"):
            return cur
        cur = cur.getparent()
    return el.getroottree().getroot()


def located_manifest(doc: Doc, el, err, use_head: bool) -> bool:
    loc = _loc(err)
    if loc is None or el is None:
        return False
    scope = _scope(el)
    if not _inside(loc, doc.span(scope)):
        return False
    if _overlap(loc, doc.head(el) if use_head else doc.span(el)):
        return True
    if el.tag == Q + "SegmentTimeline" and el.getparent() is not None and _overlap(loc, doc.span(el.getparent())):
        return True
    # Representations that are, contain or inherit from the element
    reps = []
    cur = el
    while cur is not None and cur.tag != Q + "Representation":
        cur = cur.getparent()
    if cur is not None:
        reps = [cur]
    elif scope.tag == Q + "AdaptationSet" and el is not scope:
        reps = scope.findall(Q + "Representation")
    return any(_overlap(loc, doc.span(r)) for r in reps)


# ====================================================================== corruption catalogue (independent writers)

class NotApplicable(Exception):
    pass


def _moof_parts(body: bytes):
    from .. import isobox
    root = isobox.Root(body)
    moof = next((b for b in root.children if b.type == b"moof"), None)
    mdat = next((b for b in root.children if b.type == b"mdat"), None)
    if moof is None or mdat is None:
        raise NotApplicable("no moof/mdat")
    traf = moof.find(b"traf")
    if traf is None:
        raise NotApplicable("no traf")
    return root, moof, mdat, traf


def read_media(body: bytes) -> dict:
    """Independent facts about one media segment body."""
    from .. import isobox
    root, moof, mdat, traf = _moof_parts(body)
    mfhd, tfdt, trun, saio = moof.find(b"mfhd"), traf.find(b"tfdt"), traf.find(b"trun"), traf.find(b"saio")
    out = {"seq": isobox.mfhd_seq(mfhd) if mfhd is not None else None,
           "tfdt": isobox.tfdt_time(tfdt)[1] if tfdt is not None else None,
           "tfdt_v": isobox.tfdt_time(tfdt)[0] if tfdt is not None else None,
           "moof_start": moof.start, "mdat_start": mdat.start, "mdat_hdr": mdat.hdr, "mdat_end": mdat.end,
           "has_saio": saio is not None, "has_senc": traf.find(b"senc") is not None, "trun_offset": None}
    out["max_sample_dur"] = None
    out["dur"] = None
    if trun is not None:
        t = isobox.trun(trun)
        out["trun_offset"] = t["data_offset"]
        out["samples"] = len(t["samples"])
        th = traf.find(b"tfhd")
        dflt = isobox.tfhd(th).get("default_sample_duration") if th is not None else None
        durs = [x.get("duration", dflt) for x in t["samples"]]
        if durs and all(d is not None for d in durs):
            out["max_sample_dur"] = max(durs)
            out["dur"] = sum(durs)
    if saio is not None:
        out["saio"] = isobox.saio(saio)
    return out


def corrupt_tfdt(body: bytes, delta: int) -> bytes:
    from .. import isobox
    _, _, _, traf = _moof_parts(body)
    tfdt = traf.find(b"tfdt")
    if tfdt is None:
        raise NotApplicable("no tfdt")
    v, cur = isobox.tfdt_time(tfdt)
    new = cur + delta
    limit = (1 << 64) if v == 1 else (1 << 32)
    if new < 0 or new >= limit or new == cur:
        raise NotApplicable("shift out of range")
    buf = bytearray(body)
    struct.pack_into(">Q" if v == 1 else ">I", buf, tfdt.start + tfdt.hdr + 4, new)
    return bytes(buf)


def corrupt_mfhd(body: bytes, value: int) -> bytes:
    _, moof, _, _ = _moof_parts(body)
    mfhd = moof.find(b"mfhd")
    if mfhd is None or not 0 <= value < (1 << 32):
        raise NotApplicable("no mfhd")
    buf = bytearray(body)
    struct.pack_into(">I", buf, mfhd.start + mfhd.hdr + 4, value)
    return bytes(buf)


def corrupt_trun(body: bytes, variant: int) -> bytes:
    """Move trun.data_offset so that the sample data no longer lies inside the mdat payload."""
    from .. import isobox
    _, moof, mdat, traf = _moof_parts(body)
    trun = traf.find(b"trun")
    if trun is None:
        raise NotApplicable("no trun")
    t = isobox.trun(trun)
    if t["data_offset"] is None:
        raise NotApplicable("trun without data_offset")
    payload = mdat.end - (mdat.start + mdat.hdr)
    delta = [payload + 1,                               # first sample just past the end of the mdat
             payload + 4096,                            # far past the end
             -(mdat.start + mdat.hdr - moof.start),     # first sample at the start of the moof
             -8,                                        # first sample at the mdat header
             max(1, payload // 2)][variant % 5]         # starts inside, runs over the end
    new = t["data_offset"] + delta
    if not -(1 << 31) <= new < (1 << 31):
        raise NotApplicable("offset out of range")
    buf = bytearray(body)
    struct.pack_into(">i", buf, trun.start + trun.hdr + 4 + 4, new)
    return bytes(buf)


def corrupt_saio(body: bytes, variant: int) -> bytes:
    from .. import isobox
    _, _, _, traf = _moof_parts(body)
    saio = traf.find(b"saio")
    if saio is None:
        raise NotApplicable("no saio")
    s = isobox.saio(saio)
    if not s["offsets"]:
        raise NotApplicable("saio without entries")
    delta = [1, -1, 8, 16, 4096, -8][variant % 6]
    new = s["offsets"][0] + delta
    wide = s["version"] == 1
    if new < 0 or new >= (1 << (64 if wide else 32)):
        raise NotApplicable("offset out of range")
    p = saio.start + saio.hdr + 4 + (8 if s["flags"] & 1 else 0) + 4
    buf = bytearray(body)
    struct.pack_into(">Q" if wide else ">I", buf, p, new)
    return bytes(buf)


def find_init_box(body: bytes, path):
    from .. import isobox
    root = isobox.Root(body)
    if path[0] == "*":
        cands = root.all(path[1].encode())
        if not cands:
            return None
        return cands[0].find(*[p.encode() for p in path[2:]]) if len(path) > 2 else cands[0]
    return root.find(*[p.encode() for p in path])


def remove_box(body: bytes, path) -> bytes:
    """Cut one box out and shrink the 32-bit size field of every ancestor."""
    box = find_init_box(body, path)
    if box is None:
        raise NotApplicable("box absent")
    buf = bytearray(body)
    anc = box.parent
    while anc is not None:
        if anc.hdr not in (8, 24) or struct.unpack_from(">I", buf, anc.start)[0] in (0, 1):
            raise NotApplicable("ancestor with large/open size")
        struct.pack_into(">I", buf, anc.start, anc.size - box.size)
        anc = anc.parent
    del buf[box.start:box.end]
    return bytes(buf)


def init_box_candidates(body: bytes):
    out = []
    for i, path in enumerate(INIT_BOXES):
        try:
            if find_init_box(body, path) is not None:
                out.append(i)
        except Exception:           # noqa: BLE001
            return []
    return out


# ---- manifest writers (lxml on the served bytes)

def _parse_xml(body: bytes):
    from lxml import etree
    return etree.fromstring(body)


def _serialise(root) -> bytes:
    from lxml import etree
    return etree.tostring(root.getroottree(), xml_declaration=True, encoding="UTF-8")


def attr_targets(root) -> list[tuple[str, str, str]]:
    """(element path, attribute, 'Element@attribute') of every mandatory attribute present in this document."""
    from lxml import etree
    tree = root.getroottree()
    out = []
    dynamic = root.get("type") == "dynamic"

    def add(el, attr):
        if el.get(attr) is not None:
            out.append((tree.getpath(el), attr, f"{etree.QName(el).localname}@{attr}"))
    add(root, "profiles")
    add(root, "minBufferTime")
    if dynamic:
        if root.get("minimumUpdatePeriod") is not None:
            add(root, "type")
        add(root, "availabilityStartTime")
        add(root, "publishTime")
        for p in root.findall(Q + "Period"):
            add(p, "id")
    for a in root.iter(Q + "AdaptationSet"):
        reps = a.findall(Q + "Representation")
        for r in reps:
            add(r, "id")
            add(r, "bandwidth")
            if a.get("mimeType") is None:
                add(r, "mimeType")
        if a.get("mimeType") is not None and reps and all(r.get("mimeType") is None for r in reps):
            add(a, "mimeType")
    for tl in root.iter(Q + "SegmentTimeline"):
        for s in tl.findall(Q + "S"):
            add(s, "d")
    for name in DESCRIPTORS:
        for d in root.iter(Q + name):
            add(d, "schemeIdUri")
    return out


def corrupt_attr(body: bytes, path: str, attr: str) -> bytes:
    root = _parse_xml(body)
    els = root.getroottree().xpath(path)
    if len(els) != 1 or els[0].get(attr) is None:
        raise NotApplicable("attribute absent")
    del els[0].attrib[attr]
    return _serialise(root)


def timeline_targets(root) -> list[str]:
    tree = root.getroottree()
    return [tree.getpath(t) for t in root.iter(Q + "SegmentTimeline") if len(t.findall(Q + "S")) > 0]


def expand_timeline(tl):
    out, t = [], None
    for s in tl.findall(Q + "S"):
        d = int(s.get("d"))
        if s.get("t") is not None:
            t = int(s.get("t"))
        elif t is None:
            t = 0
        r = int(s.get("r", "0"))
        if r < 0:
            raise NotApplicable("open-ended repeat")
        for _ in range(r + 1):
            out.append([t, d])
            t += d
    return out


def corrupt_timeline(body: bytes, path: str, index: int, variant: int) -> tuple[bytes, str]:
    """Re-write one SegmentTimeline with every entry explicit and the entries from `index` on moved."""
    from lxml import etree
    root = _parse_xml(body)
    els = root.getroottree().xpath(path)
    if len(els) != 1:
        raise NotApplicable("timeline absent")
    tl = els[0]
    entries = expand_timeline(tl)
    if len(entries) < 2:
        raise NotApplicable("single entry")
    i = 1 + index % (len(entries) - 1)
    d = entries[i - 1][1]
    kind, amount = TIMELINE_VARIANTS[variant % len(TIMELINE_VARIANTS)]
    amount = max(1, int(amount * d))
    shift = amount if kind == "gap" else -amount
    if entries[i][0] + shift < 0:
        raise NotApplicable("negative start")
    for e in entries[i:]:
        e[0] += shift
    tail = tl[-1].tail if len(tl) else None
    for s in list(tl):
        tl.remove(s)
    for t, dd in entries:
        s = etree.SubElement(tl, Q + "S")
        s.set("t", str(t))
        s.set("d", str(dd))
        s.tail = "\n"
    if len(tl):
        tl[-1].tail = tail
    return _serialise(root), f"{kind}"


def corrupt_ast(body: bytes, variant: int) -> bytes:
    import datetime as dt
    from .. import clock
    root = _parse_xml(body)
    cur = root.get("availabilityStartTime")
    if cur is None:
        raise NotApplicable("no availabilityStartTime")
    try:
        val = clock.parse_iso(cur if re.search(r"(Z|[+-]\d\d:\d\d)$", cur) else cur + "Z")
    except ValueError:
        raise NotApplicable("unreadable availabilityStartTime")
    delta = [1, -1, 4, -60, 3600, -86400][variant % 6]
    root.set("availabilityStartTime", clock.iso(val + dt.timedelta(seconds=delta)))
    return _serialise(root)


# ====================================================================== eligibility + application

class Plan:
    """One concrete corruption: which response, how, and how to judge the location."""

    def __init__(self, kind, key, fn, detail, rep_id=None, xml_path=None, use_head=False, step=0):
        self.kind, self.key, self.fn, self.detail = kind, key, fn, detail
        self.rep_id, self.xml_path, self.use_head, self.step = rep_id, xml_path, use_head, step


def _sorted(fetches):
    return sorted(fetches, key=lambda f: (f.step, f.url, f.range or "", f.occ))


def doc_for_step(run, step: int, url: str, cache: dict):
    """The manifest the validator was working from while it made the requests of loop step `step`."""
    gens = sorted(run.documents)
    if not gens:
        return None
    g = max([x for x in gens if x <= max(0, step - 1)] or [gens[0]])
    if g not in cache:
        try:
            cache[g] = Doc(run.documents[g], url)
        except Exception:           # noqa: BLE001
            cache[g] = None
    return cache[g]


def media_table(run, url: str, cache: dict):
    """rep id -> sorted [(order key, fetch, facts)] for every media segment read in the session."""
    table: dict[str, list] = {}
    for f in _sorted(run.fetches):
        if f.method != "GET" or sniff(f) != "media":
            continue
        doc = doc_for_step(run, f.step, url, cache)
        if doc is None:
            continue
        info, order = doc.owner(f)
        if info is None or order is None:
            continue
        try:
            facts = read_media(f.body)
        except Exception:           # noqa: BLE001
            continue
        table.setdefault(info["id"], []).append((order, f, facts))
    for rows in table.values():
        rows.sort(key=lambda r: (r[0], r[1].step))
    return table


def plan(kind: str, sel: int, var: int, run, p: Params, cache: dict, focus: str | None = None) -> Plan | None:
    """Choose the response and build the rewrite from what pass 1 fetched.  None = kind not applicable."""
    url = p.url
    fetches = [f for f in _sorted(run.fetches) if f.method == "GET"]
    if kind in ("tfdt", "mfhd", "trun-offset", "saio-offset"):
        table = media_table(run, url, cache)
        cands = []
        for rid in sorted(table):
            rows = table[rid]
            seen = set()
            for i, (order, f, facts) in enumerate(rows):
                if f.key in seen:
                    continue
                seen.add(f.key)
                prev = rows[i - 1] if i > 0 and rows[i - 1][0] < order else None
                nxt = rows[i + 1] if i + 1 < len(rows) and rows[i + 1][0] > order else None
                if kind in ("tfdt", "mfhd") and prev is None and nxt is None:
                    continue
                if kind == "tfdt" and facts["tfdt"] is None:
                    continue
                if kind == "mfhd" and facts["seq"] is None:
                    continue
                if kind == "trun-offset" and facts["trun_offset"] is None:
                    continue
                if kind == "saio-offset" and not (facts["has_saio"] and facts.get("saio", {}).get("offsets")):
                    continue
                cands.append((rid, f, facts, prev, nxt))
        if not cands:
            return None
        if focus == "after-refresh":
            # the first segment a Representation reads in a pass that follows a manifest refresh: its expectations
            # have to be carried over from the segments kept from the previous manifest
            late = [c for c in cands if c[1].step >= 2 and (c[3] is None or c[3][1].step < c[1].step)]
            if late:
                cands = late
        rid, f, facts, prev, nxt = cands[sel % len(cands)]
        addr = "range"
        if f.range is None:
            d0 = doc_for_step(run, f.step, url, cache)
            r0 = next((r for r in d0.mpd.reps if r.id == rid), None) if d0 is not None and d0.mpd is not None else None
            addr = "time" if r0 is not None and r0.uses_time else "number"
        if kind == "tfdt":
            doc = doc_for_step(run, f.step, url, cache)
            info = doc.rep_by_id(rid)
            ts = _media_timescale(run, doc, info) or 1
            seg_ticks = None
            if nxt is not None and nxt[2]["tfdt"] is not None and nxt[2]["tfdt"] > facts["tfdt"]:
                seg_ticks = nxt[2]["tfdt"] - facts["tfdt"]
            elif prev is not None and prev[2]["tfdt"] is not None and facts["tfdt"] > prev[2]["tfdt"]:
                seg_ticks = facts["tfdt"] - prev[2]["tfdt"]
            seg_ticks = seg_ticks or int(p.seg_s * ts)
            # "small" = clearly outside the validator's tolerance of one or two frames: 0.25 s and 3 sample durations
            frame = facts["max_sample_dur"] if facts["max_sample_dur"] else seg_ticks
            small = max(1, ts // 4, 3 * frame)
            choices = [seg_ticks, -seg_ticks, 10 * seg_ticks, max(small, seg_ticks * 4 // 5), -max(small, seg_ticks * 4 // 5)]
            # shifts below 0.75 segment are only a violation the validator can see when the segment read just before
            # is the immediate predecessor in the track (continuity of tfdt + sample durations)
            adjacent = (prev is not None and prev[2]["tfdt"] is not None and prev[2]["dur"] is not None
                        and prev[2]["tfdt"] + prev[2]["dur"] == facts["tfdt"])
            if adjacent:
                choices += [small, -small, max(ts, small), -max(ts, small)]
            delta = choices[var % len(choices)]
            if facts["tfdt"] + delta < 0:
                delta = abs(delta)
            size = "lt-seg" if abs(delta) < seg_ticks * 3 // 4 else "ge-seg"
            pos = "first" if prev is None else "later"
            return Plan(kind, f.key, lambda b, d=delta: corrupt_tfdt(b, d), f"{addr}/{pos}/{size}", rep_id=rid, step=f.step)
        if kind == "mfhd":
            if prev is not None and prev[2]["seq"] is not None:
                base = prev[2]["seq"]
                value = max(0, [base, base - 1, 0][var % 3])
                how = "le-previous"
            elif nxt is not None and nxt[2]["seq"] is not None:
                base = nxt[2]["seq"]
                value = [base, base + 1, base + 1000][var % 3]
                how = "ge-next"
            else:
                return None
            if value == facts["seq"]:
                value = value - 1 if how == "le-previous" and value > 0 else value + 1 if how == "ge-next" else None
                if value is None:
                    return None
            return Plan(kind, f.key, lambda b, v=value: corrupt_mfhd(b, v), f"{addr}/{how}", rep_id=rid, step=f.step)
        if kind == "trun-offset":
            names = ["past-end", "far-past-end", "at-moof", "at-mdat-header", "runs-over-end"]
            return Plan(kind, f.key, lambda b, v=var: corrupt_trun(b, v), names[var % 5], rep_id=rid, step=f.step)
        return Plan(kind, f.key, lambda b, v=var: corrupt_saio(b, v), "", rep_id=rid, step=f.step)
    if kind == "init-box":
        cands = []
        for f in fetches:
            if sniff(f) != "init" or f.occ != 0:
                continue
            doc = doc_for_step(run, f.step, url, cache)
            if doc is None:
                continue
            info, _ = doc.owner(f)
            if info is None and f.range is not None:
                info = next((r for r in doc.reps if r["base"] == f.url), None)
            if info is None:
                continue
            boxes = init_box_candidates(f.body)
            if boxes:
                cands.append((info["id"], f, boxes))
        if not cands:
            return None
        rid, f, boxes = cands[sel % len(cands)]
        path = INIT_BOXES[boxes[var % len(boxes)]]
        return Plan(kind, f.key, lambda b, pth=path: remove_box(b, pth), path[-1], rep_id=rid, step=f.step)
    # ---- manifest kinds
    manifests = [f for f in fetches if f.url == url and sniff(f) == "manifest"]
    if kind == "ast-changed":
        later = [f for f in manifests if f.occ >= 1]
        if not later:
            return None
        f = later[sel % len(later)]
        return Plan(kind, f.key, lambda b, v=var: corrupt_ast(b, v), "", xml_path="/*", use_head=True, step=f.step)
    if not manifests:
        return None
    f = manifests[sel % len(manifests)]
    try:
        root = _parse_xml(f.body)
    except Exception:               # noqa: BLE001
        return None
    if kind == "mpd-attr":
        targets = attr_targets(root)
        if not targets:
            return None
        # group by element@attribute class first so that rare classes are reached as often as S@d
        classes = sorted({c for _, _, c in targets})
        cls = classes[var % len(classes)]
        members = [(pth, a) for pth, a, c in targets if c == cls]
        pth, a = members[(sel // max(1, len(manifests))) % len(members)]
        head = cls.split("@")[0] in ("MPD", "Period", "AdaptationSet", "Representation")
        return Plan(kind, f.key, lambda b, x=pth, y=a: corrupt_attr(b, x, y), cls, xml_path=pth, use_head=head, step=f.step)
    if kind == "timeline":
        targets = timeline_targets(root)
        if not targets:
            return None
        # only entries the validator reads while this document is in force: entry i (i >= 1) of a timeline is
        # eligible when pass 1 fetched, in the loop step after this manifest, the segment it addresses; a gap
        # must in addition leave the moved entry no later than the newest entry fetched in that step (otherwise
        # the corrupted document itself says the segment is not available yet and the validator rightly waits)
        what, amount = TIMELINE_VARIANTS[var % len(TIMELINE_VARIANTS)]
        table = media_table(run, url, cache)
        doc = doc_for_step(run, f.step + 1, url, cache)
        elig = []
        if doc is not None and doc.mpd is not None:
            mtree = doc.mpd.root.getroottree()
            for pth in targets:
                els = doc.tree.xpath(pth)
                if len(els) != 1:
                    continue
                try:
                    entries = expand_timeline(els[0])
                except Exception:   # noqa: BLE001
                    continue
                for r in doc.mpd.reps:
                    if r.template is None or r.template.timeline_el is None or \
                            mtree.getpath(r.template.timeline_el) != pth:
                        continue
                    got = {o for o, ff, _ in table.get(r.id, []) if ff.step == f.step + 1}
                    keys = [e[0] if r.uses_time else r.template.start_number + i if r.uses_number else None
                            for i, e in enumerate(entries)]
                    newest = max((entries[i][0] for i, k in enumerate(keys) if k in got), default=None)
                    for i in range(1, len(entries)):
                        if keys[i] not in got or (pth, i) in elig:
                            continue
                        if what == "gap" and p.mode == "live" and \
                                entries[i][0] + max(1, int(amount * entries[i - 1][1])) > newest:
                            continue
                        elig.append((pth, i))
        if not elig:
            return None
        pth, idx = elig[(sel // max(1, len(manifests))) % len(elig)]

        def fn(b, x=pth, i=idx - 1, v=var):
            out, _ = corrupt_timeline(b, x, i, v)
            return out
        return Plan(kind, f.key, fn, f"{what}/{amount}seg", xml_path=pth, use_head=False, step=f.step)
    return None


def _media_timescale(run, doc, info):
    """mdhd timescale of the Representation's init segment as fetched in this session (independent read)."""
    from .. import isobox
    if info is None:
        return None
    for f in run.fetches:
        if f.url == info["init"] or (f.range is not None and f.url == info["base"]):
            if sniff(f) == "init":
                try:
                    root = isobox.Root(f.body)
                    mh = root.find(b"moov", b"trak", b"mdia", b"mdhd")
                    if mh is not None:
                        return isobox.mdhd(mh)["timescale"]
                except Exception:       # noqa: BLE001
                    return None
    return None


def judge(pl: Plan, run2, p: Params, out: Outcome, where: str) -> None:
    """Oracle of the detection side for one applied corruption."""
    kind = pl.kind
    tag = f"{kind}/{pl.detail}" if pl.detail else kind
    # the context a validator gap is confined to is part of its name (as for the accept side)
    tag += "@" + (p.stream if p.stream in ("bbb", "tears") else "synthetic")
    if p.mup_s and p.tsbd_s and p.mup_s > p.tsbd_s:
        tag += "/mup>depth"
    if run2.abort == "wall-clock":
        out.trivial = "inconclusive-timeout"
        return
    if not run2.applied:
        out.cls("not-consumed:" + kind)
        return
    out.cls("applied:" + kind)
    out.nontrivial = True
    if run2.exc is not None:
        out.fail(f"detect/raises/{type(run2.exc).__name__}@{run2.exc_where}",
                 f"{where} corruption {tag} on {pl.key}: the validator raised instead of reporting: "
                 f"{type(run2.exc).__name__}: {run2.exc}\n{run2.exc_tb}")
        return
    if run2.abort is not None and not run2.errors:
        if run2.abort == "iteration-budget" and p.degenerate_depth():
            out.cls("degenerate-depth")
            return
        out.fail(f"detect/does-not-terminate/{kind}", f"{where} corruption {tag} on {pl.key}: {run2.abort} after "
                 f"{run2.iterations} iterations, {len(run2.fetches)} requests, no error reported")
        return
    if not run2.errors:
        out.fail(f"missed/{tag}", f"{where} corruption {tag} on {pl.key} (loop step {pl.step}): validator finished="
                 f"{run2.finished} after {run2.iterations} iterations and reported no error")
        return
    docs: dict = {}
    good = False
    for err, gen in run2.located:
        if gen not in docs:
            try:
                docs[gen] = Doc(run2.documents[gen], p.url)
            except Exception:       # noqa: BLE001
                docs[gen] = None
        doc = docs[gen]
        if doc is None:
            continue
        if pl.rep_id is not None:
            ok = located_segment(doc, pl.rep_id, err)
        else:
            els = doc.tree.xpath(pl.xml_path) if pl.xml_path else []
            ok = bool(els) and located_manifest(doc, els[0], err, pl.use_head)
        if ok:
            good = True
            break
    if not good:
        why = ""
        if any(_loc(e) is None for e, _ in run2.located):
            why = "/no-location"
        elif pl.rep_id is not None:
            # an error object created for an EARLIER manifest text keeps that text's line numbers
            for err, gen in run2.located:
                for g in sorted(run2.documents):
                    if g >= gen:
                        break
                    if g not in docs:
                        try:
                            docs[g] = Doc(run2.documents[g], p.url)
                        except Exception:   # noqa: BLE001
                            docs[g] = None
                    if docs[g] is not None and located_segment(docs[g], pl.rep_id, err):
                        why = "/stale-line-numbers"
        tag = tag + why
        shown = "; ".join(f"{e.location} {e.assertion.filename}:{e.assertion.qualname} {e.msg[:90]}" for e, _ in run2.located[:4])
        out.fail(f"mislocated/{tag}", f"{where} corruption {tag} on {pl.key} target "
                 f"{pl.rep_id or pl.xml_path}: {len(run2.errors)} error(s), none at the element: {shown}")
    else:
        out.cls("detected:" + kind)


# ====================================================================== checks

def check_accept(case) -> Outcome:
    from .. import app
    env = app.shared_env()
    out = Outcome()
    p = Params(env, case)
    common_classes(out, p, case)
    run = run_session(env, p)
    judge_accept(run, p, out)
    return out


def judge_accept(run, p: Params, out: Outcome) -> bool:
    """True when the pristine session is clean (finished, no error, no exception)."""
    where = describe(p)
    out.weight = max(1, len(run.fetches))
    if run.manifest_status != 200:
        out.trivial = f"manifest-{run.manifest_status}"
        out.note("manifest-not-200", f"{run.manifest_status} {p.case['template']} {p.mode} "
                 + " ".join(sorted(k for k in p.case["opts"])))
        return False
    if run.abort == "wall-clock":
        out.trivial = "inconclusive-timeout"
        return False
    session_classes(out, run)
    kinds = {sniff(f) for f in run.fetches}
    out.nontrivial = "init" in kinds and "media" in kinds
    bad5 = [f for f in run.fetches if f.status >= 500]
    if bad5:
        out.cls("server-5xx-inside-session")
    if run.exc is not None:
        out.fail(f"accept/raises/{type(run.exc).__name__}@{run.exc_where}",
                 f"{where}: {type(run.exc).__name__}: {run.exc} after {run.iterations} iterations, "
                 f"{run.refreshes} refreshes\n{run.exc_tb}")
        return False
    seen = {}
    # the context a root cause is confined to is part of its name, so that a listed finding about synthetic media (or
    # about one vendor template) cannot hide the same message on a fixture stream (or another template)
    kind = p.stream if p.stream in ("bbb", "tears") else "synthetic"
    for e in run.errors:
        sig = "accept/" + error_sig(e) + "@" + kind
        if "publishTime must be present" in e.msg:
            sig += "/" + p.case["template"]
        if ("Decode time" in e.msg or "Based upon segment number" in e.msg) and p.loops >= 500:
            # $Number$ addressing after hundreds of loops of a track whose own duration differs from the reference:
            # number x @duration and the served (accumulated) decode time have drifted apart by a segment
            sig += "/loops>=500"
        if "Missing segment" in e.msg and p.degenerate_depth():
            sig += "/degenerate-depth"
        elif "Missing segment" in e.msg and any("availabilityStartTime has changed" in x.msg for x in run.errors):
            # the validator went on asking for the segments of the previous manifest, whose URLs carry the old start
            sig += "/after-ast-change"
        if "Sequence number error" in e.msg and p.mup_s and p.tsbd_s and p.mup_s > p.tsbd_s:
            # the refreshed manifest no longer overlaps the previous one: segments were skipped between the two
            sig += "/mup>depth"
        seen.setdefault(sig, f"{where}: [{e.location}] {e.msg[:300]} (iteration {run.iterations}, "
                        f"{run.refreshes} refreshes, {len(run.errors)} errors in all)")
    for s, d in seen.items():
        out.fail(s, d)
        fixture = p.stream in ("bbb", "tears")
        out.note("accept-signature-by-context", f"{s[len('accept/'):][:120]} @ {p.mode}/"
                 f"{'fixture' if fixture else 'synthetic'}")
        if fixture:                 # rare and the most telling: keep the request itself for triage
            out.note("accept-violations-on-fixture-streams", f"{s[len('accept/'):][:80]} <- T={p.T.isoformat()} {p.url} D={p.duration}")
    if seen:
        return False
    if run.abort is not None or not run.finished:
        if p.degenerate_depth():
            out.trivial = "degenerate-depth-no-termination"
            return False
        kind = p.stream if p.stream in ("bbb", "tears") else "synthetic"
        # the validator only reads segments inside [now - depth + segment, now - segment]: narrower than one
        # segment when depth < 3 segments
        narrow = "/depth<3seg" if (p.tsbd_s and p.tsbd_s < 3 * p.max_seg_s) else ""
        out.fail(f"accept/does-not-terminate/{p.mode}@{kind}/{p.case['template']}{narrow}", f"{where}: {run.abort or 'not finished'} after {run.iterations} "
                 f"iterations, {run.refreshes} refreshes, {len(run.fetches)} requests, slept {run.slept:.1f}s "
                 f"(minimumUpdatePeriod {p.mup_s}, timeShiftBufferDepth {p.tsbd_s}, segment {p.seg_s}s)")
        return False
    if not run.loaded:
        out.fail("accept/load-failed", where)
        return False
    return True


def check_detect(case, own_pass1: bool = False) -> Outcome:
    from .. import app
    env = app.shared_env()
    out = Outcome()
    p = Params(env, case)
    common_classes(out, p, case)
    run1 = run_session(env, p)
    probe = Outcome()
    clean = judge_accept(run1, p, probe)
    out.weight = probe.weight
    if not clean:
        out.trivial = probe.trivial or "pass1-not-clean"
        if own_pass1:                       # the sweep also owns the pristine verdict of its sessions
            out.violations = list(probe.violations)
            out.nontrivial = probe.nontrivial
        return out
    session_classes(out, run1)
    budget = 2 * p.budget + 6               # pass 2: twice the pristine step budget; it must stop by itself
    where = describe(p)
    cache: dict = {}
    for c in case["corruptions"]:
        try:
            pl = plan(c["kind"], c["sel"], c["var"], run1, p, cache, c.get("focus"))
        except NotApplicable:
            pl = None
        if pl is None:
            out.cls("ineligible:" + c["kind"])
            continue

        def guarded(body, fn=pl.fn):
            try:
                return fn(body)
            except NotApplicable:
                return body
        # a body the writer cannot change is served unchanged -> detect it here, not as a miss
        f1 = next((f for f in run1.fetches if f.key == pl.key), None)
        if f1 is None or guarded(f1.body) == f1.body:
            out.cls("ineligible:" + c["kind"])
            continue
        run2 = run_session(env, p, rewrite=(pl.key, guarded), budget=min(100, budget))
        sub = Outcome()
        judge(pl, run2, p, sub, where)
        if sub.trivial and not out.trivial:
            out.trivial = sub.trivial
        sub.trivial = None
        out.merge(sub)
        out.weight += max(1, len(run2.fetches)) - 1
    seen = {}
    for s, d in out.violations:
        seen.setdefault(s, d)
    out.violations = list(seen.items())
    return out


# ====================================================================== engines

class Accept(Engine):
    name = "accept"

    def budget(self, tier):
        return 640 if tier == "quick" else 30_000

    def strategy(self, tier):
        from .. import app
        app.boot()
        return base_case_strategy()

    def check(self, case):
        return check_accept(case)


def steer(case: dict, kind: str, focus: str | None = None) -> dict:
    """Make the first corruption of the list applicable more often (deterministic edit of the case)."""
    from dashlive.server.manifests import manifest_map
    case = dict(case, opts=dict(case["opts"]))
    feats = manifest_map[case["template"]].features
    if kind == "saio-offset" and stream_has_enc(case["stream"]) and "drmSelection" in feats:
        if case["opts"].get("drm", "none") == "none":
            case["opts"]["drm"] = "all"
    if kind == "timeline" and "segmentTimeline" in feats:
        case["opts"]["timeline"] = "1"
    if focus == "after-refresh" and case["mode"] == "live":
        # several validate / sleep / refresh cycles, one or two new segments per refresh
        case["opts"].pop("patch", None)
        case["opts"]["depth"] = "30"
        case["opts"]["mup"] = "4" if case["dur_segs"] % 2 else "8"
        case["clock"] = dict(case["clock"], anchor="now")
        case["dur_segs"] = 8 + case["dur_segs"]
    if kind == "ast-changed" and case["mode"] == "live":
        case["opts"].pop("patch", None)
        case["opts"]["depth"] = case["opts"].get("depth") if case["opts"].get("depth") in ("12", "14", "18", "26") else "14"
        case["clock"] = dict(case["clock"], anchor="now")
        case["dur_segs"] = max(3, case["dur_segs"])
        if case["opts"].get("mup") in ("-1", "0"):
            case["opts"].pop("mup")
    return case


class Detect(Engine):
    name = "detect"

    def budget(self, tier):
        return 520 if tier == "quick" else 25_000

    def strategy(self, tier):
        from hypothesis import strategies as st
        from .. import app
        app.boot()
        pairs = template_modes()
        live_pairs = [pm for pm in pairs if pm[1] == "live"]
        plain = st.fixed_dictionaries({"kind": st.sampled_from(KINDS), "sel": st.integers(0, 10**6),
                                       "var": st.integers(0, 10**4)})
        focused = st.fixed_dictionaries({"kind": st.sampled_from(["tfdt", "mfhd", "tfdt", "mfhd", "trun-offset", "saio-offset"]),
                                         "sel": st.integers(0, 10**6), "var": st.integers(0, 10**4),
                                         "focus": st.just("after-refresh")})
        corr = st.one_of(plain, plain, plain, focused)
        k = 3

        def build(base_any, base_live, cs):
            focus = cs[0].get("focus")
            base = base_live if cs[0]["kind"] == "ast-changed" or focus else base_any
            case = steer(base, cs[0]["kind"], focus)
            if focus:       # the whole case is built for it
                cs = [dict(c, focus=focus) if c["kind"] in ("tfdt", "mfhd", "trun-offset", "saio-offset") else c for c in cs]
            case["corruptions"] = cs
            return case
        return st.builds(build, base_case_strategy(pairs, regular=True), base_case_strategy(live_pairs, regular=True),
                         st.lists(corr, min_size=k, max_size=k))

    def check(self, case):
        return check_detect(case)


class Sweep(Engine):
    """every (template, mode) x {clear, drm=all} on bbb, default options (timeline on where optional), each
    corruption kind once, plus the pristine judgement (accept) of the same session"""
    name = "sweep"
    kind = "enumerate"
    exhaustive = True

    def cases(self, tier):
        from .. import app
        app.boot()
        from dashlive.server.manifests import manifest_map
        # 3 loops + 4.5 segments after the start, window of 30 s: the validated range lies inside one loop of the
        # source (the start of a loop is where the server's $Time$ sequence numbers repeat, see the accept findings)
        clk = {"start": "explicit", "base_day": 19968, "base_sec": 35700, "offset_min": 0, "loops": 3, "k": 4,
               "anchor": "now", "phi": "half", "phi_us": 0}
        for name, mode in template_modes():
            feats = manifest_map[name].features
            variants = [{}]
            if "drmSelection" in feats:
                variants.append({"drm": "all"})
            if "segmentTimeline" in feats:
                variants.append({"timeline": "1"})
            for v in variants:
                opts = supported_options(name, mode, v, True)
                for refresh in ((False, True) if mode == "live" else (False,)):
                    o = dict(opts)
                    c = dict(clk)
                    if mode == "live":
                        o["depth"] = "14" if refresh else "30"
                    yield {"stream": "bbb", "template": name, "mode": mode, "opts": o, "clock": c,
                           "dur_segs": 4 if refresh else 2,
                           "corruptions": [{"kind": kd, "sel": s, "var": vv} for kd in KINDS
                                           for s, vv in ((0, 0), (5, 3))]}
                    if refresh:
                        # four or more refreshes with one new segment each; every media corruption aimed at the
                        # first segment read after a refresh
                        yield {"stream": "bbb", "template": name, "mode": mode, "opts": dict(o, depth="30", mup="4"),
                               "clock": c, "dur_segs": 12,
                               "corruptions": [{"kind": kd, "sel": s, "var": vv, "focus": "after-refresh"}
                                               for kd in ("tfdt", "mfhd", "trun-offset", "saio-offset")
                                               for s, vv in ((0, 0), (1, 1), (2, 2), (7, 3))]}

    def check(self, case):
        return check_detect(case, own_pass1=True)


ENGINES = [Sweep(), Accept(), Detect()]
