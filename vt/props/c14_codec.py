"""C14 (codec half) - encoding then parsing any SCTE-35 signal is the identity, and what the
encoder writes is a valid splice_info_section for an independent decoder.

A case is {"signals": [spec, ...]}; a spec is plain JSON that names the constructor
arguments of the repository's own classes (dashlive.scte35.*), byte strings as hex text:

  {"form": "objects" | "dicts",          how the BinarySignal is built (see build())
   "header": {...BinarySignal kwargs...},
   "command": "splice_null" | "splice_insert" | "time_signal" | "splice_schedule",
   "splice_insert" | "time_signal" | "splice_schedule": {...kwargs...},
   "descriptors": [{"kind": "avail|dtmf|segmentation|time|audio|private", "fields": {...}}]}

A key that is absent from a spec is not passed to the constructor; the value the signal then
has is the documented DEFAULT_VALUES entry (table DEFAULTS below), and that value is what the
oracles expect.

Oracles for every signal x:
  1 roundtrip    BinarySignal.parse(x.encode()) has every field of x with the same value
                 (the comparison tests/test_scte35.py makes: expected fields as a subset of the
                 parser's dictionary), and crc_valid is true
  2 independent  vt.scte.decode_section(x.encode()): CRC residue 0, section_length covers the
                 buffer, splice_command_length / descriptor_length / descriptor_loop_length
                 consistent, every field equals the generated value
  3 reencode     BinarySignal(**parse(encode(x))).encode() == encode(x) byte for byte

Signatures name a root-cause class:
  codec/<subject>/raises/<Exception>@<function>     the code under test raised on legal input
  roundtrip/<subject>/<field path>                  oracle 1
  independent/<subject>/<field path>                oracle 2, first diverging field of the subject
  independent/<subject>/undecodable/<kind>          oracle 2, the syntax cannot be walked
  reencode/<subject>/bytes-differ                   oracle 3
<subject> is header, a command name or descriptor:<kind>.  An exception is attributed by
re-running the parts of the signal separately (each descriptor on a splice_null carrier, the
signal without descriptors); the remainder of the signal is then still checked.
"""
from __future__ import annotations

import copy
import traceback

from ..runner import Engine, Outcome

CUEI = 0x43554549
SUB_SEGMENT_TYPES = (0x34, 0x36, 0x38, 0x3A)      # the ids for which descriptors.py carries sub-segments
KNOWN_SEG_TYPES = [0x00, 0x01, 0x10, 0x11, 0x20, 0x21, 0x22, 0x23, 0x30, 0x31, 0x32, 0x33, 0x34, 0x35, 0x36,
                   0x37, 0x38, 0x39, 0x3A, 0x3B, 0x40, 0x41, 0x44, 0x45, 0x46, 0x47, 0x50, 0x51]
DESCRIPTOR_TAGS = {"avail": 0, "dtmf": 1, "segmentation": 2, "time": 3, "audio": 4}
DESCRIPTOR_CLASSES = {"avail": "AvailDescriptor", "dtmf": "DtmfDescriptor", "segmentation": "SegmentationDescriptor",
                      "time": "TimeDescriptor", "audio": "AudioDescriptor", "private": "UnknownSpliceDescriptor"}

# DEFAULT_VALUES of the classes as documented in the repository (binarysignal.py, splice_insert.py,
# descriptors.py).  Used only for keys a spec leaves out.
DEFAULTS = {
    "header": {"table_id": 0xFC, "cw_index": 0xFF, "encryption_algorithm": 0, "encrypted_packet": False,
               "private_indicator": False, "protocol_version": 0, "pts_adjustment": 0, "sap_type": 3,
               "section_syntax_indicator": False, "tier": 0xFFF},
    "splice_insert": {"components": [], "splice_event_cancel_indicator": False, "splice_immediate_flag": False,
                      "out_of_network_indicator": True, "splice_time": None},
    "segmentation": {"delivery_not_restricted_flag": True, "identifier": CUEI,
                     "segmentation_event_cancel_indicator": False, "program_segmentation_flag": True,
                     "segmentation_duration": None, "segmentation_upid_type": 0x0F, "segmentation_upid": None,
                     "segment_num": 0, "segments_expected": 0, "sub_segment_num": 0, "sub_segments_expected": 0},
    "avail": {"identifier": CUEI}, "dtmf": {"identifier": CUEI}, "time": {"identifier": CUEI},
    "audio": {"identifier": CUEI}, "private": {},
}
# bit widths of the integer fields, for the boundary classes of the evidence
WIDTHS = {"pts_adjustment": 33, "tier": 12, "cw_index": 8, "splice_event_id": 32, "pts": 33, "duration": 33,
          "unique_program_id": 16, "avail_num": 8, "avails_expected": 8, "segmentation_event_id": 32,
          "segmentation_duration": 40, "provider_avail_id": 32, "TAI_seconds": 48, "pts_offset": 33,
          "utc_splice_time": 32, "event_id": 32}


def _get(fields: dict, group: str, key: str):
    return fields[key] if key in fields else DEFAULTS[group][key]


def _unhex(v):
    return None if v is None else bytes.fromhex(v["hex"])


# --------------------------------------------------------------------------
# spec -> objects of the code under test

def descriptor_kwargs(d: dict) -> dict:
    kw = copy.deepcopy(d["fields"])
    if d["kind"] == "segmentation" and "segmentation_upid" in kw:
        kw["segmentation_upid"] = _unhex(kw["segmentation_upid"])
    if d["kind"] == "private":
        kw["data"] = _unhex(kw["data"])
    return kw


def build(spec: dict):
    """The two ways the repository builds a signal: objects (server/events/scte35_events.py) or
    one dictionary of keyword arguments on top of DEFAULT_VALUES (tests/test_scte35.py)."""
    from dashlive.scte35 import descriptors as D
    from dashlive.scte35.binarysignal import BinarySignal
    from dashlive.scte35.splice_insert import SpliceInsert
    from dashlive.scte35.splice_schedule import SpliceSchedule
    from dashlive.scte35.splice_time import SpliceTime

    cmd = spec["command"]
    kwargs = copy.deepcopy(spec["header"])
    if spec["form"] == "objects":
        if cmd == "splice_insert":
            kwargs["splice_insert"] = SpliceInsert(**copy.deepcopy(spec["splice_insert"]))
        elif cmd == "time_signal":
            kwargs["time_signal"] = SpliceTime(**spec["time_signal"])
        elif cmd == "splice_schedule":
            kwargs["splice_schedule"] = SpliceSchedule(**copy.deepcopy(spec["splice_schedule"]))
        descs = []
        for d in spec["descriptors"]:
            kw = descriptor_kwargs(d)
            if d["kind"] == "private":
                descs.append(D.UnknownSpliceDescriptor(**kw))
            else:
                descs.append(getattr(D, DESCRIPTOR_CLASSES[d["kind"]])(**kw))
        if descs:
            kwargs["descriptors"] = descs
        return BinarySignal(**kwargs)
    full = copy.deepcopy(BinarySignal.DEFAULT_VALUES)
    full.update(kwargs)
    if cmd != "splice_null":
        full[cmd] = copy.deepcopy(spec[cmd])
    descs = []
    for d in spec["descriptors"]:
        kw = descriptor_kwargs(d)
        if d["kind"] != "private":
            kw["tag"] = DESCRIPTOR_TAGS[d["kind"]]
        descs.append(kw)
    full["descriptors"] = descs
    return BinarySignal(**full)


# --------------------------------------------------------------------------
# oracle 1: what parse() must give back (repository field names)

def expected_roundtrip(spec: dict) -> list:
    """[(subject, expected dict)] - every field x has, with the value x has."""
    res = []
    head = {k: _get(spec["header"], "header", k) for k in DEFAULTS["header"]}
    cmd = spec["command"]
    head["splice_insert"] = head["time_signal"] = head["splice_schedule"] = None
    res.append(("header", head))
    if cmd == "splice_insert":
        f = spec["splice_insert"]
        if _get(f, "splice_insert", "splice_event_cancel_indicator"):
            e = {"splice_event_id": f["splice_event_id"], "splice_event_cancel_indicator": True}
        else:
            e = copy.deepcopy(f)
            for k in DEFAULTS["splice_insert"]:
                e.setdefault(k, copy.deepcopy(DEFAULTS["splice_insert"][k]))
        del head["splice_insert"]
        res.append(("splice_insert", {"splice_insert": e}))
    elif cmd == "time_signal":
        del head["time_signal"]
        res.append(("time_signal", {"time_signal": dict(spec["time_signal"])}))
    elif cmd == "splice_schedule":
        del head["splice_schedule"]
        items = []
        for it in spec["splice_schedule"]["splices"]:
            if it["event_cancel_indicator"]:
                items.append({"event_id": it["event_id"], "event_cancel_indicator": True})
            else:
                items.append(copy.deepcopy(it))
        res.append(("splice_schedule", {"splice_schedule": {"splices": items}}))
    return res


def expected_descriptor(d: dict) -> dict:
    kind, f = d["kind"], d["fields"]
    if kind == "segmentation" and _get(f, kind, "segmentation_event_cancel_indicator"):
        e = {"segmentation_event_id": f["segmentation_event_id"], "segmentation_event_cancel_indicator": True,
             "identifier": _get(f, kind, "identifier")}
    else:
        e = descriptor_kwargs(d)
        for k, v in DEFAULTS[kind].items():
            e.setdefault(k, v)
        if kind == "segmentation":
            if e["segmentation_upid"] is None:
                e["segmentation_upid"] = b""          # upid_length 0: "no UPID" and "empty UPID" are one thing
            if e["segmentation_type"] not in SUB_SEGMENT_TYPES:
                e.pop("sub_segment_num", None)          # not part of the syntax for this type id
                e.pop("sub_segments_expected", None)
    e["tag"] = f["tag"] if kind == "private" else DESCRIPTOR_TAGS[kind]
    return e


def diff(expected, got, path: str, found: list) -> None:
    """Every place where got lacks or contradicts a value of expected (list indexes are not part of
    the path, so that a path names a field)."""
    if isinstance(expected, dict):
        if not isinstance(got, dict):
            found.append((path or "(whole)", f"expected a structure, parser gave {got!r}"))
            return
        for k, v in expected.items():
            sub = f"{path}.{k}" if path else k
            if k not in got:
                found.append((sub, f"field absent from the parser's result; expected {v!r}"))
            else:
                diff(v, got[k], sub, found)
    elif isinstance(expected, list):
        if not isinstance(got, list):
            found.append((path, f"expected a list of {len(expected)}, parser gave {got!r}"))
        elif len(expected) != len(got):
            found.append((path + ".(count)", f"expected {len(expected)} entries, parser gave {len(got)}"))
        else:
            for e, g in zip(expected, got):
                diff(e, g, path, found)
    else:
        if isinstance(got, (bytes, bytearray)) and isinstance(expected, (bytes, bytearray)):
            same = bytes(got) == bytes(expected)
        elif isinstance(expected, str) and isinstance(got, (bytes, bytearray)):
            same = expected.encode("latin-1") == bytes(got)
        else:
            same = type(got) in (int, bool, str, type(None)) and got == expected
        if not same:
            found.append((path, f"expected {expected!r}, parser gave {got!r}"))


# --------------------------------------------------------------------------
# oracle 2: what the independent decoder must see (vt.scte names, syntax order)

def _time_bits(pts) -> int:
    return 8 if pts is None else 40


def _ind_time(t):
    return {"time_specified": t["pts"] is not None, "pts": t["pts"]}


def _ind_break(b):
    return None if b is None else {"auto_return": bool(b["auto_return"]), "duration": b["duration"]}


def independent_command(spec: dict):
    """(expected command dict in syntax order, size in bytes)"""
    cmd = spec["command"]
    if cmd == "splice_null":
        return {}, 0
    if cmd == "time_signal":
        return {"splice_time": _ind_time(spec["time_signal"])}, _time_bits(spec["time_signal"]["pts"]) // 8
    if cmd == "splice_insert":
        f = spec["splice_insert"]
        e = {"splice_event_id": f["splice_event_id"],
             "cancel": bool(_get(f, cmd, "splice_event_cancel_indicator"))}
        bits = 40
        if e["cancel"]:
            return e, bits // 8
        program = bool(f["program_splice_flag"])
        immediate = bool(_get(f, cmd, "splice_immediate_flag"))
        e["out_of_network"] = bool(_get(f, cmd, "out_of_network_indicator"))
        e["program_splice"] = program
        e["duration_flag"] = f.get("break_duration") is not None
        e["immediate"] = immediate
        bits += 8
        e["splice_time"] = None
        if program and not immediate:
            e["splice_time"] = _ind_time(f["splice_time"])
            bits += _time_bits(f["splice_time"]["pts"])
        e["components"] = []
        if not program:
            bits += 8
            for c in _get(f, cmd, "components"):
                st = None
                bits += 8
                if not immediate:
                    st = _ind_time(c["splice_time"])
                    bits += _time_bits(c["splice_time"]["pts"])
                e["components"].append({"tag": c["tag"], "splice_time": st})
        e["break_duration"] = _ind_break(f.get("break_duration"))
        if e["duration_flag"]:
            bits += 40
        e["unique_program_id"] = f["unique_program_id"]
        e["avail_num"] = f["avail_num"]
        e["avails_expected"] = f["avails_expected"]
        return e, (bits + 32) // 8
    items, bits = [], 8
    for it in spec["splice_schedule"]["splices"]:
        s = {"splice_event_id": it["event_id"], "cancel": bool(it["event_cancel_indicator"])}
        bits += 40
        if not s["cancel"]:
            program = it["utc_splice_time"] is not None
            s["out_of_network"] = bool(it["out_of_network_indicator"])
            s["program_splice"] = program
            s["duration_flag"] = it.get("break_duration") is not None
            s["utc_splice_time"] = it["utc_splice_time"]
            s["components"] = []
            bits += 8
            if program:
                bits += 32
            else:
                bits += 8
                for c in it["components"]:
                    s["components"].append({"tag": c["tag"], "utc_splice_time": c["utc_splice_time"]})
                    bits += 40
            s["break_duration"] = _ind_break(it.get("break_duration"))
            if s["duration_flag"]:
                bits += 40
            s["unique_program_id"] = it["unique_program_id"]
            s["avail_num"] = it["avail_num"]
            s["avails_expected"] = it["avails_expected"]
            bits += 32
        items.append(s)
    return {"splices": items}, bits // 8


def independent_descriptor(d: dict) -> dict:
    """Expected vt.scte descriptor dict, 'length' included (computed from the syntax)."""
    kind, f = d["kind"], d["fields"]
    if kind == "private":
        data = _unhex(f["data"])
        return {"tag": f["tag"], "length": 4 + len(data), "identifier": f["identifier"], "private_bytes": data,
                "trailing": b""}
    e = {"tag": DESCRIPTOR_TAGS[kind], "length": None, "identifier": _get(f, kind, "identifier")}
    if kind == "avail":
        e["provider_avail_id"] = f["provider_avail_id"]
        n = 4
    elif kind == "dtmf":
        e["preroll"] = f["preroll"]
        e["dtmf_chars"] = f["chars"].encode("ascii")
        n = 2 + len(f["chars"])
    elif kind == "time":
        e["tai_seconds"], e["tai_ns"], e["utc_offset"] = f["TAI_seconds"], f["TAI_ns"], f["UTC_offset"]
        n = 12
    elif kind == "audio":
        e["audio_components"] = [
            {"tag": c["tag"], "iso_code": c["ISO_code"], "bit_stream_mode": c["Bit_Stream_Mode"],
             "num_channels": c["Num_Channels"], "full_srvc_audio": bool(c["Full_Srvc_Audio"])}
            for c in f["audio_components"]]
        n = 1 + 5 * len(f["audio_components"])
    else:
        e["segmentation_event_id"] = f["segmentation_event_id"]
        e["cancel"] = bool(_get(f, kind, "segmentation_event_cancel_indicator"))
        n = 5
        if not e["cancel"]:
            program = bool(_get(f, kind, "program_segmentation_flag"))
            free = bool(_get(f, kind, "delivery_not_restricted_flag"))
            dur = _get(f, kind, "segmentation_duration")
            upid = _unhex(_get(f, kind, "segmentation_upid")) if "segmentation_upid" in f else None
            e["program_segmentation"] = program
            e["duration_flag"] = dur is not None
            e["delivery_not_restricted"] = free
            e["web_delivery_allowed"] = None if free else bool(f["web_delivery_allowed_flag"])
            e["no_regional_blackout"] = None if free else bool(f["no_regional_blackout_flag"])
            e["archive_allowed"] = None if free else bool(f["archive_allowed_flag"])
            e["device_restrictions"] = None if free else f["device_restrictions"]
            n += 1
            e["components"] = []
            if not program:
                n += 1 + 6 * len(f["components"])
                e["components"] = [{"tag": c["component_tag"], "pts_offset": c["pts_offset"]}
                                   for c in f["components"]]
            e["segmentation_duration"] = dur
            if dur is not None:
                n += 5
            # the encoder documents that a signal without a UPID gets upid type 0x0F
            e["upid_type"] = 0x0F if upid is None else _get(f, kind, "segmentation_upid_type")
            e["upid"] = upid or b""
            n += 2 + len(e["upid"])
            e["segmentation_type_id"] = f["segmentation_type"]
            e["segment_num"] = _get(f, kind, "segment_num")
            e["segments_expected"] = _get(f, kind, "segments_expected")
            n += 3
            if f["segmentation_type"] in SUB_SEGMENT_TYPES:
                e["sub_segment_num"] = _get(f, kind, "sub_segment_num")
                e["sub_segments_expected"] = _get(f, kind, "sub_segments_expected")
                n += 2
            else:
                e["sub_segment_num"] = e["sub_segments_expected"] = None
    e["length"] = 4 + n
    e["trailing"] = b""
    return e


def section_size(spec: dict) -> int:
    """Bytes of the whole section according to the syntax (3 + section_length)."""
    _, clen = independent_command(spec)
    return 3 + 11 + clen + 2 + sum(2 + independent_descriptor(d)["length"] for d in spec["descriptors"]) + 4


def first_diff(expected, got, path=""):
    """(path, text) of the first field, in syntax order, where the decoder saw something else."""
    if isinstance(expected, dict):
        if not isinstance(got, dict):
            return path or "(whole)", f"expected a structure, decoder saw {got!r}"
        for k, v in expected.items():
            sub = f"{path}.{k}" if path else k
            if k not in got:
                return sub, f"absent (decoder saw {sorted(got)})"
            r = first_diff(v, got[k], sub)
            if r:
                return r
        return None
    if isinstance(expected, list):
        if not isinstance(got, list):
            return path, f"expected {len(expected)} entries, decoder saw {got!r}"
        for e, g in zip(expected, got):
            r = first_diff(e, g, path)
            if r:
                return r
        if len(expected) != len(got):
            return path + ".(count)", f"expected {len(expected)} entries, decoder saw {len(got)}"
        return None
    if got != expected or (isinstance(expected, bool) != isinstance(got, bool)):
        return path, f"expected {expected!r}, decoder saw {got!r}"
    return None


COMMAND_TYPES = {"splice_null": 0, "splice_schedule": 4, "splice_insert": 5, "time_signal": 6}


def judge_independent(spec: dict, data: bytes, out: Outcome, tag: str) -> None:
    from .. import scte
    cmd = spec["command"]
    try:
        dec = scte.decode_section(data)
    except scte.ScteError as exc:
        where = exc.where
        if where.endswith("_descriptor"):
            where = "descriptor:" + {"avail_descriptor": "avail", "DTMF_descriptor": "dtmf",
                                     "segmentation_descriptor": "segmentation", "time_descriptor": "time",
                                     "audio_descriptor": "audio", "private_descriptor": "private"}[where]
        out.fail(f"independent/{where}/undecodable/{exc.kind}", f"{tag}: {exc}; bytes {data.hex()}")
        return
    if not dec["crc_ok"]:
        out.fail("independent/section/crc-residue-nonzero", f"{tag}: CRC_32 0x{dec['crc_32']:08x}; bytes {data.hex()}")
    if not dec["length_ok"]:
        out.fail("independent/section/section_length-wrong",
                 f"{tag}: section_length {dec['section_length']} for {len(data)} bytes; {data.hex()}")
    ecmd, clen = independent_command(spec)
    h = spec["header"]
    before = len(out.violations)
    ehead = {"table_id": 0xFC,
             "section_syntax_indicator": bool(_get(h, "header", "section_syntax_indicator")),
             "private_indicator": bool(_get(h, "header", "private_indicator")),
             "sap_type": _get(h, "header", "sap_type"),
             "protocol_version": _get(h, "header", "protocol_version"),
             "encrypted_packet": False,
             "encryption_algorithm": _get(h, "header", "encryption_algorithm"),
             "pts_adjustment": _get(h, "header", "pts_adjustment"),
             "cw_index": _get(h, "header", "cw_index"),
             "tier": _get(h, "header", "tier"),
             "splice_command_type": COMMAND_TYPES[cmd]}
    r = first_diff(ehead, dec)
    if r:
        out.fail(f"independent/header/{r[0]}", f"{tag}: {r[1]}; bytes {data.hex()}")
    r = first_diff(ecmd, dec["command"])
    if r:
        out.fail(f"independent/{cmd}/{r[0]}", f"{tag}: {r[1]}; bytes {data.hex()}")
    got = dec["descriptors"]
    if len(got) != len(spec["descriptors"]):
        out.fail("independent/section/descriptor-count",
                 f"{tag}: generated {[d['kind'] for d in spec['descriptors']]}, decoder saw tags "
                 f"{[g['tag'] for g in got]}; bytes {data.hex()}")
    for d, g in zip(spec["descriptors"], got):
        r = first_diff(independent_descriptor(d), g)
        if r:
            out.fail(f"independent/descriptor:{d['kind']}/{r[0]}", f"{tag}: {r[1]}; bytes {data.hex()}")
    if len(out.violations) == before:
        # the two length fields are self-consistent (the decoder walked them); a size other than the one
        # the syntax gives is reported on its own only when no field explains it
        r = first_diff({"splice_command_length": clen, "section_length": section_size(spec) - 3}, dec)
        if r:
            out.fail(f"independent/header/{r[0]}", f"{tag}: {r[1]}; bytes {data.hex()}")
    if not dec["reserved_ok"] and len(out.violations) == before:
        out.note("reserved-bits-not-all-ones", cmd)


# --------------------------------------------------------------------------
# running one signal

def _where(exc: BaseException) -> str:
    """Function name of the innermost frame that belongs to the repository."""
    name = "?"
    for fr in traceback.extract_tb(exc.__traceback__):
        if "/dashlive/" in fr.filename:
            name = fr.name
    return name


class _Raised(Exception):
    def __init__(self, stage: str, exc: BaseException):
        self.stage, self.exc = stage, exc


def _stage(stage, fn, *a, **kw):
    try:
        return fn(*a, **kw)
    except Exception as exc:          # noqa: BLE001 - everything the code under test raises is a result
        raise _Raised(stage, exc)


def run_signal(spec: dict, out: Outcome, tag: str) -> None:
    """All three oracles on one signal; raises _Raised if the code under test raised."""
    from dashlive.scte35.binarysignal import BinarySignal
    from dashlive.utils.buffered_reader import BufferedReader

    x = _stage("construct", build, spec)
    data = _stage("encode", x.encode)
    if not isinstance(data, (bytes, bytearray)):
        out.fail(f"codec/{spec['command']}/encode-returns-{type(data).__name__}", tag)
        return
    data = bytes(data)
    judge_independent(spec, data, out, tag)
    parsed = _stage("parse", lambda: BinarySignal.parse(BufferedReader(None, data=data), size=len(data)))
    # ---- oracle 1
    if not isinstance(parsed, dict):
        out.fail(f"roundtrip/{spec['command']}/(whole)", f"{tag}: parse returned {parsed!r}")
        return
    for subject, exp in expected_roundtrip(spec):
        found: list = []
        diff(exp, parsed, "", found)
        for path, text in found:
            p = path.split(".", 1)[1] if subject != "header" and "." in path else path
            if subject != "header" and path == subject:
                p = "(whole)"
            out.fail(f"roundtrip/{subject}/{p}", f"{tag}: {path}: {text}; bytes {data.hex()}")
    pdesc = parsed.get("descriptors")
    if not isinstance(pdesc, list) or len(pdesc) != len(spec["descriptors"]):
        out.fail("roundtrip/section/descriptor-count",
                 f"{tag}: generated {[d['kind'] for d in spec['descriptors']]}, parser gave {pdesc!r}")
    else:
        for d, g in zip(spec["descriptors"], pdesc):
            found = []
            diff(expected_descriptor(d), g, "", found)
            for path, text in found:
                out.fail(f"roundtrip/descriptor:{d['kind']}/{path}", f"{tag}: {text}; bytes {data.hex()}")
    if parsed.get("crc_valid") is not True:
        out.fail("roundtrip/section/crc_valid-not-true", f"{tag}: {parsed.get('crc_valid')!r}; bytes {data.hex()}")
    # ---- oracle 3
    y = _stage("rebuild", lambda: BinarySignal(**parsed))
    again = _stage("reencode", y.encode)
    if bytes(again) != data:
        out.fail(f"reencode/{_locate(spec, data, bytes(again))}/bytes-differ",
                 f"{tag}: encode(x) {data.hex()} encode(parse(encode(x))) {bytes(again).hex()}")


def _locate(spec: dict, a: bytes, b: bytes) -> str:
    """Which part of the section holds the first differing byte that is not a length field (layout
    from the syntax; lengths differ as a consequence of something else)."""
    _, clen = independent_command(spec)
    cmd = spec["command"]
    regions = [(0, 1, "header"), (1, 3, None), (3, 11, "header"), (11, 13, None), (13, 14 + clen, cmd),
               (14 + clen, 16 + clen, None)]
    pos = 16 + clen
    for d in spec["descriptors"]:
        n = independent_descriptor(d)["length"]
        regions += [(pos, pos + 1, "descriptor:" + d["kind"]), (pos + 1, pos + 2, None),
                    (pos + 2, pos + 2 + n, "descriptor:" + d["kind"])]
        pos += 2 + n
    n = min(len(a), len(b))
    for off in range(n):
        if a[off] != b[off]:
            if off in (1, 11) and (a[off] ^ b[off]) & 0xF0:
                return "header"          # flags / sap_type share byte 1, tier shares byte 11 with a length
            for lo, hi, subject in regions:
                if lo <= off < hi and subject:
                    return subject
    # only length fields (or the tail) differ: a part is missing altogether
    if n > 13 and (a[11] & 0x0F, a[12]) != (b[11] & 0x0F, b[12]):
        return cmd
    return "section"


CARRIER = {"form": "objects", "header": {}, "command": "splice_null", "descriptors": []}


def check_signal(spec: dict, out: Outcome, tag: str) -> None:
    try:
        run_signal(spec, out, tag)
        return
    except _Raised as r:
        first = r
    # attribute the exception: every descriptor alone, then the signal without descriptors
    bad = set()
    for i, d in enumerate(spec["descriptors"]):
        solo = dict(CARRIER, form=spec["form"], descriptors=[d])
        try:
            run_signal(solo, out, f"{tag} descriptor {i} alone on a splice_null")
        except _Raised as r:
            bad.add(i)
            _report(out, "descriptor:" + d["kind"], r, solo, tag)
    if not bad:
        _report(out, spec["command"], first, spec, tag)
        return
    rest = dict(spec, descriptors=[d for i, d in enumerate(spec["descriptors"]) if i not in bad])
    try:
        run_signal(rest, out, tag + " (descriptors that raise removed)")
    except _Raised as r:
        _report(out, spec["command"], r, rest, tag)


def _report(out: Outcome, subject: str, r: _Raised, spec: dict, tag: str) -> None:
    exc = r.exc
    tb = traceback.extract_tb(exc.__traceback__)
    frames = " < ".join(f"{f.filename.rsplit('/', 1)[-1]}:{f.lineno}:{f.name}" for f in reversed(tb[-4:]))
    out.fail(f"codec/{subject}/raises/{type(exc).__name__}@{_where(exc)}",
             f"{tag}: {r.stage}: {exc!r} [{frames}] signal {spec}")


# --------------------------------------------------------------------------
# classes for the evidence

def _edge(name: str, value) -> list:
    if value is None or isinstance(value, bool):
        return []
    top = (1 << WIDTHS[name]) - 1
    if value == 0:
        return [f"edge:{name}=0"]
    if value == top:
        return [f"edge:{name}=max"]
    if value >= (top + 1) // 2:
        return [f"edge:{name}:top-bit-set"]
    return []


def classify(spec: dict, out: Outcome) -> bool:
    """records the classes; returns non-triviality of the signal"""
    cmd = spec["command"]
    out.cls("cmd:" + cmd, "form:" + spec["form"])
    carries_pts = False
    h = spec["header"]
    for k in ("pts_adjustment", "tier", "cw_index"):
        out.cls(*_edge(k, _get(h, "header", k)))
    if len(h) < 8:
        out.cls("header:defaults-used")
    if cmd == "time_signal":
        pts = spec["time_signal"]["pts"]
        carries_pts = pts is not None
        out.cls("time_signal:" + ("pts" if carries_pts else "no-time"), *_edge("pts", pts))
    elif cmd == "splice_insert":
        f = spec["splice_insert"]
        out.cls(*_edge("splice_event_id", f["splice_event_id"]))
        if _get(f, cmd, "splice_event_cancel_indicator"):
            out.cls("insert:cancel")
        else:
            program = f["program_splice_flag"]
            imm = _get(f, cmd, "splice_immediate_flag")
            out.cls("insert:" + ("program" if program else "component") + ("-immediate" if imm else ""))
            bd = f.get("break_duration")
            out.cls("insert:no-break_duration" if bd is None else
                    "insert:auto_return" if bd["auto_return"] else "insert:no-auto_return")
            if bd:
                out.cls(*_edge("duration", bd["duration"]))
            for k in ("unique_program_id", "avail_num", "avails_expected"):
                out.cls(*_edge(k, f[k]))
            if program and not imm:
                pts = f["splice_time"]["pts"]
                carries_pts = pts is not None
                out.cls(*_edge("pts", pts))
                if pts is None:
                    out.cls("insert:time_specified_flag=0")
            if not program:
                comps = _get(f, cmd, "components")
                out.cls("insert:components=" + ("0" if not comps else "1" if len(comps) == 1 else "many"))
                if not imm:
                    for c in comps:
                        carries_pts = carries_pts or c["splice_time"]["pts"] is not None
                        out.cls(*_edge("pts", c["splice_time"]["pts"]))
    elif cmd == "splice_schedule":
        items = spec["splice_schedule"]["splices"]
        out.cls("schedule:splices=" + ("0" if not items else "1" if len(items) == 1 else "many"))
        for it in items:
            out.cls(*_edge("event_id", it["event_id"]))
            if it["event_cancel_indicator"]:
                out.cls("schedule:cancel")
            else:
                out.cls("schedule:" + ("program" if it["utc_splice_time"] is not None else "component"),
                        "schedule:" + ("break_duration" if it.get("break_duration") else "no-break_duration"))
                out.cls(*_edge("utc_splice_time", it["utc_splice_time"]))
    if not spec["descriptors"]:
        out.cls("desc:none")
    for d in spec["descriptors"]:
        kind, f = d["kind"], d["fields"]
        out.cls("desc:" + kind)
        if kind == "segmentation":
            out.cls(*_edge("segmentation_event_id", f["segmentation_event_id"]))
            if _get(f, kind, "segmentation_event_cancel_indicator"):
                out.cls("seg:cancel")
                continue
            out.cls("seg:program" if _get(f, kind, "program_segmentation_flag") else "seg:components",
                    "seg:unrestricted" if _get(f, kind, "delivery_not_restricted_flag") else "seg:restricted",
                    "seg:duration" if _get(f, kind, "segmentation_duration") is not None else "seg:no-duration",
                    "seg:upid" if f.get("segmentation_upid") is not None else "seg:no-upid",
                    "seg:sub-segments" if f["segmentation_type"] in SUB_SEGMENT_TYPES else "seg:no-sub-segments")
            out.cls(*_edge("segmentation_duration", _get(f, kind, "segmentation_duration")))
        elif kind == "avail":
            out.cls(*_edge("provider_avail_id", f["provider_avail_id"]))
        elif kind == "time":
            out.cls(*_edge("TAI_seconds", f["TAI_seconds"]))
        elif kind == "dtmf":
            out.cls("dtmf:chars=" + str(len(f["chars"])))
        elif kind == "audio":
            out.cls("audio:components=" + ("0" if not f["audio_components"] else "some"))
        if kind != "private" and _get(f, kind, "identifier") != CUEI:
            out.cls("desc:identifier-not-CUEI")
    return carries_pts or bool(spec["descriptors"])


# --------------------------------------------------------------------------
# generation.  Hypothesis draws a 64-bit seed, a size level and the command of the first signal; the
# field values come from random.Random(seed) (a pure function of the drawn values).  Drawing every field
# through Hypothesis costs 20 ms per case, forty times the cost of the check itself.

class Gen:
    def __init__(self, seed: int, level: int):
        import random
        self.r = random.Random(seed)
        self.level = level            # 0: smallest shapes ... 3: long lists allowed

    def chance(self, p: float) -> bool:
        return self.r.random() < p

    def pick(self, seq):
        return seq[self.r.randrange(len(seq))]

    def flag(self) -> bool:
        return self.r.random() < 0.5

    def bits(self, k: int) -> int:
        top = (1 << k) - 1
        x = self.r.random()
        if x < 0.40:
            return self.pick((0, 1, top, top - 1, (top + 1) // 2, (top + 1) // 2 - 1, top, 0))
        if x < 0.55:
            return self.r.randrange(min(top, 300) + 1)
        return self.r.getrandbits(k)

    def count(self, small: int, big: int) -> int:
        if self.level == 0:
            return self.r.randrange(2)
        if self.level == 3 and self.chance(0.15):
            return self.pick((big, big, self.r.randrange(big + 1)))
        return self.r.randrange(small + 1)

    def dflt(self, group: str, key: str, p: float, make):
        return DEFAULTS[group][key] if self.chance(p) else make()

    def drop_defaults(self, fields: dict, group: str) -> dict:
        """leave out keys whose value is the documented default, as callers of the library do"""
        mode = self.pick(("explicit", "explicit", "omit-all", "omit-some"))
        if mode == "explicit":
            return fields
        res = {}
        for k, v in fields.items():
            if k in DEFAULTS[group] and DEFAULTS[group][k] == v and type(DEFAULTS[group][k]) is type(v) \
                    and (mode == "omit-all" or self.flag()):
                continue
            res[k] = v
        return res

    # ---- section header
    def header(self) -> dict:
        h = {"pts_adjustment": self.dflt("header", "pts_adjustment", 0.4, lambda: self.bits(33)),
             "cw_index": self.dflt("header", "cw_index", 0.4, lambda: self.bits(8)),
             "tier": self.dflt("header", "tier", 0.4, lambda: self.bits(12)),
             "protocol_version": self.dflt("header", "protocol_version", 0.8, lambda: self.bits(8)),
             "sap_type": self.r.randrange(4),
             "private_indicator": self.dflt("header", "private_indicator", 0.8, self.flag),
             "section_syntax_indicator": self.dflt("header", "section_syntax_indicator", 0.8, self.flag),
             "encryption_algorithm": self.dflt("header", "encryption_algorithm", 0.8, lambda: self.bits(6))}
        return self.drop_defaults(h, "header")

    # ---- commands
    def splice_time(self) -> dict:
        return {"pts": None if self.chance(0.2) else self.bits(33)}

    def break_duration(self):
        if self.chance(0.33):
            return None
        return {"auto_return": self.flag(), "duration": self.bits(33)}

    def splice_insert(self) -> dict:
        f = {"splice_event_id": self.bits(32)}
        mode = self.pick(("program", "program", "program", "program-immediate", "component",
                          "component-immediate", "cancel"))
        if mode == "cancel":
            f["splice_event_cancel_indicator"] = True
            return f
        f["splice_event_cancel_indicator"] = False
        f["out_of_network_indicator"] = self.flag()
        program = mode.startswith("program")
        immediate = mode.endswith("immediate")
        f["program_splice_flag"] = program
        f["splice_immediate_flag"] = immediate
        # splice_time() is in the syntax only for a program splice that is not immediate
        f["splice_time"] = self.splice_time() if (program and not immediate) else None
        f["components"] = []
        if not program:
            # a component of an immediate splice is a bare tag
            f["components"] = [{"tag": self.bits(8), "splice_time": None if immediate else self.splice_time()}
                               for _ in range(self.count(4, 255))]
        f["break_duration"] = self.break_duration()
        f["unique_program_id"] = self.bits(16)
        f["avail_num"] = self.bits(8)
        f["avails_expected"] = self.bits(8)
        return self.drop_defaults(f, "splice_insert")

    def schedule_item(self) -> dict:
        it = {"event_id": self.bits(32), "event_cancel_indicator": self.chance(0.25)}
        if it["event_cancel_indicator"]:
            return it
        it["out_of_network_indicator"] = self.flag()
        if self.flag():
            it["utc_splice_time"] = self.bits(32)      # program splice: no component loop in the syntax
        else:
            it["utc_splice_time"] = None
            it["components"] = [{"tag": self.bits(8), "utc_splice_time": self.bits(32)}
                                for _ in range(self.count(3, 40))]
        it["break_duration"] = self.break_duration()
        it["unique_program_id"] = self.bits(16)
        it["avail_num"] = self.bits(8)
        it["avails_expected"] = self.bits(8)
        return it

    def splice_schedule(self) -> dict:
        return {"splices": [self.schedule_item() for _ in range(self.count(3, 12))]}

    # ---- descriptors
    def identifier(self) -> int:
        return CUEI if self.chance(0.75) else self.bits(32)

    def blob(self, n: int) -> dict:
        return {"hex": self.r.getrandbits(8 * n).to_bytes(n, "big").hex() if n else ""}

    def segmentation(self) -> dict:
        f = {"identifier": self.identifier(), "segmentation_event_id": self.bits(32)}
        f["segmentation_event_cancel_indicator"] = self.chance(0.12)
        if f["segmentation_event_cancel_indicator"]:
            return {"kind": "segmentation", "fields": f}
        f["program_segmentation_flag"] = self.chance(0.66)
        room = 255 - 4 - 5 - 1 - 5 - 2 - 3 - 2          # what descriptor_length leaves for the UPID
        if not f["program_segmentation_flag"]:
            n = self.count(3, 20)
            f["components"] = [{"component_tag": self.bits(8), "pts_offset": self.bits(33)} for _ in range(n)]
            room -= 1 + 6 * n
        f["delivery_not_restricted_flag"] = self.flag()
        if not f["delivery_not_restricted_flag"]:
            # the four restriction fields exist in the syntax only when delivery is restricted
            f["web_delivery_allowed_flag"] = self.flag()
            f["no_regional_blackout_flag"] = self.flag()
            f["archive_allowed_flag"] = self.flag()
            f["device_restrictions"] = self.r.randrange(4)
        f["segmentation_duration"] = None if self.chance(0.33) else self.bits(40)
        if self.flag():
            f["segmentation_upid_type"] = self.pick((0x00, 0x01, 0x08, 0x09, 0x0C, 0x0F, 0x10, self.bits(8)))
            n = self.pick((0, 8, 12, self.r.randrange(13), self.r.randrange(13), room if self.level == 3 else 1))
            f["segmentation_upid"] = self.blob(n)
        else:
            f["segmentation_upid_type"] = 0x0F
            f["segmentation_upid"] = None
        f["segmentation_type"] = self.pick((self.pick(KNOWN_SEG_TYPES), self.pick(KNOWN_SEG_TYPES),
                                            self.pick(SUB_SEGMENT_TYPES), self.bits(8)))
        f["segment_num"] = self.dflt("segmentation", "segment_num", 0.3, lambda: self.bits(8))
        f["segments_expected"] = self.dflt("segmentation", "segments_expected", 0.3, lambda: self.bits(8))
        if f["segmentation_type"] in SUB_SEGMENT_TYPES:
            f["sub_segment_num"] = self.dflt("segmentation", "sub_segment_num", 0.3, lambda: self.bits(8))
            f["sub_segments_expected"] = self.dflt("segmentation", "sub_segments_expected", 0.3, lambda: self.bits(8))
        return {"kind": "segmentation", "fields": self.drop_defaults(f, "segmentation")}

    def descriptor(self) -> dict:
        kind = self.pick(("segmentation", "segmentation", "segmentation", "avail", "dtmf", "time", "audio", "private"))
        if kind == "segmentation":
            return self.segmentation()
        if kind == "private":
            n = 251 if (self.level == 3 and self.chance(0.1)) else self.r.randrange(17)
            return {"kind": kind, "fields": {"tag": self.pick((5, 0x80, 0xFF, self.r.randrange(5, 256))),
                                             "identifier": self.bits(32), "data": self.blob(n)}}
        f = {"identifier": self.identifier()}
        if kind == "avail":
            f["provider_avail_id"] = self.bits(32)
        elif kind == "dtmf":
            f["preroll"] = self.bits(8)
            f["chars"] = "".join(self.pick("0123456789*#") for _ in range(self.pick((0, 1, 7, self.r.randrange(8)))))
        elif kind == "time":
            f["TAI_seconds"], f["TAI_ns"], f["UTC_offset"] = self.bits(48), self.bits(32), self.bits(16)
        else:
            f["audio_components"] = [
                {"tag": self.bits(8), "ISO_code": self.bits(24), "Bit_Stream_Mode": self.r.randrange(8),
                 "Num_Channels": self.r.randrange(16), "Full_Srvc_Audio": self.r.randrange(2)}
                for _ in range(self.count(3, 15))]
        return {"kind": kind, "fields": self.drop_defaults(f, kind)}

    def signal(self, cmd=None) -> dict:
        if cmd is None:
            cmd = self.pick(COMMAND_MIX)
        spec = {"form": self.pick(("objects", "dicts")), "header": self.header(), "command": cmd}
        if cmd == "splice_insert":
            spec["splice_insert"] = self.splice_insert()
        elif cmd == "time_signal":
            spec["time_signal"] = self.splice_time()
        elif cmd == "splice_schedule":
            spec["splice_schedule"] = self.splice_schedule()
        x = self.r.random()
        if x < (0.5 if self.level == 0 else 0.3):
            n = 0
        elif x < 0.65:
            n = 1
        else:
            n = self.r.randrange(1, 3 if self.level < 2 else 6)
        spec["descriptors"] = [self.descriptor() for _ in range(n)]
        while section_size(spec) > 3 + 4095:            # section_length has 12 bits
            if spec["descriptors"]:
                spec["descriptors"].pop()
            elif cmd == "splice_schedule":
                spec["splice_schedule"]["splices"].pop()
            else:
                spec["splice_insert"]["components"].pop()
        return spec


COMMAND_MIX = ("splice_insert",) * 5 + ("time_signal",) * 3 + ("splice_schedule",) * 2 + ("splice_null",)


def make_case(seed: int, level: int, first: str, n: int) -> dict:
    g = Gen(seed, level)
    return {"signals": [g.signal(first if i == 0 else None) for i in range(n)]}


# --------------------------------------------------------------------------

def execute(case) -> Outcome:
    from .. import app
    app.boot()
    out = Outcome()
    nontrivial = False
    for i, spec in enumerate(case["signals"]):
        size = section_size(spec)
        if size > 3 + 4095:
            out.trivial = "section_length-over-12-bits"     # stored case from outside the generator
            continue
        check_signal(spec, out, f"signal {i} ({spec['command']})")
        nontrivial = classify(spec, out) or nontrivial
    out.nontrivial = nontrivial
    out.weight = max(1, len(case["signals"]))
    seen: dict = {}
    for s, d in out.violations:
        seen.setdefault(s, d)
    out.violations = list(seen.items())
    return out


class Scte35Codec(Engine):
    name = "scte35_codec"
    kind = "hypothesis"

    def budget(self, tier):
        return 20_000 if tier == "quick" else 1_500_000

    def strategy(self, tier):
        from hypothesis import strategies as st
        # 8 raw bytes, not st.integers: Hypothesis draws integers 0, 1, 2, 3 and the bounds again and again
        seed = st.binary(min_size=8, max_size=8).map(lambda b: int.from_bytes(b, "big"))
        return st.builds(make_case, seed, st.integers(0, 3), st.sampled_from(COMMAND_MIX), st.integers(1, 3))

    def check(self, case):
        return execute(case)


PROPERTY = "C14"
RULE = ("scte35_codec: Hypothesis draws (8 seed bytes, size level 0-3, command of the first signal, 1-3 signals); "
        "random.Random(seed) then fills 1-3 BinarySignal descriptions: header fields (pts_adjustment 33 bits, "
        "cw_index 8, tier 12, protocol_version 8, sap_type 2, encryption_algorithm 6, the two indicator bits) x "
        "command in {splice_null, splice_insert (program / program-immediate / component / component-immediate / "
        "cancel; splice_time with and without a pts; break_duration absent or with auto_return on/off and a "
        "33-bit duration; 0-255 components), time_signal (pts or no time), splice_schedule (0-12 splices: cancel / "
        "program / component, optional break_duration)} x 0-5 descriptors of {avail, DTMF, segmentation (cancel, "
        "program or component segmentation, delivery restrictions, 40-bit duration, upid type and 0..max bytes, "
        "any type id incl. the sub-segment ones), time, audio, private tag}; every integer over its whole bit "
        "width, 40% of the draws from {0, 1, 2^(k-1)-1, 2^(k-1), 2^k-2, 2^k-1}; fields equal to the documented "
        "default are passed or left out; the signal is built from objects or from one kwargs dictionary. Oracles: "
        "parse(encode(x)) has every field of x; the independent decoder vt/scte.py finds CRC residue 0, "
        "consistent lengths and the generated values; encode(parse(encode(x))) == encode(x). Non-trivial: a "
        "splice_insert or time_signal that carries a pts, or at least one descriptor. distinct = canonical JSON "
        "of the case; evaluations = signals.")
ASSUMPTIONS = [
    "vt/scte.py (written from ANSI/SCTE 35 section 9/10 and CRC-32/MPEG-2, self-tested on the binary examples of "
    "tests/test_scte35.py and 14.1-14.3 of the standard) is the reference reading of the encoded bytes",
    "encrypted_packet is always false (the fields after cw_index would be cipher text; the encoder has no E_CRC_32) "
    "and table_id is 0xFC",
    "a program splice_insert with splice_immediate_flag=1 is given to the constructor the way parse() reports it "
    "(program_splice_flag=True, splice_immediate_flag=True, splice_time=None); a splice_time() with "
    "time_specified_flag=0 is {'pts': None}; components of an immediate component splice have splice_time=None",
    "fields the syntax omits are not generated: delivery restriction flags only when delivery_not_restricted_flag=0, "
    "sub_segment_num/sub_segments_expected only for type ids 0x34/0x36/0x38/0x3A, nothing but the event id for a "
    "cancelled splice or segmentation; a UPID of length 0 and no UPID are the same thing; without a UPID the "
    "upid type is 0x0F as encode_fields documents",
    "sizes stay inside the length fields: descriptor_length <= 255, component counts <= 255, dtmf_count <= 7, "
    "audio_count <= 15, section_length <= 4095",
    "private_command and bandwidth_reservation have no constructor in dashlive.scte35 and are not generated",
]
ENGINES = [Scte35Codec()]
