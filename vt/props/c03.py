"""C03 - rewritten media segments keep their payload and point at it correctly."""
from __future__ import annotations

import hashlib

from ..runner import Engine, Outcome

PROPERTY = "C03"
RULE = ("Hypothesis draws a stream (fixture or synthetic: clear/encrypted, 8/16-byte IV, subsamples, with/without "
        "tfdt, styp, sidx, default-base-is-moof or explicit base offset), an option vector (drm systems x "
        "locations, playready version/piff, events with schedules, bugs) and either VOD (every segment of every "
        "matching representation by $Number$) or a live session ($Number$/$Time$ near both window edges). Every "
        "200 media response is walked by the independent box reader. Non-trivial: the response differs from the "
        "stored bytes in >= 2 independent ways (tfdt rewritten/inserted, sequence number, PIFF inserted, emsg "
        "inserted, sidx/styp dropped) or an inserted box changed the moof size. distinct = canonical JSON of case.")
ASSUMPTIONS = [
    "vt/shims stand in for flask_login, sqlalchemy_jsonfield, dotenv, netifaces; harness-controlled clock",
    "data offsets are relative to tfhd.base_data_offset when flag 0x1 is set, otherwise to the start of the moof "
    "in the response (ISO/IEC 14496-12 8.8.7, 8.8.8)",
    "PIFF is 'requested' when playready is selected and playready__piff is not 0 (its default is on) or "
    "playready__version=1.0",
    "event density kept realistic (interval >= 100 ms)",
]
PIFF_UUID = bytes.fromhex("a2394f525a9b4f14a2446c427c648df4")


def walk_segment(body: bytes, sc: dict, stored_payloads: dict, opts: dict, enc: bool, out: Outcome, where: str,
                 ctype: str, expect_index: int | None):
    from .. import isobox
    tag = ctype + ("/enc" if enc else "/clear")
    try:
        root = isobox.Root(body)
    except isobox.BoxError as exc:
        out.fail(f"{tag}/boxes-do-not-nest", f"{where}: {exc}")
        return None
    types = [b.type for b in root.children]
    if b"sidx" in types:
        out.fail(f"{tag}/sidx-present", f"{where}: {types}")
    if types.count(b"moof") != 1 or types.count(b"mdat") != 1:
        out.fail(f"{tag}/not-one-moof-mdat", f"{where}: {types}")
        return None
    mi = types.index(b"moof")
    for i, t in enumerate(types):
        if t == b"emsg" and i > mi:
            out.fail(f"{tag}/emsg-after-moof", f"{where}: {types}")
    try:
        frag = isobox.Fragment(root.children, sc["iv_size"])
        trun = frag.trun
        sizes = frag.sample_sizes() if trun else []
    except Exception as exc:
        out.fail(f"{tag}/moof-unreadable/{type(exc).__name__}", f"{where}: {exc}")
        return None
    payload = frag.payload
    h = hashlib.blake2b(payload, digest_size=12).digest()
    ks = stored_payloads.get(h)
    if ks is None:
        out.fail(f"{tag}/payload-changed", f"{where}: mdat payload ({len(payload)} bytes) is not the payload of any stored segment")
    elif expect_index is not None and expect_index not in ks:
        out.fail(f"{tag}/payload-of-another-segment", f"{where}: delivered stored segment {ks}, asked for {expect_index}")
    # (3) trun data offset
    base = frag.tfhd.get("base_data_offset", frag.moof.start) if "base_data_offset" in frag.tfhd else frag.moof.start
    first_payload = frag.mdat.start + frag.mdat.hdr
    if trun["data_offset"] is None:
        # without a data offset the data starts at the base (only right if the moof were followed immediately
        # by the data with no mdat header, which cannot be)
        out.fail(f"{tag}/trun-without-data-offset", where)
    elif base + trun["data_offset"] != first_payload:
        out.fail(f"{tag}/trun-data-offset-wrong/{'explicit-base' if 'base_data_offset' in frag.tfhd else 'moof-base'}",
                 f"{where}: base {base} + data_offset {trun['data_offset']} != first payload byte {first_payload}")
    if sum(sizes) != len(payload):
        out.fail(f"{tag}/sample-sizes!=payload", f"{where}: sum {sum(sizes)} payload {len(payload)}")
    changes = set()
    # (4) encryption boxes
    if enc:
        traf = frag.traf
        kinds = [c.type for c in traf.children]
        senc_b = traf.find(b"senc")
        saio_b = traf.find(b"saio")
        saiz_b = traf.find(b"saiz")
        if senc_b is None or saio_b is None or saiz_b is None:
            out.fail(f"{tag}/encryption-boxes-missing", f"{where}: traf children {kinds}")
        else:
            try:
                senc = isobox.senc(senc_b, sc["iv_size"])
                saio = isobox.saio(saio_b)
                isobox.saiz(saiz_b)
            except Exception as exc:
                out.fail(f"{tag}/encryption-box-unreadable/{type(exc).__name__}", f"{where}: {exc}")
                senc = None
            if senc is not None:
                if senc["sample_count"] != trun["sample_count"]:
                    out.fail(f"{tag}/senc-count!=trun-count", f"{where}: {senc['sample_count']} vs {trun['sample_count']}")
                bugs = opts.get("bugs", "")
                if not saio["offsets"]:
                    out.fail(f"{tag}/saio-empty", where)
                elif base + saio["offsets"][0] != senc["first_entry_pos"]:
                    if "saio" in bugs:
                        out.cls("saio-bug-waived")
                    else:
                        out.fail(f"{tag}/saio-offset-wrong", f"{where}: base {base} + {saio['offsets'][0]} != first senc entry at {senc['first_entry_pos']}")
                piffs = [c for c in traf.children if c.type == b"uuid" and c.usertype == PIFF_UUID]
                sel = (opts.get("drm") or "").lower()
                playready = sel.startswith("all") or "playready" in sel
                requested = playready and (opts.get("playready__piff", "1") not in ("0", "false", "False")
                                           or opts.get("playready__version") == "1.0")
                if requested and not piffs:
                    out.fail(f"{tag}/piff-requested-but-absent", f"{where}: traf children {kinds}")
                for pf in piffs:
                    changes.add("piff")
                    if traf.children.index(pf) > traf.children.index(saiz_b):
                        out.fail(f"{tag}/piff-after-saiz", f"{where}: {kinds}")
                    try:
                        pe = isobox.senc(pf, sc["iv_size"])
                        if pe["entries"] != senc["entries"]:
                            out.fail(f"{tag}/piff-entries!=senc", where)
                    except Exception as exc:
                        out.fail(f"{tag}/piff-unreadable/{type(exc).__name__}", f"{where}: {exc}")
    if any(t == b"emsg" for t in types):
        changes.add("emsg")
    return frag, changes, (ks or [None])[0]


def stored_payload_index(path: str, sc: dict) -> dict:
    data = open(path, "rb").read()
    idx = {}
    for k, (a, b) in enumerate(sc["payload_off"]):
        idx.setdefault(hashlib.blake2b(data[a:b], digest_size=12).digest(), []).append(k)
    return idx


_pidx: dict = {}


def check_vod(case) -> Outcome:
    from .. import app, clock, session, strategies
    env = app.shared_env()
    out = Outcome()
    stream = session.resolve_stream(env, case["stream"])
    opts = dict(case["opts"])
    sel = (opts.get("drm") or "none").lower()
    want_enc = not sel.startswith("none")
    clock.set_now("2024-05-05T10:00:00Z")
    n_seg = 0
    nontrivial = False
    for name, finfo in sorted(env.streams[stream]["files"].items()):
        if not finfo.get("indexed") or bool(finfo.get("encrypted")) != want_enc:
            continue
        ctype = finfo["content_type"]
        sc = session.scan(finfo["path"])
        key = finfo["path"]
        if key not in _pidx:
            if len(_pidx) > 64:
                _pidx.clear()
            _pidx[key] = stored_payload_index(key, sc)
        ext = {"video": "m4v", "audio": "m4a"}.get(ctype, "mp4")
        for k in range(len(sc["durations"])):
            if case.get("by_time"):
                t = sc["decode_times"][k] - sc["decode_times"][0]
                url = f"/dash/vod/{stream}/{name}/time/{t}.{ext}" + strategies.query_string(opts)
            else:
                url = f"/dash/vod/{stream}/{name}/{k + 1}.{ext}" + strategies.query_string(opts)
            r = env.get(url)
            n_seg += 1
            if r.status != 200:
                if r.status >= 500:
                    out.fail(f"{ctype}/5xx/{type(r.exc).__name__}/{r.exc_where}", f"{url} -> {r.status} {r.exc!r}")
                else:
                    out.cls(f"status-{r.status}")
                continue
            res = walk_segment(r.body, sc, _pidx[key], opts, bool(finfo.get("encrypted")), out, url, ctype, k)
            if res:
                frag, changes, _ = res
                if not sc["has_tfdt"][k]:
                    changes.add("tfdt-inserted")
                if sc["frag_start"][k] != sc["moof_start"][k]:
                    changes.add("prefix-dropped")
                if len(changes) >= 2 or (frag.moof.size != sc["frag_end"][k] - sc["moof_start"][k] - frag.mdat.size):
                    nontrivial = True
                for c in changes:
                    out.cls("edit:" + c)
    out.cls("stream:" + session.stream_label(case["stream"]), "enc" if want_enc else "clear")
    out.weight = max(1, n_seg)
    out.nontrivial = nontrivial
    if n_seg == 0:
        out.trivial = "no-matching-representation"
    seen = {}
    for sg, d in out.violations:
        seen.setdefault(sg, d)
    out.violations = list(seen.items())
    return out


def check_live(case) -> Outcome:
    from .. import app, mpd, session
    env = app.shared_env()
    out = Outcome()
    T, url, consts = session.live_case_to_request(env, case)
    s = session.Session(env, T, url).load()
    if s.resp.status != 200 or s.mpd is None or s.mpd.type != "dynamic" or s.mpd.ast is None:
        out.trivial = "no-live-manifest"
        return out
    files = env.streams[consts["stream"]]["files"]
    n_seg = 0
    nontrivial = False
    for rep in s.mpd.reps:
        finfo = files.get(rep.id)
        if finfo is None or rep.template is None:
            continue
        sc = session.scan(finfo["path"])
        key = finfo["path"]
        if key not in _pidx:
            if len(_pidx) > 64:
                _pidx.clear()
            _pidx[key] = stored_payload_index(key, sc)
        try:
            adv = session.advertised_live(rep, s.now, case.get("interior", [])[:4], edge=2)
        except mpd.MpdError:
            continue
        if not adv:
            continue
        ctype = rep.content_type or "?"
        from urllib.parse import parse_qsl, urlsplit
        for j, what, u, n, t, d in adv["items"]:
            r = s.fetch(u)
            if r.status != 200:
                continue
            n_seg += 1
            q = dict(parse_qsl(urlsplit(u).query))
            res = walk_segment(r.body, sc, _pidx[key], q, bool(finfo.get("encrypted")), out, f"T={T.isoformat()} {u}", ctype, None)
            if res:
                frag, changes, k = res
                changes.add("tfdt-rewritten")
                if len(changes) >= 2:
                    nontrivial = True
                for c in changes:
                    out.cls("edit:" + c)
    out.cls("live", "stream:" + session.stream_label(case["stream"]))
    out.weight = max(1, n_seg)
    out.nontrivial = nontrivial
    seen = {}
    for sg, d in out.violations:
        seen.setdefault(sg, d)
    out.violations = list(seen.items())
    return out


def _opts():
    from hypothesis import strategies as st
    from .. import strategies
    base = st.fixed_dictionaries({}, optional={
        "drm": strategies.drm_selection(),
        "playready__version": st.sampled_from(["1.0", "2.0", "3.0", "4.0"]),
        "playready__piff": st.sampled_from(["0", "1"]),
        "bugs": st.sampled_from(["saio", "none"]),
    })
    return st.one_of(base, st.tuples(base, strategies.event_options()).map(lambda t: {**t[0], **t[1]}))


def _streams():
    from hypothesis import strategies as st
    from .. import synth
    return st.one_of(st.sampled_from(["bbb", "tears"]), st.builds(lambda sp: {"synth": sp}, synth.stream_specs(max_segments=8)),
                     st.builds(lambda sp: {"synth": sp}, synth.stream_specs(max_segments=8)))


class VodSegments(Engine):
    name = "vod_segments"

    def budget(self, tier):
        return 700 if tier == "quick" else 25_000

    def strategy(self, tier):
        from hypothesis import strategies as st
        from .. import app
        app.boot()
        return st.fixed_dictionaries({"stream": _streams(), "opts": _opts(), "by_time": st.booleans()})

    def check(self, case):
        return check_vod(case)


class LiveSegments(Engine):
    name = "live_segments"

    def budget(self, tier):
        return 500 if tier == "quick" else 20_000

    def strategy(self, tier):
        from hypothesis import strategies as st
        from .. import app, strategies
        from .c01 import live_templates
        app.boot()
        return st.fixed_dictionaries({
            "stream": _streams(), "template": st.sampled_from(live_templates()),
            "opts": st.tuples(_opts(), st.fixed_dictionaries({}, optional={"timeline": st.sampled_from(["0", "1"])})).map(
                lambda t: {**t[0], **t[1]}),
            "clock": strategies.live_clock(), "interior": st.lists(st.integers(0, 10**6), min_size=4, max_size=4)})

    def check(self, case):
        return check_live(case)


ENGINES = [VodSegments(), LiveSegments()]
