"""C11 - DRM key and licence data is cryptographically and structurally correct."""
from __future__ import annotations

import base64
import hashlib
import json
import struct
import uuid

from ..runner import Engine, Outcome

PROPERTY = "C11"
RULE = ("crypto_diff: (kid, key, seed length 0-64) triples against hashlib/uuid/own-AES re-statements; "
        "pro_roundtrip: key sets of 1-5 keys x PlayReady version {absent,1.0..4.0} x header version "
        "{absent,4.0..4.3} x licence URL (plain, with {cfgs}/{default_kid}/{kids} fields, reserved characters, stray "
        "braces) parsed back with struct+UTF-16+lxml; clearkey: POST /clearkey with kids drawn from known, unknown, "
        "duplicated, badly padded, non-base64, non-string entries and non-object bodies; manifest_vs_init: "
        "generated DRM selection x template x stream, ContentProtection elements compared with the init segment "
        "of the same request. Non-trivial: key set >= 2, URL needs escaping / has format fields, request mixes "
        "known and unknown ids, or >= 1 ContentProtection payload compared. distinct = canonical JSON of case.")
ASSUMPTIONS = [
    "Microsoft PlayReady key-seed algorithm as published (SHA-256 A/B/C over the 30-byte truncated seed and the "
    "GUID-ordered key id, XOR of the six 16-byte halves); RFC 4122 bytes_le; FIPS-197 (vt/aes.py)",
    "PlayReady Object layout: u32le length, u16le record count, records (u16le type, u16le length, UTF-16LE XML)",
    "W3C ClearKey licence format: keys[].kid/k are unpadded base64url",
    "vt/shims stand in for flask_login, sqlalchemy_jsonfield, dotenv, netifaces; harness-controlled clock",
]
WRM_NS = "{http://schemas.microsoft.com/DRM/2007/03/PlayReadyHeader}"
PLAYREADY_ID = "9a04f079-9840-4286-ab92-e65be0885f95"
PLAYREADY_ID_V10 = "79f0049a-4098-8642-ab92-e65be0885f95"
CLEARKEY_MPD = "e2719d58-a985-b3c9-781a-b030af78d30e"
CLEARKEY_PSSH = "1077efec-c0b2-4d02-ace3-3c1e52e2fb4b"
MARLIN = "5e629af5-38da-4063-8977-97ffbd9902d4"


def ref_content_key(kid: bytes, seed: bytes) -> bytes:
    s = seed[:30]
    g = uuid.UUID(bytes=kid).bytes_le
    a = hashlib.sha256(s + g).digest()
    b = hashlib.sha256(s + g + s).digest()
    c = hashlib.sha256(s + g + s + g).digest()
    return bytes(a[i] ^ a[i + 16] ^ b[i] ^ b[i + 16] ^ c[i] ^ c[i + 16] for i in range(16))


def parse_pro(pro: bytes) -> dict:
    from lxml import etree
    if len(pro) < 6:
        raise ValueError("PRO shorter than its header")
    length, count = struct.unpack_from("<IH", pro, 0)
    if length != len(pro):
        raise ValueError(f"PRO length field {length} != actual {len(pro)}")
    pos = 6
    out = {"records": 0}
    for _ in range(count):
        rtype, rlen = struct.unpack_from("<HH", pro, pos)
        pos += 4
        rec = pro[pos:pos + rlen]
        if len(rec) != rlen:
            raise ValueError("record truncated")
        pos += rlen
        out["records"] += 1
        if rtype != 1:
            continue
        text = rec.decode("utf-16-le")
        root = etree.fromstring(text.encode("utf-8"))
        if root.tag != WRM_NS + "WRMHEADER":
            raise ValueError(f"root element {root.tag}")
        out["version"] = root.get("version")
        kids = []
        for k in root.iter(WRM_NS + "KID"):
            val = k.get("VALUE") or (k.text or "").strip()
            chk = k.get("CHECKSUM")
            kids.append((base64.b64decode(val), base64.b64decode(chk) if chk else None, k.get("ALGID")))
        out["kids"] = kids
        data = root.find(WRM_NS + "DATA")
        la = data.find(WRM_NS + "LA_URL")
        out["la_url"] = None if la is None else (la.text or "")
        cs = data.find(WRM_NS + "CHECKSUM")
        out["checksum"] = base64.b64decode(cs.text) if cs is not None and cs.text else None
    if pos != len(pro):
        raise ValueError("records do not fill the object")
    return out


class CryptoDiff(Engine):
    name = "crypto_diff"

    def budget(self, tier):
        return 20_000 if tier == "quick" else 1_500_000

    def strategy(self, tier):
        from hypothesis import strategies as st
        b16 = st.binary(min_size=16, max_size=16).map(bytes.hex)
        return st.fixed_dictionaries({
            "kid": st.one_of(b16, st.sampled_from(["00" * 16, "ff" * 16, "0123456789abcdef0123456789abcdef"])),
            "key": b16,
            "seed": st.one_of(st.binary(min_size=30, max_size=64), st.binary(min_size=0, max_size=29),
                              st.just(b"")).map(bytes.hex),
            "default_seed": st.booleans(),
        })

    def check(self, case):
        from .. import aes, app
        app.boot()
        from dashlive.drm.playready import PlayReady
        out = Outcome()
        kid, key, seed = bytes.fromhex(case["kid"]), bytes.fromhex(case["key"]), bytes.fromhex(case["seed"])
        # GUID order, raw and text forms
        want = uuid.UUID(bytes=kid).bytes_le
        try:
            got = PlayReady.hex_to_le_guid(kid, raw=True)
            if bytes(got) != want:
                out.fail("guid/raw-order", f"kid {kid.hex()} -> {bytes(got).hex()} want {want.hex()}")
            txt = PlayReady.hex_to_le_guid(str(uuid.UUID(bytes=kid)), raw=False)
            if txt.replace("-", "").lower() != want.hex():
                out.fail("guid/text-order", f"kid {kid.hex()} -> {txt} want {want.hex()}")
        except Exception as exc:
            out.fail(f"guid/raises/{type(exc).__name__}", f"{kid.hex()}: {exc!r}")
        # content key
        use_seed = None if case["default_seed"] else seed
        eff = PlayReady.TEST_KEY_SEED if use_seed is None else seed
        try:
            ck = PlayReady.generate_content_key(kid, use_seed)
            if len(eff) < 30:
                out.fail("content-key/short-seed-accepted", f"seed of {len(eff)} bytes")
            elif bytes(ck) != ref_content_key(kid, eff):
                out.fail("content-key/differs-from-published-algorithm", f"kid {kid.hex()} seed {eff.hex()}: {bytes(ck).hex()} want {ref_content_key(kid, eff).hex()}")
        except ValueError:
            if len(eff) >= 30:
                out.fail("content-key/valid-seed-rejected", f"seed of {len(eff)} bytes")
        except Exception as exc:
            out.fail(f"content-key/raises/{type(exc).__name__}", f"{exc!r}")
        # checksum
        try:
            from dashlive.drm.key_tuple import KeyTuple
            from dashlive.drm.keymaterial import KeyMaterial
            kp = KeyTuple(KID=KeyMaterial(raw=kid), KEY=KeyMaterial(raw=key), ALG="AESCTR")
            cs = PlayReady().generate_checksum(kp)
            ref = aes.encrypt_block(key, want)[:8]
            if bytes(cs) != ref:
                out.fail("checksum/differs-from-aes-ecb", f"kid {kid.hex()} key {key.hex()}: {bytes(cs).hex()} want {ref.hex()}")
        except Exception as exc:
            out.fail(f"checksum/raises/{type(exc).__name__}", f"{exc!r}")
        out.weight = 4
        out.cls("seed>=30" if len(eff) >= 30 else "seed<30", "default-seed" if case["default_seed"] else "own-seed")
        out.nontrivial = True
        return out


class ProRoundTrip(Engine):
    name = "pro_roundtrip"

    def budget(self, tier):
        return 6_000 if tier == "quick" else 400_000

    def strategy(self, tier):
        from hypothesis import strategies as st
        b16 = st.binary(min_size=16, max_size=16).map(bytes.hex)
        keyset = st.lists(st.tuples(b16, b16, st.booleans()), min_size=1, max_size=5, unique_by=lambda t: t[0])
        tail = st.text("abcXYZ019-_.~!*'();:@&=+$,/?#[]% <>\"|\\^`", max_size=20)
        url = st.one_of(
            st.just(None),
            st.tuples(st.sampled_from(["https://lic.example/rm.asmx", "http://h/p"]), tail).map(lambda t: t[0] + "?x=" + t[1]),
            st.sampled_from(["https://test.playready.microsoft.com/service/rightsmanager.asmx?cfg={cfgs}",
                             "https://l.example/{default_kid}", "https://l.example/?k={kids}&c={cfgs}"]),
            st.tuples(st.just("https://l.example/"), st.sampled_from(["{foo}", "{", "}", "{0}", "{{ok}}"])).map("".join),
        )
        return st.fixed_dictionaries({
            "keys": keyset, "default": st.integers(0, 4),
            "version": st.sampled_from([None, 1.0, 2.0, 3.0, 4.0]),
            "header_version": st.sampled_from([None, None, 4.0, 4.1, 4.2, 4.3]),
            "la_url": url, "alg": st.sampled_from(["AESCTR", "AESCTR", "AESCTR", "AESCBC"]),
        })

    def check(self, case):
        from .. import aes, app
        env = app.shared_env()
        from dashlive.drm.playready import PlayReady
        from dashlive.server import models
        out = Outcome()
        keys = {}
        for kid, key, computed in case["keys"]:
            k = models.Key(hkid=kid, hkey=key, computed=computed, halg=None if case["alg"] == "AESCTR" else case["alg"])
            keys[kid] = k
        kids = list(keys)
        default_kid = kids[case["default"] % len(kids)]
        la = case["la_url"]
        braces = la is not None and any(b in la.replace("{cfgs}", "").replace("{default_kid}", "").replace("{kids}", "")
                                        for b in "{}")
        n = len(keys)
        v, hv = case["version"], case["header_version"]
        # documented header-version rule
        if hv is not None:
            want_hv = hv
        elif case["alg"] != "AESCTR":
            want_hv = 4.3
        elif n == 1:
            want_hv = 4.1 if (v is not None and v >= 2.0) else 4.0
        else:
            want_hv = 4.2
        unsupported = hv is None and v is not None and ((want_hv == 4.3 and v < 4.0) or (want_hv == 4.2 and v < 3.0) or (want_hv == 4.1 and v < 2.0))
        out.cls(f"keys:{min(n, 3)}", f"hv:{want_hv}", "url:" + ("none" if la is None else "braces" if braces else "fields" if "{" in la else "plain"))
        desc = f"keys {n} default {default_kid} version {v} header_version {hv} alg {case['alg']} la_url {la!r}"
        with env.app.test_request_context("/"):
            try:
                pro = PlayReady(la_url=la, version=v, header_version=hv).generate_pro(la, default_kid, keys, None)
            except (ValueError, KeyError, IndexError) as exc:
                if braces:
                    # a brace that is not one of the documented format fields is not a legal URL character;
                    # what the HTTP endpoints do with such a value is judged by C16, not here
                    out.trivial = "la-url-with-stray-braces"
                    return out
                if not isinstance(exc, ValueError):
                    out.fail(f"pro/raises/{type(exc).__name__}", f"{desc}: {exc!r}")
                    return out
                if not unsupported:
                    out.fail("pro/supported-combination-rejected", f"{desc}: {exc!r}")
                else:
                    out.cls("unsupported-raises-ValueError")
                return out
            except Exception as exc:
                out.fail(f"pro/raises/{type(exc).__name__}", f"{desc}: {exc!r}")
                return out
        if unsupported:
            out.fail("pro/unsupported-combination-accepted", desc)
        try:
            p = parse_pro(pro)
        except Exception as exc:
            out.fail(f"pro/unparsable/{type(exc).__name__}", f"{desc}: {exc!r}")
            return out
        if p.get("version") != f"{want_hv}.0.0":
            out.fail("pro/header-version", f"{desc}: WRMHEADER version {p.get('version')} want {want_hv}.0.0")
        guid = lambda hx: uuid.UUID(bytes=bytes.fromhex(hx)).bytes_le
        got_kids = [k for k, _, _ in p["kids"]]
        if want_hv in (4.0, 4.1):
            if got_kids != [guid(default_kid)]:
                out.fail(f"pro/kid/{want_hv}", f"{desc}: {[k.hex() for k in got_kids]} want {guid(default_kid).hex()}")
        else:
            if sorted(got_kids) != sorted(guid(k) for k in kids):
                out.fail(f"pro/kids/{want_hv}", f"{desc}: {[k.hex() for k in got_kids]}")
        # checksums
        for k, chk, alg in p["kids"]:
            if chk is not None:
                src = next((h for h in kids if guid(h) == k), None)
                if src is not None and chk != aes.encrypt_block(bytes.fromhex(keys[src].hkey), k)[:8]:
                    out.fail("pro/kid-checksum", f"{desc}: kid {k.hex()} checksum {chk.hex()}")
        if p.get("checksum") is not None:
            if p["checksum"] != aes.encrypt_block(bytes.fromhex(keys[default_kid].hkey), guid(default_kid))[:8]:
                out.fail("pro/checksum", f"{desc}: {p['checksum'].hex()}")
        if la is not None and "{" not in la and "}" not in la:
            if p.get("la_url") != la:
                out.fail("pro/la-url-changed", f"{desc}: WRMHEADER LA_URL {p.get('la_url')!r}")
        elif la == "https://l.example/{default_kid}" and p.get("la_url") != f"https://l.example/{default_kid}":
            out.fail("pro/la-url-format-field", f"{desc}: {p.get('la_url')!r}")
        out.nontrivial = n >= 2 or (la is not None and any(c in la for c in "&<>\"'{}%+ "))
        return out


class ClearKeyEndpoint(Engine):
    name = "clearkey"

    def budget(self, tier):
        return 3_000 if tier == "quick" else 200_000

    def strategy(self, tier):
        from hypothesis import strategies as st
        kid = st.one_of(
            st.tuples(st.just("known"), st.integers(0, 7)),
            st.tuples(st.just("unknown"), st.binary(min_size=16, max_size=16).map(bytes.hex)),
            st.tuples(st.just("padded"), st.integers(0, 7)),
            st.tuples(st.just("short"), st.binary(min_size=0, max_size=15).map(bytes.hex)),
            st.tuples(st.just("text"), st.text(max_size=12)),
            st.tuples(st.just("json"), st.one_of(st.none(), st.integers(), st.booleans(), st.lists(st.integers(), max_size=2),
                                               st.dictionaries(st.text(max_size=3), st.integers(), max_size=1))),
        )
        body = st.one_of(
            st.fixed_dictionaries({"kids": st.lists(kid, max_size=6)}, optional={"type": st.sampled_from(["temporary", "persistent-license", 5, None])}).map(lambda d: ["object", d]),
            st.sampled_from([[], [1], "kids", 5, None, {"kid": []}, {"kids": "abc"}, {"kids": None}, {"kids": {"a": 1}}]).map(lambda v: ["raw", v]),
            st.text(max_size=20).map(lambda t: ["notjson", t]),
        )
        return st.fixed_dictionaries({"body": body})

    def check(self, case):
        from .. import app, clock
        env = app.shared_env()
        out = Outcome()
        clock.set_now("2024-05-05T10:00:00Z")
        with env.app.app_context():
            from dashlive.server import models
            known = sorted((k.hkid.lower(), k.hkey.lower()) for k in models.Key.all())
        b64u = lambda raw: base64.urlsafe_b64encode(raw).decode().rstrip("=")
        kind, payload = case["body"]
        want = None
        if kind == "object":
            kids_txt = []
            want = {}
            valid = True
            for k, v in payload["kids"]:
                if k == "known":
                    hk, hv = known[v % len(known)]
                    kids_txt.append(b64u(bytes.fromhex(hk)))
                    want[hk] = hv
                elif k == "padded":
                    hk, hv = known[v % len(known)]
                    kids_txt.append(base64.urlsafe_b64encode(bytes.fromhex(hk)).decode())
                    want[hk] = hv
                elif k == "unknown":
                    kids_txt.append(b64u(bytes.fromhex(v)))
                elif k == "short":
                    kids_txt.append(b64u(bytes.fromhex(v)))
                elif k == "text":
                    kids_txt.append(v)
                    valid = False
                else:
                    kids_txt.append(v)
                    valid = False
            body = dict(payload, kids=kids_txt)
            data, ctype = json.dumps(body), "application/json"
            out.cls("object", "mixed" if want and len(want) < len(kids_txt) else "plain")
        elif kind == "raw":
            data, ctype = json.dumps(payload), "application/json"
            valid = False
            out.cls("raw-json")
        else:
            data, ctype = payload.encode("utf-8"), "application/json"
            valid = False
            out.cls("not-json")
        r = env.request("POST", "/clearkey", data=data, content_type=ctype)
        desc = f"POST /clearkey {data if isinstance(data, str) else data[:60]!r} -> {r.status}"
        if r.status >= 500 or r.exc is not None:
            out.fail(f"clearkey/5xx/{type(r.exc).__name__ if r.exc else r.status}/{r.exc_where}", f"{desc} {r.exc!r}")
            return out
        if kind == "object" and valid and r.status == 200:
            try:
                js = json.loads(r.body)
            except Exception:
                out.fail("clearkey/response-not-json", desc)
                return out
            if js.get("error"):
                # a well-formed request for known/unknown ids must be answered
                if "type" in payload and isinstance(payload.get("type"), str):
                    out.fail("clearkey/valid-request-error", f"{desc}: {js.get('error')}")
                return out
            got = {}
            for item in js.get("keys", []):
                for fld in ("kid", "k"):
                    if "=" in item[fld] or "+" in item[fld] or "/" in item[fld]:
                        out.fail("clearkey/not-unpadded-base64url", f"{desc}: {item}")
                pad = lambda t: t + "=" * (-len(t) % 4)
                got[base64.urlsafe_b64decode(pad(item["kid"])).hex()] = base64.urlsafe_b64decode(pad(item["k"])).hex()
                if item.get("kty") != "oct":
                    out.fail("clearkey/kty", f"{desc}: {item}")
            if got != want:
                extra = set(got) - set(want)
                missing = set(want) - set(got)
                wrong = {k for k in set(got) & set(want) if got[k] != want[k]}
                why = "extra-keys" if extra else "missing-keys" if missing else "wrong-key"
                out.fail(f"clearkey/{why}", f"{desc}: got {sorted(got)} want {sorted(want)} wrong {sorted(wrong)}")
            out.nontrivial = bool(want) and len(want) < len(payload["kids"])
        elif kind == "object" and valid and r.status != 200 and isinstance(payload.get("type"), str):
            out.fail(f"clearkey/valid-request-refused/{r.status}", desc)
        return out


class ManifestVsInit(Engine):
    name = "manifest_vs_init"

    def budget(self, tier):
        return 900 if tier == "quick" else 40_000

    def strategy(self, tier):
        from hypothesis import strategies as st
        from .. import strategies
        from .c10 import SYNTH_SPECS
        return st.fixed_dictionaries({
            "stream": st.sampled_from(["bbb", "bbb", {"synth": SYNTH_SPECS[0]}]),
            "template": st.sampled_from(["hand_made.mpd", "manifest_e.mpd", "manifest_h.mpd", "manifest_i.mpd",
                                         "manifest_n.mpd", "manifest_ef.mpd", "manifest_b.mpd"]),
            "mode": st.sampled_from(["live", "vod"]),
            "drm": strategies.drm_selection(allow_none=False),
            "version": st.sampled_from([None, "1.0", "2.0", "3.0", "4.0"]),
        })

    def check(self, case):
        from .. import app, clock, isobox, mpd, session
        from .c10 import expected_selection, parse_wrmheader_kids
        env = app.shared_env()
        out = Outcome()
        stream = session.resolve_stream(env, case["stream"])
        q = f"?drm={case['drm']}" + (f"&playready__version={case['version']}" if case["version"] else "")
        url = f"/dash/{case['mode']}/{stream}/{case['template']}{q}"
        T = clock.parse_iso("2024-05-05T10:00:00Z")
        s = session.Session(env, T, url).load()
        out.cls("tpl:" + case["template"], case["mode"])
        if s.resp.status != 200 or s.mpd is None:
            out.trivial = f"manifest-{s.resp.status}"
            return out
        sel = expected_selection(case["drm"])
        ver = float(case["version"]) if case["version"] else None
        files = env.streams[stream]["files"]
        compared = 0
        CENC = "{urn:mpeg:cenc:2013}"
        MSPR = "{urn:microsoft:playready}"
        for rep in s.mpd.reps:
            finfo = files.get(rep.id)
            if finfo is None or not finfo.get("encrypted"):
                continue
            sc = session.scan(finfo["path"])
            kid = sc["kid"]
            cps = rep.aset.findall(mpd.Q + "ContentProtection") + rep.el.findall(mpd.Q + "ContentProtection")
            where = f"{url} rep {rep.id}"
            by_scheme = {}
            for cp in cps:
                by_scheme.setdefault((cp.get("schemeIdUri") or "").lower(), []).append(cp)
            generic = by_scheme.get("urn:mpeg:dash:mp4protection:2011", [])
            if not generic:
                out.fail("cp/mp4protection-missing", where)
            for cp in generic + [c for k, v in by_scheme.items() for c in v if c.get(CENC + "default_KID")]:
                dk = cp.get(CENC + "default_KID")
                if dk is not None and uuid.UUID(dk).bytes != kid:
                    out.fail("cp/default-kid", f"{where}: {dk} track kid {kid.hex()}")
            systems_present = set()
            if "urn:uuid:" + MARLIN in by_scheme:
                systems_present.add("marlin")
            if "urn:uuid:" + PLAYREADY_ID in by_scheme or "urn:uuid:" + PLAYREADY_ID_V10 in by_scheme:
                systems_present.add("playready")
            if "urn:uuid:" + CLEARKEY_MPD in by_scheme or "urn:uuid:" + CLEARKEY_PSSH in by_scheme:
                systems_present.add("clearkey")
            if systems_present != set(sel):
                out.fail("cp/systems-differ-from-selection/" + ("extra" if systems_present - set(sel) else "missing"),
                         f"{where}: manifest has {sorted(systems_present)} selection {sorted(sel)}")
            # init segment of the same request
            iu = rep.init_url()
            r = s.fetch(iu) if iu else None
            init_pssh = {}
            if r is not None and r.status == 200:
                try:
                    root = isobox.Root(r.body)
                    moov = next(b for b in root.children if b.type == b"moov")
                    for b in moov.children:
                        if b.type == b"pssh":
                            init_pssh[isobox.pssh(b)["system_id"].hex()] = b.raw
                except Exception as exc:
                    out.fail(f"init-unreadable/{type(exc).__name__}", f"{where}: {exc}")
            # playready payloads
            pr = by_scheme.get("urn:uuid:" + PLAYREADY_ID, []) + by_scheme.get("urn:uuid:" + PLAYREADY_ID_V10, [])
            if "playready" in sel and pr:
                cp = pr[0]
                locs = sel["playready"]
                pssh_el, pro_el = cp.find(CENC + "pssh"), cp.find(MSPR + "pro")
                v10 = ver == 1.0
                if ("cenc" in locs and not v10) != (pssh_el is not None):
                    out.fail("cp/playready/cenc-pssh-presence", f"{where}: locations {sorted(locs)} version {ver} pssh element {pssh_el is not None}")
                if ("pro" in locs) != (pro_el is not None):
                    out.fail("cp/playready/pro-presence", f"{where}: locations {sorted(locs)} pro element {pro_el is not None}")
                pro_from_pssh = None
                if pssh_el is not None:
                    try:
                        raw = base64.b64decode(pssh_el.text.strip())
                        box = isobox.Root(raw).children[0]
                        pp = isobox.pssh(box)
                        pro_from_pssh = pp["data"]
                        compared += 1
                        if pp["system_id"].hex() != PLAYREADY_ID.replace("-", ""):
                            out.fail("cp/playready/pssh-system-id", where)
                        if "moov" in locs and init_pssh.get(pp["system_id"].hex()) not in (None, raw):
                            out.fail("cp/playready/pssh-differs-from-init", f"{where}")
                        kids, _, _ = parse_wrmheader_kids(pp["data"])
                        if uuid.UUID(bytes=kid).bytes_le not in kids:
                            out.fail("cp/playready/pssh-kid", where)
                    except Exception as exc:
                        out.fail(f"cp/playready/pssh-undecodable/{type(exc).__name__}", f"{where}: {exc}")
                if pro_el is not None:
                    try:
                        pro = base64.b64decode(pro_el.text.strip())
                        compared += 1
                        kids, _, _ = parse_wrmheader_kids(pro)
                        if uuid.UUID(bytes=kid).bytes_le not in kids:
                            out.fail("cp/playready/pro-kid", where)
                        if pro_from_pssh is not None and pro != pro_from_pssh:
                            out.fail("cp/playready/pro-differs-from-pssh", where)
                        ip = init_pssh.get(PLAYREADY_ID.replace("-", ""))
                        if ip is not None and isobox.pssh(isobox.Root(ip).children[0])["data"] != pro:
                            out.fail("cp/playready/pro-differs-from-init", where)
                    except Exception as exc:
                        out.fail(f"cp/playready/pro-undecodable/{type(exc).__name__}", f"{where}: {exc}")
            ck = by_scheme.get("urn:uuid:" + CLEARKEY_PSSH, [])
            if "clearkey" in sel:
                has = any(c.find(CENC + "pssh") is not None for c in ck)
                if ("cenc" in sel["clearkey"]) != has:
                    out.fail("cp/clearkey/cenc-pssh-presence", f"{where}: locations {sorted(sel['clearkey'])} element {has}")
                for c in ck:
                    el = c.find(CENC + "pssh")
                    if el is None:
                        continue
                    try:
                        raw = base64.b64decode(el.text.strip())
                        pp = isobox.pssh(isobox.Root(raw).children[0])
                        compared += 1
                        if pp["kids"] != [kid] and set(pp["kids"]) != {kid}:
                            out.fail("cp/clearkey/pssh-kids", f"{where}: {[k.hex() for k in pp['kids']]}")
                        ip = init_pssh.get(CLEARKEY_PSSH.replace("-", ""))
                        if "moov" in sel["clearkey"] and ip is not None and ip != raw:
                            out.fail("cp/clearkey/pssh-differs-from-init", where)
                    except Exception as exc:
                        out.fail(f"cp/clearkey/pssh-undecodable/{type(exc).__name__}", f"{where}: {exc}")
        out.nontrivial = compared > 0
        out.weight = max(1, compared)
        seen = {}
        for sg, d in out.violations:
            seen.setdefault(sg, d)
        out.violations = list(seen.items())
        return out


ENGINES = [CryptoDiff(), ProRoundTrip(), ClearKeyEndpoint(), ManifestVsInit()]
