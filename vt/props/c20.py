"""C20 - the windowed BufferedReader behaves exactly like a slice of the file.

Model-based operation sequences: the reference model is io.BytesIO over
file[offset:offset+size]; after every operation return value, type and position
are compared.  The module clock used for LRU stamps is driven by the case, so
eviction order (including ties) is a pure function of the case.
"""
from __future__ import annotations

import io
import os
import tempfile

from ..runner import Engine, Outcome

PROPERTY = "C20"
RULE = ("Hypothesis generates (file bytes 0-300, offset, explicit size <= remaining or - one case in five - an open-ended "
        "window with size=None where steps past the still unknown end are skipped, buffersize 1-40, "
        "max_buffers 2-5, backing object BytesIO / unbuffered file / data=, a clock sequence for LRU stamps) "
        "and a sequence of up to 40 read/readall/peek/seek/tell operations; every step is compared with "
        "io.BytesIO over the window. Non-trivial: a read or peek that spans >= 2 buckets after at least one "
        "eviction has happened. distinct = distinct canonical JSON of the whole case.")
ASSUMPTIONS = [
    "io.BytesIO over the window slice is the reference model (seek results clamped to [0,size], as the statement says)",
    "read(n) is exercised for n = -1 and n >= 0, peek(n) for n >= 1 (the documented domain; peek asserts size > 0)",
    "peek may return more than n bytes; only its first min(len, remaining) bytes are compared with the window",
]


def execute(case) -> Outcome:
    from dashlive.utils import buffered_reader as br

    out = Outcome()
    data = bytes(case["file"])
    offset, size = case["offset"], case["size"]
    # open-ended window: the constructor gets size=None (what Mp4Atom.load callers do) and the window runs to the
    # end of the file; until the reader has learnt the size (first seek from the end) a seek past the end is not
    # clamped by the reader and not covered by the statement, so those steps are skipped (counted).
    open_ended = bool(case.get("open"))
    if open_ended:
        size = len(data) - offset
    size_known = not open_ended
    window = data[offset:offset + size]
    clock = list(case["clock"]) or [0]
    state = {"i": 0, "reads": 0}

    class FakeTime:
        @staticmethod
        def time():
            v = clock[state["i"] % len(clock)]
            state["i"] += 1
            return float(v)

    tmp_path = None
    backing = case["backing"]
    if backing == "file":
        fd, tmp_path = tempfile.mkstemp(prefix="vt-c20-", dir=os.environ.get("VT_TMP") or None)
        os.write(fd, data)
        os.close(fd)
        raw = open(tmp_path, "rb", buffering=0)
    else:
        raw = io.BytesIO(data)

    class Counting:
        """Pass-through that counts block loads (to know when an eviction must have occurred)."""
        def __init__(self, f):
            self.f = f

        def read(self, *a):
            state["reads"] += 1
            return self.f.read(*a)

        def readinto(self, b):
            # real sources (FileIO, BytesIO, blob handles) offer readinto; a reader that uses it must still agree
            state["reads"] += 1
            return self.f.readinto(b)

        def seek(self, *a):
            return self.f.seek(*a)

        def tell(self):
            return self.f.tell()

    real_time = br.time
    br.time = FakeTime
    try:
        if backing == "data":
            r = br.BufferedReader(None, data=window)
            out.cls("backing:data")
        else:
            r = br.BufferedReader(Counting(raw), buffersize=case["buffersize"], offset=offset,
                                  size=None if open_ended else size, max_buffers=case["max_buffers"])
            out.cls("backing:" + backing)
        bs = r.buffersize or 1
        pos = 0
        evicted = False
        spanning_after_evict = False
        for idx, op in enumerate(case["ops"]):
            kind = op[0]
            where = f"step {idx} {op} (pos {pos}, size {size}, buffersize {bs}, offset {offset})"
            try:
                if kind == "read":
                    n = op[1]
                    if not size_known and n != -1 and (n == 0 or pos + n > size):
                        out.cls("open/skipped-read-past-unknown-end")
                        continue
                    want = window[pos:] if n == -1 else window[pos:pos + n]
                    got = r.read() if op[1] == -1 and op[2] else r.read(n)
                    eof = "eof" if pos >= size else ("zero" if n == 0 else "data")
                    if not isinstance(got, (bytes, bytearray)):
                        out.fail(f"read/returns-{type(got).__name__}/{eof}", f"{where}: {got!r}")
                        got = b"" if got == "" else got
                    if bytes(got) != want if isinstance(got, (bytes, bytearray)) else True:
                        sub = "readall" if n == -1 else "read"
                        out.fail(f"{sub}/wrong-bytes", f"{where}: got {bytes(got)[:40]!r} (len {len(got)}) want {want[:40]!r} (len {len(want)})")
                    if len(want) and (pos // bs) != ((pos + len(want) - 1) // bs) and evicted:
                        spanning_after_evict = True
                    pos += len(want)
                elif kind == "peek":
                    n = op[1]
                    remaining = size - pos
                    if not size_known and n > remaining:
                        out.cls("open/skipped-peek-past-unknown-end")
                        continue
                    got = r.peek(n)
                    if not isinstance(got, (bytes, bytearray)):
                        eof = "eof" if remaining == 0 else "data"
                        out.fail(f"peek/returns-{type(got).__name__}/{eof}", f"{where}: {got!r}")
                        got = b"" if got == "" else got
                    if isinstance(got, (bytes, bytearray)):
                        need = min(n, remaining)
                        if len(got) < need:
                            out.fail("peek/too-short", f"{where}: got {len(got)} need {need}")
                        k = min(len(got), remaining)
                        if bytes(got[:k]) != window[pos:pos + k]:
                            out.fail("peek/wrong-bytes", f"{where}: got {bytes(got[:k])[:40]!r} want {window[pos:pos + k][:40]!r}")
                        if need and (pos // bs) != ((pos + need - 1) // bs) and evicted:
                            spanning_after_evict = True
                elif kind == "seek":
                    o, whence = op[1], op[2]
                    base = {0: 0, 1: pos, 2: size}[whence]
                    if not size_known and whence != 2 and base + o > size:
                        out.cls("open/skipped-seek-past-unknown-end")
                        continue
                    if whence == 2:
                        size_known = True
                    want = max(0, min(size, base + o))
                    got = r.seek(o, whence)
                    if got != want:
                        out.fail("seek/wrong-result", f"{where}: got {got} want {want}")
                    pos = want
                elif kind == "tell":
                    pass
                t = r.tell()
                if t != pos:
                    out.fail(f"{kind}/position-wrong-after", f"{where}: tell {t} want {pos}")
                    r.seek(pos)     # resynchronise so later steps are still meaningful
                if backing != "data":
                    if len(r.buffers) > case["max_buffers"]:
                        out.fail("cache/more-than-max-buffers", f"{where}: {len(r.buffers)}")
                    if state["reads"] > len(r.buffers):
                        evicted = True
            except Exception as exc:  # the reader must not raise on its documented domain
                out.fail(f"{kind}/raises/{type(exc).__name__}", f"{where}: {exc!r}")
                break
        out.cls("evicted" if evicted else "no-eviction",
                "window-to-eof" if offset + size == len(data) else "window-before-eof",
                "bs-divides" if size and size % bs == 0 else "bs-not-dividing",
                "offset0" if offset == 0 else "offset>0", "open-ended" if open_ended else "explicit-size")
        out.nontrivial = spanning_after_evict
        out.weight = max(1, len(case["ops"]))
    finally:
        br.time = real_time
        try:
            raw.close()
        except Exception:
            pass
        if tmp_path:
            os.unlink(tmp_path)
    # one signature once
    seen = {}
    for s, d in out.violations:
        seen.setdefault(s, d)
    out.violations = list(seen.items())
    return out


class ReaderModel(Engine):
    name = "reader_model"

    def budget(self, tier):
        return 40_000 if tier == "quick" else 3_000_000

    def strategy(self, tier):
        from hypothesis import strategies as st

        @st.composite
        def case(draw):
            n = draw(st.one_of(st.integers(0, 300), st.integers(20, 120)))
            # position-coded bytes make any shifted or foreign byte identifiable
            salt = draw(st.integers(0, 255))
            data = [(i * 7 + salt) % 256 for i in range(n)]
            offset = draw(st.integers(0, n))
            rem = n - offset
            size = draw(st.one_of(st.just(rem), st.integers(0, rem)))
            backing = draw(st.sampled_from(["bytesio", "bytesio", "bytesio", "file", "data"]))
            bsz = draw(st.one_of(st.integers(1, 40), st.integers(1, 8), st.integers(1, 6)))
            maxb = draw(st.one_of(st.integers(2, 5), st.integers(2, 3)))
            clock_kind = draw(st.sampled_from(["inc", "const", "dec", "rand"]))
            if clock_kind == "inc":
                clock = list(range(64))
            elif clock_kind == "const":
                clock = [5]
            elif clock_kind == "dec":
                clock = list(range(64, 0, -1))
            else:
                clock = draw(st.lists(st.integers(0, 6), min_size=1, max_size=12))
            lim = max(2, 2 * size + 2)
            op = st.one_of(
                st.tuples(st.just("read"), st.one_of(st.integers(0, lim), st.integers(0, 3 * bsz), st.just(-1)), st.booleans()),
                st.tuples(st.just("peek"), st.one_of(st.integers(1, lim), st.integers(1, 3 * bsz))),
                st.tuples(st.just("seek"), st.integers(-lim, lim), st.sampled_from([0, 1, 2])),
                st.tuples(st.just("seek"), st.integers(0, max(0, size)), st.just(0)),
                st.tuples(st.just("tell")),
            )
            ops = draw(st.lists(op, min_size=1, max_size=40))
            open_ended = backing != "data" and draw(st.integers(0, 4)) == 0
            if open_ended:
                size = rem
            return {"file": data, "offset": offset, "size": size, "open": open_ended, "backing": backing, "buffersize": bsz,
                    "max_buffers": maxb, "clock": clock, "ops": [list(o) for o in ops]}
        return case()

    def check(self, case):
        return execute(case)


ENGINES = [ReaderModel()]
