"""Independent ISO-BMFF reader/writer (ISO/IEC 14496-12, 23001-7).  struct only:
imports NOTHING from dashlive.  Used as the oracle for served segments.
"""
from __future__ import annotations

import struct

CONTAINERS = {b"moov", b"trak", b"mdia", b"minf", b"stbl", b"mvex", b"moof", b"traf", b"dinf",
              b"edts", b"sinf", b"schi", b"udta", b"mfra"}
SAMPLE_ENTRIES_VIDEO = {b"avc1", b"avc3", b"hev1", b"hvc1", b"encv"}
SAMPLE_ENTRIES_AUDIO = {b"mp4a", b"ec-3", b"ac-3", b"enca"}
SAMPLE_ENTRIES_TEXT = {b"stpp", b"wvtt", b"enct"}
PIFF_SENC_UUID = bytes.fromhex("a2394f525a9b4f14a2446c427c648df4")


class BoxError(Exception):
    pass


class Box:
    __slots__ = ("type", "start", "size", "hdr", "children", "data", "parent", "usertype")

    def __init__(self, type_, start, size, hdr, data, parent=None, usertype=None):
        self.type, self.start, self.size, self.hdr = type_, start, size, hdr
        self.data = data          # the whole buffer (shared); payload = data[start+hdr : start+size]
        self.children: list[Box] = []
        self.parent = parent
        self.usertype = usertype

    @property
    def end(self):
        return self.start + self.size

    @property
    def payload(self) -> bytes:
        return self.data[self.start + self.hdr:self.end]

    @property
    def raw(self) -> bytes:
        return self.data[self.start:self.end]

    def find(self, *path):
        """first descendant following path of fourccs (bytes)."""
        cur = self
        for p in path:
            nxt = None
            for c in cur.children:
                if c.type == p:
                    nxt = c
                    break
            if nxt is None:
                return None
            cur = nxt
        return cur

    def all(self, type_):
        out = []
        for c in self.children:
            if c.type == type_:
                out.append(c)
            out.extend(c.all(type_))
        return out

    def __repr__(self):
        return f"<{self.type.decode('latin1')} @{self.start}+{self.size}>"


def child_offset(type_: bytes) -> int | None:
    """payload offset at which child boxes start, or None for a leaf."""
    if type_ in CONTAINERS:
        return 0
    if type_ == b"stsd":
        return 8
    if type_ == b"meta":
        return 4
    if type_ in SAMPLE_ENTRIES_VIDEO:
        return 78
    if type_ in SAMPLE_ENTRIES_AUDIO:
        return 28
    return None


def parse(data: bytes, start: int = 0, end: int | None = None, parent: Box | None = None,
          strict: bool = True) -> list[Box]:
    """Parse sibling boxes that must exactly tile data[start:end]."""
    if end is None:
        end = len(data)
    boxes = []
    pos = start
    while pos < end:
        if end - pos < 8:
            raise BoxError(f"{end - pos} trailing bytes at {pos} inside {parent!r}")
        size, type_ = struct.unpack_from(">I4s", data, pos)
        hdr = 8
        if size == 1:
            if end - pos < 16:
                raise BoxError(f"truncated largesize at {pos}")
            size = struct.unpack_from(">Q", data, pos + 8)[0]
            hdr = 16
        elif size == 0:
            size = end - pos
        usertype = None
        if type_ == b"uuid":
            usertype = data[pos + hdr:pos + hdr + 16]
            hdr += 16
        if size < hdr or pos + size > end:
            raise BoxError(f"box {type_!r} at {pos} size {size} does not fit in [{start},{end}) of {parent!r}")
        b = Box(type_, pos, size, hdr, data, parent, usertype)
        off = child_offset(type_)
        if off is not None and size - hdr >= off:
            try:
                b.children = parse(data, pos + hdr + off, pos + size, b, strict)
            except BoxError:
                if strict:
                    raise
        boxes.append(b)
        pos += size
    return boxes


class Root(Box):
    def __init__(self, data: bytes, strict=True):
        super().__init__(b"root", 0, len(data), 0, data)
        self.children = parse(data, 0, len(data), None, strict)


# ---------------------------------------------------------------- full boxes

def vf(box: Box):
    v, f = struct.unpack_from(">B3s", box.data, box.start + box.hdr)
    return v, int.from_bytes(f, "big")


def mfhd_seq(box: Box) -> int:
    return struct.unpack_from(">I", box.data, box.start + box.hdr + 4)[0]


def tfdt_time(box: Box):
    v, _ = vf(box)
    p = box.start + box.hdr + 4
    if v == 1:
        return v, struct.unpack_from(">Q", box.data, p)[0]
    return v, struct.unpack_from(">I", box.data, p)[0]


def tfhd(box: Box) -> dict:
    v, f = vf(box)
    p = box.start + box.hdr + 4
    out = {"version": v, "flags": f}
    out["track_id"] = struct.unpack_from(">I", box.data, p)[0]
    p += 4
    for bit, name, fmt in ((0x1, "base_data_offset", ">Q"), (0x2, "sample_description_index", ">I"),
                           (0x8, "default_sample_duration", ">I"), (0x10, "default_sample_size", ">I"),
                           (0x20, "default_sample_flags", ">I")):
        if f & bit:
            out[name] = struct.unpack_from(fmt, box.data, p)[0]
            p += struct.calcsize(fmt)
    out["duration_is_empty"] = bool(f & 0x10000)
    out["default_base_is_moof"] = bool(f & 0x20000)
    if p != box.end:
        raise BoxError(f"tfhd length mismatch: parsed to {p}, box ends {box.end}")
    return out


def trun(box: Box) -> dict:
    v, f = vf(box)
    p = box.start + box.hdr + 4
    count = struct.unpack_from(">I", box.data, p)[0]
    p += 4
    out = {"version": v, "flags": f, "sample_count": count, "data_offset": None, "samples": []}
    if f & 0x1:
        out["data_offset"] = struct.unpack_from(">i", box.data, p)[0]
        p += 4
    if f & 0x4:
        out["first_sample_flags"] = struct.unpack_from(">I", box.data, p)[0]
        p += 4
    per = sum(4 for bit in (0x100, 0x200, 0x400, 0x800) if f & bit)
    if p + per * count != box.end:
        raise BoxError(f"trun length mismatch: {count} samples x {per} from {p} != {box.end}")
    for _ in range(count):
        s = {}
        if f & 0x100:
            s["duration"] = struct.unpack_from(">I", box.data, p)[0]
            p += 4
        if f & 0x200:
            s["size"] = struct.unpack_from(">I", box.data, p)[0]
            p += 4
        if f & 0x400:
            s["flags"] = struct.unpack_from(">I", box.data, p)[0]
            p += 4
        if f & 0x800:
            s["cto"] = struct.unpack_from(">i" if v else ">I", box.data, p)[0]
            p += 4
        out["samples"].append(s)
    return out


def saio(box: Box) -> dict:
    v, f = vf(box)
    p = box.start + box.hdr + 4
    out = {"version": v, "flags": f}
    if f & 1:
        out["aux_info_type"], out["aux_info_type_parameter"] = struct.unpack_from(">4sI", box.data, p)
        p += 8
    n = struct.unpack_from(">I", box.data, p)[0]
    p += 4
    fmt = ">Q" if v == 1 else ">I"
    out["offsets"] = []
    for _ in range(n):
        out["offsets"].append(struct.unpack_from(fmt, box.data, p)[0])
        p += struct.calcsize(fmt)
    if p != box.end:
        raise BoxError("saio length mismatch")
    return out


def saiz(box: Box) -> dict:
    v, f = vf(box)
    p = box.start + box.hdr + 4
    out = {"version": v, "flags": f}
    if f & 1:
        p += 8
    out["default_sample_info_size"], out["sample_count"] = struct.unpack_from(">BI", box.data, p)
    p += 5
    out["sizes"] = []
    if out["default_sample_info_size"] == 0:
        out["sizes"] = list(box.data[p:p + out["sample_count"]])
        p += out["sample_count"]
    if p != box.end:
        raise BoxError("saiz length mismatch")
    return out


def senc(box: Box, iv_size: int, payload_off: int = 0) -> dict:
    """senc (or PIFF uuid with payload_off=0 since usertype is part of hdr)."""
    v, f = vf(box)
    p = box.start + box.hdr + 4
    out = {"version": v, "flags": f}
    if box.type == b"uuid" and f & 1:
        p += 20  # AlgorithmID(3) + IV_size(1) + KID(16)
    count = struct.unpack_from(">I", box.data, p)[0]
    p += 4
    out["sample_count"] = count
    out["first_entry_pos"] = p
    out["entries"] = []
    for _ in range(count):
        e = {"iv": box.data[p:p + iv_size]}
        p += iv_size
        if f & 2:
            n = struct.unpack_from(">H", box.data, p)[0]
            p += 2
            e["subsamples"] = [struct.unpack_from(">HI", box.data, p + 6 * i) for i in range(n)]
            p += 6 * n
        out["entries"].append(e)
    if p != box.end:
        raise BoxError(f"senc length mismatch: parsed to {p}, box ends {box.end} (iv_size {iv_size})")
    return out


def sidx(box: Box) -> dict:
    v, f = vf(box)
    p = box.start + box.hdr + 4
    ref_id, timescale = struct.unpack_from(">II", box.data, p)
    p += 8
    if v == 0:
        ept, first_offset = struct.unpack_from(">II", box.data, p)
        p += 8
    else:
        ept, first_offset = struct.unpack_from(">QQ", box.data, p)
        p += 16
    _, n = struct.unpack_from(">HH", box.data, p)
    p += 4
    refs = []
    for _ in range(n):
        a, dur, c = struct.unpack_from(">III", box.data, p)
        p += 12
        refs.append({"type": a >> 31, "size": a & 0x7FFFFFFF, "duration": dur, "sap": c})
    return {"version": v, "reference_id": ref_id, "timescale": timescale, "ept": ept,
            "first_offset": first_offset, "refs": refs}


def _cstr(data: bytes, p: int):
    e = data.index(b"\0", p)
    return data[p:e].decode("utf-8", errors="replace"), e + 1


def emsg(box: Box) -> dict:
    v, f = vf(box)
    d = box.data
    p = box.start + box.hdr + 4
    out = {"version": v}
    if v == 0:
        out["scheme_id_uri"], p = _cstr(d, p)
        out["value"], p = _cstr(d, p)
        (out["timescale"], out["presentation_time_delta"], out["event_duration"], out["id"]) = struct.unpack_from(">IIII", d, p)
        p += 16
    else:
        out["timescale"], out["presentation_time"], out["event_duration"], out["id"] = struct.unpack_from(">IQII", d, p)
        p += 20
        out["scheme_id_uri"], p = _cstr(d, p)
        out["value"], p = _cstr(d, p)
    out["message_data"] = d[p:box.end]
    return out


def mdhd(box: Box) -> dict:
    v, _ = vf(box)
    p = box.start + box.hdr + 4
    if v == 1:
        _, _, ts, dur = struct.unpack_from(">QQIQ", box.data, p)
    else:
        _, _, ts, dur = struct.unpack_from(">IIII", box.data, p)
    return {"version": v, "timescale": ts, "duration": dur}


def mvhd(box: Box) -> dict:
    return mdhd(box)


def tkhd_track_id(box: Box) -> int:
    v, _ = vf(box)
    p = box.start + box.hdr + 4 + (16 if v == 1 else 8)
    return struct.unpack_from(">I", box.data, p)[0]


def trex(box: Box) -> dict:
    p = box.start + box.hdr + 4
    t, sdi, dur, size, flags = struct.unpack_from(">IIIII", box.data, p)
    return {"track_id": t, "default_sample_description_index": sdi, "default_sample_duration": dur,
            "default_sample_size": size, "default_sample_flags": flags}


def pssh(box: Box) -> dict:
    v, _ = vf(box)
    d = box.data
    p = box.start + box.hdr + 4
    out = {"version": v, "system_id": d[p:p + 16], "kids": []}
    p += 16
    if v > 0:
        n = struct.unpack_from(">I", d, p)[0]
        p += 4
        for _ in range(n):
            out["kids"].append(d[p:p + 16])
            p += 16
    n = struct.unpack_from(">I", d, p)[0]
    p += 4
    out["data"] = d[p:p + n]
    p += n
    if p != box.end:
        raise BoxError(f"pssh length mismatch: parsed to {p}, box ends {box.end}")
    return out


def tenc(box: Box) -> dict:
    v, _ = vf(box)
    d = box.data
    p = box.start + box.hdr + 4
    out = {"version": v, "is_protected": d[p + 2], "iv_size": d[p + 3], "kid": d[p + 4:p + 20]}
    return out


# ---------------------------------------------------------------- fragments

class Fragment:
    """One media segment = [styp] [sidx] [emsg...] moof mdat, located in a byte buffer."""

    def __init__(self, boxes: list[Box], iv_size: int | None = None, trex_defaults: dict | None = None):
        self.boxes = boxes
        self.moof = next((b for b in boxes if b.type == b"moof"), None)
        self.mdat = next((b for b in boxes if b.type == b"mdat"), None)
        self.emsgs = [b for b in boxes if b.type == b"emsg"]
        if self.moof is None or self.mdat is None:
            raise BoxError("fragment lacks moof or mdat: " + repr(boxes))
        self.mfhd = self.moof.find(b"mfhd")
        self.traf = self.moof.find(b"traf")
        if self.traf is None:
            raise BoxError("moof lacks traf")
        self.tfhd_box = self.traf.find(b"tfhd")
        self.tfdt_box = self.traf.find(b"tfdt")
        self.trun_box = self.traf.find(b"trun")
        self.tfhd = tfhd(self.tfhd_box)
        self.trun = trun(self.trun_box) if self.trun_box is not None else None
        self.trex = trex_defaults or {}
        self.iv_size = iv_size

    @property
    def start(self):
        return self.boxes[0].start

    @property
    def end(self):
        return self.boxes[-1].end

    @property
    def sequence_number(self):
        return mfhd_seq(self.mfhd)

    @property
    def decode_time(self):
        return None if self.tfdt_box is None else tfdt_time(self.tfdt_box)[1]

    @property
    def payload(self) -> bytes:
        return self.mdat.payload

    def base_offset(self) -> int:
        """absolute position (in the buffer) that data offsets are relative to."""
        if "base_data_offset" in self.tfhd:
            # base_data_offset is relative to the start of the FILE the segment was cut from;
            # callers dealing with a segment in isolation pass file_origin.
            return self.tfhd["base_data_offset"]
        return self.moof.start

    def sample_durations(self) -> list[int]:
        dflt = self.tfhd.get("default_sample_duration", self.trex.get("default_sample_duration"))
        out = []
        for s in self.trun["samples"]:
            d = s.get("duration", dflt)
            if d is None:
                raise BoxError("no sample duration and no default")
            out.append(d)
        return out

    def sample_sizes(self) -> list[int]:
        dflt = self.tfhd.get("default_sample_size", self.trex.get("default_sample_size"))
        out = []
        for s in self.trun["samples"]:
            z = s.get("size", dflt)
            if z is None:
                raise BoxError("no sample size and no default")
            out.append(z)
        return out

    def duration(self) -> int:
        return sum(self.sample_durations())


def split_fragments(root_children: list[Box]) -> tuple[list[Box], list[list[Box]]]:
    """(init boxes, [fragment box lists]).  A fragment starts at the first styp/sidx/emsg/moof
    following an mdat (or the init part) and ends with its mdat."""
    init: list[Box] = []
    frags: list[list[Box]] = []
    cur: list[Box] = []
    seen_media = False
    for b in root_children:
        if not seen_media and b.type not in (b"styp", b"sidx", b"emsg", b"moof", b"mdat"):
            init.append(b)
            continue
        if not seen_media and b.type in (b"styp", b"sidx", b"emsg") and not any(x.type == b"moov" for x in init):
            init.append(b)
            continue
        seen_media = True
        cur.append(b)
        if b.type == b"mdat":
            frags.append(cur)
            cur = []
    if cur:
        frags.append(cur)
    return init, frags


def scan_file(data: bytes) -> dict:
    """Ground-truth scan of a stored fragmented MP4 file."""
    root = Root(data)
    init, frags = split_fragments(root.children)
    moov = next((b for b in init if b.type == b"moov"), None)
    info = {"root": root, "init_boxes": init, "init_end": init[-1].end if init else 0, "moov": moov}
    trex_d = {}
    iv_size = None
    if moov is not None:
        tb = moov.find(b"mvex", b"trex")
        if tb is not None:
            trex_d = trex(tb)
        mh = moov.find(b"trak", b"mdia", b"mdhd")
        info["timescale"] = mdhd(mh)["timescale"] if mh is not None else None
        tk = moov.find(b"trak", b"tkhd")
        info["track_id"] = tkhd_track_id(tk) if tk is not None else None
        tencs = moov.all(b"tenc")
        if tencs:
            t = tenc(tencs[0])
            iv_size = t["iv_size"]
            info["kid"] = t["kid"]
        info["mehd"] = moov.find(b"mvex", b"mehd")
    info["iv_size"] = iv_size
    info["trex"] = trex_d
    info["fragments"] = [Fragment(f, iv_size, trex_d) for f in frags if any(b.type == b"moof" for b in f)]
    return info


# ---------------------------------------------------------------- writer primitives

def box(type_: bytes, payload: bytes) -> bytes:
    return struct.pack(">I4s", 8 + len(payload), type_) + payload


def fullbox(type_: bytes, version: int, flags: int, payload: bytes) -> bytes:
    return box(type_, struct.pack(">B3s", version, flags.to_bytes(3, "big")) + payload)
