"""Synthetic fragmented-MP4 media written with struct only (vt/isobox.py primitives).

The init segment is the ftyp..moov prefix of a fixture file with mdhd.timescale (and
optionally tenc.default_IV_size) patched in place; media fragments are written from
scratch with recognisable payload bytes:  payload = b'VT' + tag + segment index (4 bytes)
+ position-coded filler, so a wrong or shifted payload is identified, not just detected.

A stream spec is plain JSON (it is part of the replay case):
  {"tracks": [{"kind": "video"|"audio"|"text", "enc": false|true, "timescale": int,
               "durations": [ticks per segment], "samples": int, "first_dt": int,
               "tfdt": bool, "styp": bool, "sidx": bool, "base": "moof"|"explicit",
               "iv": 8|16, "subsamples": bool, "sample_size": int, "per_sample": bool}],
   "ref": index of the timing-reference track}
"""
from __future__ import annotations

import hashlib
import json
import struct
from pathlib import Path

from . import isobox

FIXTURE_FOR = {
    ("video", False): "bbb/bbb_v7.mp4", ("video", True): "bbb/bbb_v7_enc.mp4",
    ("audio", False): "bbb/bbb_a1.mp4", ("audio", True): "bbb/bbb_a1_enc.mp4",
    ("text", False): "bbb/bbb_t1.mp4",
}
_init_cache: dict = {}


def _fixture_init(fixtures: Path, kind: str, enc: bool) -> bytes:
    key = (kind, enc)
    if key not in _init_cache:
        data = (fixtures / FIXTURE_FOR[key]).read_bytes()
        root = isobox.Root(data)
        end = next(b.end for b in root.children if b.type == b"moov")
        _init_cache[key] = data[:end]
    return _init_cache[key]


def make_init(fixtures: Path, track: dict) -> bytes:
    data = bytearray(_fixture_init(fixtures, track["kind"], bool(track.get("enc"))))
    root = isobox.Root(bytes(data))
    moov = next(b for b in root.children if b.type == b"moov")
    mdhd = moov.find(b"trak", b"mdia", b"mdhd")
    v, _ = isobox.vf(mdhd)
    off = mdhd.start + mdhd.hdr + 4 + (16 if v == 1 else 8)
    struct.pack_into(">I", data, off, track["timescale"])
    # duration fields are left as in the fixture: fragmented files do not rely on them
    if track.get("enc"):
        tenc = moov.all(b"tenc")[0]
        data[tenc.start + tenc.hdr + 4 + 3] = track.get("iv", 8)
    return bytes(data)


def track_id_of(init: bytes) -> int:
    root = isobox.Root(init)
    moov = next(b for b in root.children if b.type == b"moov")
    return isobox.tkhd_track_id(moov.find(b"trak", b"tkhd"))


def payload_bytes(tag: int, seg: int, size: int) -> bytes:
    head = b"VT" + bytes([tag & 0xFF]) + struct.pack(">I", seg)
    body = bytes(((i * 13 + seg * 7 + tag) & 0xFF) for i in range(max(0, size - len(head))))
    return (head + body)[:size] if size >= len(head) else head[:size]


def make_fragment(track: dict, track_id: int, tag: int, seg_index: int, seq: int, decode_time: int,
                  duration: int, file_pos: int) -> bytes:
    """One [styp][sidx] moof mdat group positioned at file_pos."""
    n = max(1, min(track.get("samples", 2), duration))     # every sample lasts at least one tick
    durs = [duration // n] * n
    durs[-1] += duration - sum(durs)
    size = track.get("sample_size", 40)
    sizes = [size + (i % 3) for i in range(n)]
    payload = payload_bytes(tag, seg_index, sum(sizes))
    per_sample = track.get("per_sample", True) or len(set(durs)) > 1
    pre = b""
    if track.get("styp"):
        pre += isobox.box(b"styp", b"msdh" + struct.pack(">I", 0) + b"msdhmsix")
    enc = bool(track.get("enc"))
    iv = track.get("iv", 8)
    subs = bool(track.get("subsamples"))

    def build(moof_pos: int, data_offset: int, saio_off: int) -> bytes:
        mfhd = isobox.fullbox(b"mfhd", 0, 0, struct.pack(">I", seq))
        if track.get("base") == "explicit":
            flags = 0x1
            tf = struct.pack(">IQ", track_id, moof_pos)
        else:
            flags = 0x20000
            tf = struct.pack(">I", track_id)
        if not per_sample:
            flags |= 0x8
            tf += struct.pack(">I", durs[0])
        tfhd = isobox.fullbox(b"tfhd", 0, flags, tf)
        traf = tfhd
        if track.get("tfdt", True):
            if decode_time >= 2**32:
                traf += isobox.fullbox(b"tfdt", 1, 0, struct.pack(">Q", decode_time))
            else:
                traf += isobox.fullbox(b"tfdt", 0, 0, struct.pack(">I", decode_time))
        senc_first = None
        if enc:
            entries = []
            for i in range(n):
                e = bytes(((seg_index * 17 + i * 3 + k) & 0xFF) for k in range(iv))
                if subs:
                    clear = min(4, sizes[i])
                    e += struct.pack(">H", 1) + struct.pack(">HI", clear, sizes[i] - clear)
                entries.append(e)
            info_sizes = [len(e) for e in entries]
            if len(set(info_sizes)) == 1:
                saiz = isobox.fullbox(b"saiz", 0, 0, struct.pack(">BI", info_sizes[0], n))
            else:
                saiz = isobox.fullbox(b"saiz", 0, 0, struct.pack(">BI", 0, n) + bytes(info_sizes))
            saio = isobox.fullbox(b"saio", 0, 0, struct.pack(">II", 1, saio_off))
            senc = isobox.fullbox(b"senc", 0, 2 if subs else 0, struct.pack(">I", n) + b"".join(entries))
            traf += saiz + saio
            senc_first = len(traf) + 8 + 4 + 4     # offset inside traf payload of the first entry
            traf += senc
        tflags = 0x1 | 0x200 | (0x100 if per_sample else 0)
        body = struct.pack(">Ii", n, data_offset)
        for i in range(n):
            if per_sample:
                body += struct.pack(">I", durs[i])
            body += struct.pack(">I", sizes[i])
        traf += isobox.fullbox(b"trun", 0, tflags, body)
        moof = isobox.box(b"moof", mfhd + isobox.box(b"traf", traf))
        return moof, (None if senc_first is None else 8 + len(mfhd) + 8 + senc_first)

    # a stored mdat may use the 64-bit size form (size field 1 + largesize) although the size would fit 32 bits:
    # unusual, legal, and what some packagers write for every mdat
    mdat_hdr = 16 if track.get("mdat64") else 8
    moof, senc_rel = build(0, 0, 0)
    sidx = b""
    if track.get("sidx"):
        ref_size = len(moof) + mdat_hdr + len(payload)
        sidx = isobox.fullbox(b"sidx", 0, 0, struct.pack(">IIIIHH", track_id, track["timescale"],
                                                         decode_time & 0xFFFFFFFF, 0, 0, 1) +
                              struct.pack(">III", ref_size, duration, 0x90000000))
    moof_pos = file_pos + len(pre) + len(sidx)
    moof, senc_rel = build(moof_pos, len(moof) + mdat_hdr, senc_rel or 0)
    mdat = (struct.pack(">I4sQ", 1, b"mdat", 16 + len(payload)) + payload) if track.get("mdat64") else isobox.box(b"mdat", payload)
    return pre + sidx + moof + mdat


def make_file(fixtures: Path, track: dict, tag: int) -> bytes:
    init = make_init(fixtures, track)
    tid = track_id_of(init)
    out = bytearray(init)
    t = track.get("first_dt", 0)
    for k, d in enumerate(track["durations"]):
        out += make_fragment(track, tid, tag, k, k + 1, t, d, len(out))
        t += d
    return bytes(out)


def spec_id(spec: dict) -> str:
    return "s" + hashlib.sha1(json.dumps(spec, sort_keys=True).encode()).hexdigest()[:14]


def track_name(sid: str, idx: int, track: dict) -> str:
    return f"{sid}_{track['kind'][0]}{idx}" + ("_enc" if track.get("enc") else "")


def write_stream(blob_folder: Path, fixtures: Path, spec: dict) -> tuple[str, list[str]]:
    """Writes BLOB_FOLDER/<id>/<id>_<k><n>.mp4 for every track; returns (directory, file names)."""
    sid = spec_id(spec)
    folder = blob_folder / sid
    folder.mkdir(exist_ok=True)
    names = []
    for i, tr in enumerate(spec["tracks"]):
        name = track_name(sid, i, tr) + ".mp4"
        (folder / name).write_bytes(make_file(fixtures, tr, i + 1))
        names.append(name)
    return sid, names


# ------------------------------------------------------------------ hypothesis strategy

def stream_specs(max_segments: int = 12, allow_enc: bool = True):
    from hypothesis import strategies as st

    def track(kind, enc):
        timescale = st.sampled_from({"video": [240, 1000, 12800, 90000, 10**7, 25, 30000],
                                     "audio": [44100, 48000, 1000, 22050, 10**7],
                                     "text": [200, 1000, 90000]}[kind])
        return timescale.flatmap(lambda ts: st.fixed_dictionaries({
            "kind": st.just(kind), "enc": st.just(enc), "timescale": st.just(ts),
            "nominal_ms": st.sampled_from([2000, 4000, 3840, 6000] if kind != "text" else [4000, 10000]),
            "jitter": st.lists(st.integers(-150, 150), min_size=2, max_size=max_segments),
            "samples": st.integers(1, 4),
            "first_dt_ms": st.sampled_from([0, 0, 0, 1000, 123457]),
            "tfdt": st.sampled_from([True, True, True, False]),
            "styp": st.booleans(), "sidx": st.booleans(), "mdat64": st.sampled_from([False, False, False, True]),
            "base": st.sampled_from(["moof", "moof", "explicit"]),
            "iv": st.sampled_from([8, 16]), "subsamples": st.booleans(),
            "sample_size": st.integers(8, 300), "per_sample": st.booleans(),
        }))

    @st.composite
    def spec(draw):
        nseg = draw(st.integers(3, max_segments))
        total_ms = max(7000, nseg * draw(st.sampled_from([2000, 4000, 3840, 6000])))
        enc = draw(st.booleans()) if allow_enc else False
        tracks = [draw(track("video", False))]
        if draw(st.booleans()):
            tracks.append(draw(track("video", False)))
        tracks.append(draw(track("audio", False)))
        if draw(st.integers(0, 2)) == 0:
            tracks.append(draw(track("text", False)))
        if enc:
            tracks += [draw(track("video", True)), draw(track("audio", True))]
        out = []
        master: dict = {}
        for tr in tracks:
            ts = tr["timescale"]
            nominal = tr.pop("nominal_ms") * ts // 1000
            jit = tr.pop("jitter")
            first_ms = tr.pop("first_dt_ms")
            kind = tr["kind"]
            if kind in master:
                # every Representation of one AdaptationSet (bitrate ladder, encrypted twin) is
                # segment-aligned: same timescale, boundaries and first decode time
                m = master[kind]
                tr["timescale"], tr["durations"] = m["timescale"], list(m["durations"])
                tr["first_dt"] = m["first_dt"] if tr["tfdt"] else 0
                if m["first_dt"] and not tr["tfdt"]:
                    tr["tfdt"] = True
                    tr["first_dt"] = m["first_dt"]
                out.append(tr)
                continue
            # all tracks of a stream come from the same content: their total durations agree to within
            # a fraction of a segment (total_ms +- skew); segment boundaries and counts differ
            while nominal * 1000 // ts * 33 > total_ms * 10 and nominal > ts:
                nominal //= 2                       # at least 3 segments fit
            regular = kind == "video" and draw(st.booleans())
            skew_ms = draw(st.integers(-300, 300)) if kind != "video" else draw(st.sampled_from([0, 0, -40, 40]))
            target = (total_ms + skew_ms) * ts // 1000
            durs, acc, i = [], 0, 0
            # occasionally one non-final segment is a runt (5-25 % of the nominal duration): legal, and a
            # classic trap for code that divides by an average duration
            runt_at = draw(st.sampled_from([None, None, None, None, 1, 2, 3]))
            runt_pc = draw(st.integers(5, 25))
            while True:
                j = 0 if regular else jit[i % len(jit)]
                d = max(4, nominal + nominal * j // 1000)
                if runt_at is not None and i == runt_at:
                    d = max(4, nominal * runt_pc // 100)
                if acc + d > target - max(4, nominal // 4):
                    break
                durs.append(d)
                acc += d
                i += 1
            durs.append(target - acc)               # last one: between a quarter and ~1.4 nominal durations
            tr["durations"] = durs
            # a file without tfdt is defined to start at 0
            tr["first_dt"] = first_ms * ts // 1000 if tr["tfdt"] else 0
            master[kind] = tr
            out.append(tr)
        ref = draw(st.integers(0, len(out) - 1))
        return {"tracks": out, "ref": ref}
    return spec()
