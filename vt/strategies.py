"""Shared Hypothesis strategies: option vectors, phase-controlled clocks, DRM selections.

Everything returned is plain JSON data; the case is the replay file.
"""
from __future__ import annotations

import datetime as _dt

from hypothesis import strategies as st

from . import clock

DRM_SYSTEMS = ["clearkey", "marlin", "playready"]
DRM_LOCS = ["pro", "cenc", "moov"]


def drm_selection(allow_none=True):
    """Text of the drm= option: none | all | all-<locs> | system[-locs] lists."""
    locs = st.lists(st.sampled_from(DRM_LOCS), min_size=1, max_size=3, unique=True).map(lambda l: "-".join(sorted(l)))
    one = st.one_of(st.sampled_from(DRM_SYSTEMS),
                    st.tuples(st.sampled_from(DRM_SYSTEMS), locs).map(lambda t: f"{t[0]}-{t[1]}"))
    multi = st.lists(one, min_size=1, max_size=3, unique_by=lambda s: s.split("-")[0]).map(",".join)
    opts = [st.just("all"), locs.map(lambda l: "all-" + l), multi, one]
    if allow_none:
        opts.append(st.just("none"))
    return st.one_of(*opts)


def _edge_durations(ts: int):
    """durations (in schedule ticks) whose 90 kHz value sits around the 32-bit line and below the 33-bit limit of
    the SCTE-35 break_duration field, while the value itself still fits the 32-bit emsg event_duration"""
    vals = set()
    for v90 in (2**31, 2**32 - 1, 2**32, 2**32 + 105, 3 * 2**31, 2**33 - 1):
        for d in (v90 * ts // 90000, -(-v90 * ts // 90000)):
            if 1 <= d < 2**32 and d * 90000 // ts < 2**33:
                vals.add(d)
    return sorted(vals)


def event_options(wide_duration: bool = False):
    """events= plus schedule options for the selected generators (interval > 0: the documented domain)."""
    def sched(prefix):
        # the interval is drawn in milliseconds (>= 100 ms) and converted to the schedule's timescale, so the
        # event density stays realistic (an interval of one 90 kHz tick means 360000 emsg boxes per segment:
        # bounded, but minutes of CPU - that is exercised by C16 only)
        def build(ts):
            return st.fixed_dictionaries({
                f"{prefix}__timescale": st.just(str(ts)),
                f"{prefix}__interval": st.one_of(st.integers(100, 30000), st.sampled_from([1000, 4000, 10000])).map(
                    lambda ms: str(max(1, ms * ts // 1000))),
            }, optional={
                f"{prefix}__count": st.integers(0, 30).map(str),
                f"{prefix}__duration": (st.one_of(st.integers(1, 2000), st.integers(1, 2000), st.sampled_from(_edge_durations(ts)))
                                        if wide_duration else st.integers(1, 2000)).map(str),
                f"{prefix}__inband": st.sampled_from(["1", "0"]),
                f"{prefix}__start": st.integers(0, 60000).map(lambda ms: str(ms * ts // 1000)),
                f"{prefix}__version": st.sampled_from(["0", "1"]),
                f"{prefix}__value": st.sampled_from(["1", "0", "abc", "7"]),
            })
        return st.sampled_from([1, 10, 100, 1000, 240, 90000]).flatmap(build)
    return st.sampled_from(["ping", "scte35", "ping,scte35"]).flatmap(
        lambda ev: st.tuples(*[sched(p) for p in ev.split(",")]).map(
            lambda ds: {"events": ev, **{k: v for d in ds for k, v in d.items()}}))


def live_option_vector(with_events=True, with_drm=True):
    """Query options for a live manifest request (C01/C02/C09/C18 domain). `start` is added by the clock."""
    optional = {
        "depth": st.one_of(st.sampled_from(["0", "1", "5", "30", "60", "1800"]), st.integers(0, 4000).map(str)),
        "leeway": st.one_of(st.sampled_from(["0", "16", "60"]), st.integers(0, 120).map(str)),
        "mup": st.one_of(st.sampled_from(["-1", "0", "4", "30"]), st.integers(1, 120).map(str)),
        "timeline": st.sampled_from(["0", "1"]),
        "abr": st.sampled_from(["0", "1"]),
        "acodec": st.sampled_from(["mp4a", "ec-3", "any"]),
        "base": st.sampled_from(["0", "1"]),
        "patch": st.sampled_from(["0", "1"]),
        "time": st.sampled_from(["direct", "head", "http-ntp", "iso", "ntp", "sntp", "xsd"]),
        "bugs": st.sampled_from(["saio", "none"]),
    }
    if with_drm:
        optional["drm"] = drm_selection()
        optional["playready__version"] = st.sampled_from(["1.0", "2.0", "3.0", "4.0"])
        optional["playready__piff"] = st.sampled_from(["0", "1"])
    base = st.fixed_dictionaries({}, optional=optional)
    if not with_events:
        return base
    return st.one_of(base, base, st.tuples(base, event_options()).map(lambda t: {**t[0], **t[1]}))


PHI = ["zero", "1us", "1tick", "half", "end-1us", "uniform"]


def live_clock(ancient: bool = False):
    """Phase-controlled clock description; resolved to an instant by resolve_clock().
    ancient=True also draws days back to year 1 (the start option accepts any ISO date-time; years below 1000 need
    zero padding to stay lexically valid xs:dateTime values)."""
    loops = st.one_of(st.integers(0, 3), st.integers(0, 200), st.integers(0, 10**5), st.integers(10**5, 10**7))
    return st.fixed_dictionaries({
        "start": st.sampled_from(["explicit", "explicit", "epoch", "today", "month", "year", "now", "default"]),
        "base_day": (st.one_of(st.integers(366, 47000), st.integers(366, 47000), st.integers(366, 47000),
                               st.integers(-719000, -354300), st.integers(-354300, 365)) if ancient
                     else st.integers(366, 47000)),        # days after 1970-01-01 (1971 .. 2098)
        "base_sec": st.one_of(st.just(0), st.integers(0, 86399)),
        "offset_min": st.one_of(st.just(0), st.just(0), st.integers(-14 * 60, 14 * 60)),
        "loops": loops,
        "k": st.one_of(st.integers(0, 40), st.integers(0, 12)),
        # phase is controlled relative to "now" or relative to the start of the time-shift window (now - depth)
        "anchor": st.sampled_from(["now", "window-start"]),
        "phi": st.sampled_from(PHI),
        "phi_us": st.integers(0, 10**7),
    })


def resolve_clock(c: dict, ref_duration_us: int, seg_us: int, tick_us: int = 4167, depth_us: int = 0):
    """-> (T as aware datetime, value of the start option or None).
    elapsed = loops*ref + k*seg + phi ; for symbolic starts elapsed is applied after the symbolic origin
    where that is known without consulting the server (epoch/today/month/year)."""
    phi = {"zero": 0, "1us": 1, "1tick": tick_us, "half": seg_us // 2, "end-1us": seg_us - 1,
           "uniform": c["phi_us"] % max(1, seg_us)}[c["phi"]]
    elapsed_us = c["loops"] * ref_duration_us + c["k"] * seg_us + phi
    if c.get("anchor") == "window-start":
        elapsed_us += depth_us
    epoch = clock.REAL(1970, 1, 1, tzinfo=_dt.timezone.utc)
    day = epoch + _dt.timedelta(days=c["base_day"])
    kind = c["start"]
    us = _dt.timedelta(microseconds=1)
    if kind == "explicit":
        start = day + _dt.timedelta(seconds=c["base_sec"])
        T = start + elapsed_us * us
        tz = _dt.timezone(_dt.timedelta(minutes=c["offset_min"]))
        loc = start.astimezone(tz)
        text = "%04d-%02d-%02dT%02d:%02d:%02d" % (loc.year, loc.month, loc.day, loc.hour, loc.minute, loc.second)
        if c["offset_min"] == 0:
            text += "Z"
        else:
            m = abs(c["offset_min"])
            text += "%s%02d:%02d" % ("+" if c["offset_min"] > 0 else "-", m // 60, m % 60)
        return T, text
    if kind == "epoch":
        return epoch + _dt.timedelta(days=366) + elapsed_us * us, "epoch"
    if kind == "today":
        return day + (elapsed_us % (86400 * 10**6)) * us, "today"
    if kind == "month":
        first = day.replace(day=1)
        return first + (elapsed_us % (27 * 86400 * 10**6)) * us, "month"
    if kind == "year":
        first = day.replace(month=1, day=1)
        return first + (elapsed_us % (364 * 86400 * 10**6)) * us, "year"
    if kind == "now":
        return day + _dt.timedelta(seconds=c["base_sec"]) + (elapsed_us % (86400 * 10**6)) * us, "now"
    return day + _dt.timedelta(seconds=c["base_sec"]) + (elapsed_us % (86400 * 10**6)) * us, None


def query_string(opts: dict) -> str:
    from urllib.parse import quote
    if not opts:
        return ""
    return "?" + "&".join(f"{quote(str(k), safe='')}={quote(str(v), safe=':,')}" for k, v in opts.items())
