"""Controlled clock.  install() replaces datetime.datetime with a subclass whose
now()/utcnow()/today() return the harness-owned instant (same technique as the
repository's tests/mixins/mock_time.py, re-implemented here).  It must be
installed BEFORE dashlive (and flask, jwt) are imported so that modules doing
`from datetime import datetime` also get the controlled class.
"""
import datetime as _dt

REAL = _dt.datetime
_UTC = _dt.timezone.utc
_state = {"now": REAL(2024, 1, 1, 12, 0, 0, tzinfo=_UTC), "installed": False}


class _Meta(type):
    def __instancecheck__(cls, obj):
        return isinstance(obj, REAL)

    def __subclasscheck__(cls, sub):
        return issubclass(sub, REAL)


class _Base(REAL):
    @classmethod
    def now(cls, tz=None):
        n = _state["now"]
        if tz is None:
            return n.replace(tzinfo=None)
        return n.astimezone(tz)

    @classmethod
    def utcnow(cls):
        return _state["now"].replace(tzinfo=None)

    @classmethod
    def today(cls):
        return cls.now()


Controlled = _Meta("datetime", (_Base,), {"__module__": "datetime"})


def install():
    if not _state["installed"]:
        _dt.datetime = Controlled
        _state["installed"] = True


def installed() -> bool:
    return _state["installed"] and _dt.datetime is Controlled


def set_now(value):
    """value: aware datetime (any tz) or ISO text ending in Z."""
    if isinstance(value, str):
        value = parse_iso(value)
    if value.tzinfo is None:
        value = value.replace(tzinfo=_UTC)
    _state["now"] = REAL(value.year, value.month, value.day, value.hour, value.minute,
                         value.second, value.microsecond, tzinfo=value.tzinfo).astimezone(_UTC)


def get_now():
    return _state["now"]


def advance(seconds: float):
    _state["now"] = _state["now"] + _dt.timedelta(seconds=seconds)


def parse_iso(text: str):
    """Independent minimal parser for the harness's own ISO instants: YYYY-MM-DDTHH:MM:SS[.ffffff]Z"""
    import re
    m = re.match(r"^(\d{4})-(\d\d)-(\d\d)T(\d\d):(\d\d):(\d\d)(?:\.(\d{1,6}))?(Z|[+-]\d\d:\d\d)$", text)
    if not m:
        raise ValueError(text)
    y, mo, d, h, mi, s = (int(m.group(i)) for i in range(1, 7))
    us = int((m.group(7) or "0").ljust(6, "0"))
    tz = m.group(8)
    if tz == "Z":
        tzinfo = _UTC
    else:
        sign = -1 if tz[0] == "-" else 1
        tzinfo = _dt.timezone(sign * _dt.timedelta(hours=int(tz[1:3]), minutes=int(tz[4:6])))
    return REAL(y, mo, d, h, mi, s, us, tzinfo=tzinfo)


def iso(dt) -> str:
    dt = dt.astimezone(_UTC)
    base = "%04d-%02d-%02dT%02d:%02d:%02d" % (dt.year, dt.month, dt.day, dt.hour, dt.minute, dt.second)
    if dt.microsecond:
        base += ".%06d" % dt.microsecond
    return base + "Z"
