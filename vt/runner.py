"""Driver shared by every property check.

A property module (vt/props/cNN.py) exposes PROPERTY, RULE, ASSUMPTIONS and
ENGINES (a list of Engine objects).  The driver shards every engine over worker
processes, collects per-shard statistics, looks every violation signature up
in known_findings.json, writes evidence/<id>.json and prints the interface
lines.  See DESIGN.md section 2.
"""
from __future__ import annotations

import argparse
import collections
import hashlib
import importlib
import json
import math
import os
import shutil
import subprocess
import sys
import tempfile
import time
import traceback
from pathlib import Path
from typing import Any, Iterable

from . import findings

VERIF = Path(__file__).resolve().parent.parent
EVIDENCE_DIR = VERIF / "evidence"
REPLAY_DIR = VERIF / "replays"
EVIDENCE_SCHEMA = Path("/root/.vp/EVIDENCE.schema.json")
MAX_SAMPLES = 6
MAX_SIGS = 40


class HarnessError(Exception):
    """Something is wrong with the machinery, not with the code under test."""


# --------------------------------------------------------------------------
# what a check returns for one case

class Outcome:
    __slots__ = ("violations", "classes", "nontrivial", "trivial", "notes", "weight")

    def __init__(self) -> None:
        self.violations: list[tuple[str, str]] = []
        self.classes: set[str] = set()
        self.nontrivial: bool = False
        self.trivial: str | None = None
        self.notes: list[tuple[str, str]] = []
        self.weight: int = 1          # number of primitive evaluations inside this case

    def fail(self, sig: str, detail: str = "") -> None:
        self.violations.append((sig, str(detail)[:2000]))

    def cls(self, *names: str) -> None:
        self.classes.update(names)

    def note(self, key: str, value: Any) -> None:
        self.notes.append((key, str(value)))

    def merge(self, other: "Outcome") -> None:
        self.violations.extend(other.violations)
        self.classes |= other.classes
        self.nontrivial = self.nontrivial or other.nontrivial
        self.notes.extend(other.notes)
        self.weight += other.weight


class Engine:
    """Base class. kind: 'hypothesis' (strategy+check), 'enumerate' (cases+check),
    'custom' (run(ctx) drives itself and calls ctx.record)."""
    name = "engine"
    kind = "hypothesis"
    exhaustive = False
    shrink = True

    def budget(self, tier: str) -> int:
        return 100

    def setup(self, tier: str) -> None:
        pass

    def teardown(self) -> None:
        pass

    def strategy(self, tier: str):
        raise NotImplementedError

    def cases(self, tier: str) -> Iterable[Any]:
        raise NotImplementedError

    def check(self, case: Any) -> Outcome:
        raise NotImplementedError

    def run(self, ctx: "ShardContext") -> None:
        raise NotImplementedError


def canon(case: Any) -> str:
    return json.dumps(case, sort_keys=True, separators=(",", ":"), default=repr)


def case_hash(case: Any) -> int:
    return int.from_bytes(hashlib.blake2b(canon(case).encode(), digest_size=8).digest(), "big")


# --------------------------------------------------------------------------
# per-shard statistics

class Stats:
    def __init__(self, prop: str) -> None:
        self.prop = prop
        self.evaluations = 0
        self.cases = 0
        self.nontrivial: set[int] = set()
        self.classes: collections.Counter = collections.Counter()
        self.trivial: collections.Counter = collections.Counter()
        self.samples: dict[str, Any] = {}
        self.violations: dict[str, dict] = {}
        self.known_hits: collections.Counter = collections.Counter()
        self.notes: dict[str, collections.Counter] = {}
        self.engine_cases: collections.Counter = collections.Counter()
        self.exhaustive: dict[str, bool] = {}
        self.messages: list[str] = []
        self.slow: list = []          # (seconds, engine, case) of the slowest cases: diagnostics only
        self._t_last = time.time()

    def record(self, engine: str, case: Any, out: Outcome) -> list[str]:
        now = time.time()
        took, self._t_last = now - self._t_last, now
        if took > 2.0 and (len(self.slow) < 3 or took > self.slow[-1][0]):
            self.slow.append((round(took, 1), engine, _jsonable(case)))
            self.slow.sort(key=lambda x: -x[0])
            del self.slow[3:]
        return self._record(engine, case, out)

    def _record(self, engine: str, case: Any, out: Outcome) -> list[str]:
        """Returns the list of UNKNOWN violation signatures of this case."""
        self.cases += 1
        self.evaluations += max(1, out.weight)
        self.engine_cases[engine] += 1
        for c in out.classes:
            self.classes[f"{engine}:{c}"] += 1
        if out.trivial:
            self.trivial[f"{engine}:{out.trivial}"] += 1
        if out.nontrivial:
            self.nontrivial.add(case_hash([engine, case]))
            key = f"{engine}:" + (sorted(out.classes)[0] if out.classes else "")
            if key not in self.samples and len(self.samples) < MAX_SAMPLES:
                self.samples[key] = {"engine": engine, "case": _jsonable(case)}
        for k, v in out.notes:
            self.notes.setdefault(k, collections.Counter())[v] += 1
        unknown = []
        for sig, detail in out.violations:
            if findings.lookup(self.prop, sig) is not None:
                self.known_hits[sig] += 1
                continue
            unknown.append(sig)
            cur = self.violations.get(sig)
            size = len(canon(case))
            if cur is None:
                if len(self.violations) >= MAX_SIGS:
                    continue
                self.violations[sig] = {"sig": sig, "detail": detail, "engine": engine,
                                        "case": _jsonable(case), "count": 1, "size": size}
            else:
                cur["count"] += 1
                if size < cur["size"]:
                    cur.update(detail=detail, case=_jsonable(case), size=size, engine=engine)
        return unknown

    def to_json(self) -> dict:
        return {
            "evaluations": self.evaluations, "cases": self.cases,
            "nontrivial": sorted(self.nontrivial),
            "classes": dict(self.classes), "trivial": dict(self.trivial),
            "samples": self.samples, "violations": self.violations,
            "known_hits": dict(self.known_hits),
            "notes": {k: dict(v) for k, v in self.notes.items()},
            "engine_cases": dict(self.engine_cases),
            "exhaustive": self.exhaustive, "messages": self.messages, "slow": self.slow,
        }


def _jsonable(x: Any) -> Any:
    return json.loads(canon(x))


class ShardContext:
    def __init__(self, prop: str, tier: str, seed: int, shard: int, nshards: int, stats: Stats):
        self.prop, self.tier, self.seed = prop, tier, seed
        self.shard, self.nshards, self.stats = shard, nshards, stats

    def share(self, total: int) -> int:
        return max(1, math.ceil(total / self.nshards))

    def engine_seed(self, engine_index: int) -> int:
        return (self.seed * 1009 + self.shard) * 101 + engine_index

    def record(self, engine: str, case: Any, out: Outcome) -> list[str]:
        return self.stats.record(engine, case, out)


# --------------------------------------------------------------------------
# hypothesis driving

def hyp_settings(n: int, shrink: bool):
    from hypothesis import HealthCheck, Phase, Verbosity, settings
    phases = [Phase.generate] + ([Phase.shrink] if shrink else [])
    return settings(max_examples=n, database=None, deadline=None, derandomize=False,
                    report_multiple_bugs=False, phases=phases, verbosity=Verbosity.quiet,
                    suppress_health_check=list(HealthCheck), print_blob=False)


class _Stop(Exception):
    pass


def guarded_check(eng: Engine, case: Any) -> Outcome:
    """eng.check(case); an exception that escapes from the code under test (the deepest frames of the
    traceback belong to the repository, not to /verif) is a violation of its own, not a harness error."""
    try:
        return eng.check(case)
    except Exception as exc:
        from . import deps
        repo = str(deps.REPO)
        frames = traceback.extract_tb(exc.__traceback__)
        idx_verif = max((i for i, f in enumerate(frames) if f.filename.startswith(str(VERIF))), default=-1)
        idx_repo = max((i for i, f in enumerate(frames) if f.filename.startswith(repo)), default=-1)
        if idx_repo > idx_verif >= 0:
            fr = frames[idx_repo]
            out = Outcome()
            out.fail(f"uncaught/{type(exc).__name__}/{Path(fr.filename).name}:{fr.name}",
                     f"{type(exc).__name__}: {exc} at {fr.filename}:{fr.lineno} (called from "
                     f"{Path(frames[idx_verif].filename).name}:{frames[idx_verif].lineno})")
            return out
        raise


def drive_hypothesis(ctx: ShardContext, idx: int, eng: Engine) -> None:
    import hypothesis
    from hypothesis import given
    n = ctx.share(eng.budget(ctx.tier))
    strat = eng.strategy(ctx.tier)

    deadline = float(os.environ.get("VT_DEADLINE", "0") or 0)

    @hypothesis.seed(ctx.engine_seed(idx))
    @hyp_settings(n, shrink=False)
    @given(strat)
    def collect(case):
        # the wall clock is a budget only: what was not reached is reported as not explored, never as a verdict
        if deadline and time.time() > deadline:
            raise _Stop()
        out = guarded_check(eng, case)
        ctx.record(eng.name, case, out)

    def _only_stop(exc) -> bool:
        if isinstance(exc, _Stop):
            return True
        if isinstance(exc, BaseExceptionGroup):
            return all(_only_stop(e) for e in exc.exceptions)
        return False

    try:
        collect()
    except BaseException as exc:
        # Hypothesis reports the stop as FlakyFailure (an exception group) when the example that hit the deadline
        # had been seen - and passed - before the deadline
        if not _only_stop(exc):
            raise
        ctx.stats.notes.setdefault("time_budget_reached", collections.Counter())[eng.name] += 1
        return
    # Thorough tier: shrink the first few unknown signatures with Hypothesis itself.
    if ctx.tier == "thorough" and eng.shrink:
        for sig in [s for s, v in ctx.stats.violations.items() if v["engine"] == eng.name][:3]:
            best = {"case": None, "detail": ""}

            def make_hunt(_sig, _best):
                @hypothesis.seed(ctx.engine_seed(idx))
                @hyp_settings(n, shrink=True)
                @given(strat)
                def hunt(case):
                    out = eng.check(case)
                    for s, d in out.violations:
                        if s == _sig:
                            _best["case"], _best["detail"] = case, d
                            raise _Stop()
                return hunt
            try:
                make_hunt(sig, best)()
            except _Stop:
                pass
            except Exception:  # shrinker trouble is not a finding
                ctx.stats.messages.append(f"shrink of {sig} aborted: {traceback.format_exc(limit=1)}")
            if best["case"] is not None:
                cur = ctx.stats.violations[sig]
                size = len(canon(best["case"]))
                if size <= cur["size"]:
                    cur.update(case=_jsonable(best["case"]), detail=best["detail"], size=size,
                               shrunk=True)


def drive_enumerate(ctx: ShardContext, idx: int, eng: Engine) -> None:
    deadline = float(os.environ.get("VT_DEADLINE", "0") or 0)
    for i, case in enumerate(eng.cases(ctx.tier)):
        if i % ctx.nshards != ctx.shard:
            continue
        if deadline and time.time() > deadline:
            ctx.stats.notes.setdefault("time_budget_reached", collections.Counter())[eng.name] += 1
            ctx.stats.exhaustive[eng.name] = False
            return
        out = guarded_check(eng, case)
        ctx.record(eng.name, case, out)
    ctx.stats.exhaustive[eng.name] = bool(eng.exhaustive)


def run_machine(ctx: ShardContext, idx: int, eng: Engine, machine_cls, n: int, steps: int) -> None:
    """Run a RuleBasedStateMachine n times; the machine records its own history
    through eng/ctx in teardown()."""
    import hypothesis
    from hypothesis import HealthCheck, Phase, Verbosity, settings
    from hypothesis.stateful import run_state_machine_as_test
    st = settings(max_examples=n, stateful_step_count=steps, database=None, deadline=None,
                  report_multiple_bugs=False, phases=[Phase.generate], verbosity=Verbosity.quiet,
                  suppress_health_check=list(HealthCheck), print_blob=False)
    run_state_machine_as_test(hypothesis.seed(ctx.engine_seed(idx))(machine_cls), settings=st)


def run_shard(modname: str, tier: str, seed: int, shard: int, nshards: int, out_path: str,
              only: str | None) -> int:
    mod = importlib.import_module(f"vt.props.{modname}")
    stats = Stats(mod.PROPERTY)
    ctx = ShardContext(mod.PROPERTY, tier, seed, shard, nshards, stats)
    for idx, eng in enumerate(mod.ENGINES):
        if only and eng.name != only:
            continue
        eng.setup(tier)
        try:
            if eng.kind == "hypothesis":
                drive_hypothesis(ctx, idx, eng)
            elif eng.kind == "enumerate":
                drive_enumerate(ctx, idx, eng)
            else:
                eng.ctx_index = idx
                eng.run(ctx)
        finally:
            eng.teardown()
    Path(out_path).write_text(json.dumps(stats.to_json()))
    return 0


# --------------------------------------------------------------------------
# replay / regression of stored cases

def replay_case(mod, engine_name: str, case: Any) -> Outcome:
    for eng in mod.ENGINES:
        if eng.name == engine_name:
            eng.setup("quick")
            try:
                if hasattr(eng, "replay"):
                    return eng.replay(case)
                return guarded_check(eng, case)
            finally:
                eng.teardown()
    raise HarnessError(f"no engine {engine_name!r} in {mod.__name__}")


def run_regress(modname: str, out_path: str) -> int:
    """Re-run the stored minimal case of every known-findings entry of this property."""
    mod = importlib.import_module(f"vt.props.{modname}")
    res = []
    for ent in findings.entries(mod.PROPERTY):
        rep = ent.get("replay")
        if not rep:
            res.append({"id": ent["id"], "status": ent["status"], "sigs": None})
            continue
        out = replay_case(mod, rep["engine"], rep["case"])
        res.append({"id": ent["id"], "status": ent["status"],
                    "sigs": [s for s, _ in out.violations],
                    "details": [d for _, d in out.violations][:3]})
    Path(out_path).write_text(json.dumps(res))
    return 0


# --------------------------------------------------------------------------
# parent

def write_replay(prop: str, v: dict) -> Path:
    d = (Path(os.environ["VT_REPLAY_DIR"]) if os.environ.get("VT_REPLAY_DIR") else REPLAY_DIR) / prop
    d.mkdir(parents=True, exist_ok=True)
    h = hashlib.sha1(v["sig"].encode()).hexdigest()[:10]
    p = d / f"{h}.json"
    p.write_text(json.dumps({"property": prop, "engine": v["engine"], "sig": v["sig"],
                             "detail": v["detail"], "case": v["case"]}, indent=1, sort_keys=True))
    return p


def validate_evidence(ev: dict) -> None:
    try:
        import jsonschema
    except ImportError as exc:
        raise HarnessError(f"jsonschema missing: {exc}")
    if EVIDENCE_SCHEMA.exists():
        schema = json.loads(EVIDENCE_SCHEMA.read_text())
    else:
        schema = json.loads((VERIF / "vt" / "evidence.schema.json").read_text())
    jsonschema.validate(ev, schema)


def parent(modname: str, tier: str, seed: int, only: str | None, nshards_opt: int | None) -> int:
    t0 = time.time()
    mod = importlib.import_module(f"vt.props.{modname}")
    prop = mod.PROPERTY
    ncpu = os.cpu_count() or 4
    nshards = nshards_opt or getattr(mod, "SHARDS", {}).get(tier, min(16, ncpu))
    tmp = Path(tempfile.mkdtemp(prefix=f"vt-{prop}-"))
    procs = []
    try:
        base = [sys.executable, str(VERIF / "run.py"), modname.upper(), "--tier", tier]
        _limit = float(os.environ.get("VT_TIME_LIMIT") or getattr(mod, "TIME_LIMIT", {}).get(tier, 3600 if tier == "quick" else 12 * 3600))
        # shards stop generating at 80 % of the limit and report what they covered
        env = dict(os.environ, VERIF_SEED=str(seed), PYTHONHASHSEED="0", VT_TMP=str(tmp),
                   VT_DEADLINE=str(t0 + 0.8 * _limit))
        rp = tmp / "regress.json"
        procs.append(("regress", subprocess.Popen(base + ["--regress", "--out", str(rp)], env=env,
                                                  stdout=subprocess.PIPE, stderr=subprocess.PIPE)))
        for i in range(nshards):
            cmd = base + ["--shard", f"{i}/{nshards}", "--out", str(tmp / f"{i}.json")]
            if only:
                cmd += ["--engine", only]
            procs.append((i, subprocess.Popen(cmd, env=env, stdout=subprocess.PIPE,
                                              stderr=subprocess.PIPE)))
        limit = getattr(mod, "TIME_LIMIT", {}).get(tier, 3600 if tier == "quick" else 12 * 3600)
        if os.environ.get("VT_TIME_LIMIT"):
            limit = float(os.environ["VT_TIME_LIMIT"])
        failed = []
        for tag, p in procs:
            try:
                # shards stop generating at 80 % of the limit; a case that is in flight then may still take
                # minutes (budgeted parser runs), so the hard stop comes well after the limit
                so, se = p.communicate(timeout=max(5, limit + 900 - (time.time() - t0)))
            except subprocess.TimeoutExpired:
                p.kill()
                so, se = p.communicate()
                failed.append((tag, "timeout", se.decode(errors="replace")[-3000:]))
                continue
            if p.returncode != 0:
                failed.append((tag, p.returncode, se.decode(errors="replace")[-3000:]))
        if failed:
            for tag, rc, se in failed[:3]:
                print(f"HARNESS-ERROR: shard {tag} rc={rc}\n{se}", file=sys.stderr)
            return 2
        merged = Stats(prop)
        for i in range(nshards):
            js = json.loads((tmp / f"{i}.json").read_text())
            merged.evaluations += js["evaluations"]
            merged.cases += js["cases"]
            merged.nontrivial.update(js["nontrivial"])
            merged.classes.update(js["classes"])
            merged.trivial.update(js["trivial"])
            merged.known_hits.update(js["known_hits"])
            merged.engine_cases.update(js["engine_cases"])
            merged.messages.extend(js["messages"])
            merged.slow.extend(js.get("slow", []))
            for k, v in js["exhaustive"].items():
                merged.exhaustive[k] = merged.exhaustive.get(k, True) and v
            for k, v in js["notes"].items():
                merged.notes.setdefault(k, collections.Counter()).update(v)
            for k, v in js["samples"].items():
                if len(merged.samples) < MAX_SAMPLES:
                    merged.samples.setdefault(k, v)
            for sig, v in js["violations"].items():
                cur = merged.violations.get(sig)
                if cur is None:
                    merged.violations[sig] = v
                else:
                    cur["count"] += v["count"]
                    if v["size"] < cur["size"]:
                        cnt = cur["count"]
                        cur.update(v)
                        cur["count"] = cnt
        regress = json.loads(rp.read_text())
    finally:
        shutil.rmtree(tmp, ignore_errors=True)

    # ---- verdict
    lines: list[str] = []
    violations = dict(merged.violations)
    # Verdicts that rest on a wall-clock limit (a module lists their prefixes in CONFIRM_ALONE) are only suspicions
    # while sixteen shards keep every core busy: each is replayed here, in this otherwise idle process, after all
    # shards have ended.  What does not reproduce is reported as a message, not as a violation.
    for sig in [s for s in violations if any(s.startswith(p) for p in getattr(mod, "CONFIRM_ALONE", ()))]:
        v = violations[sig]
        try:
            again = replay_case(mod, v["engine"], v["case"])
            confirmed = any(s2 == sig for s2, _ in again.violations)
        except Exception as exc:      # noqa: BLE001
            confirmed = True
            merged.messages.append(f"confirmation replay of {sig} failed: {exc!r}")
        if not confirmed:
            del violations[sig]
            merged.messages.append(f"time-limit suspicion not confirmed when replayed alone: {sig}")
    # regression tier: fixed entries must stay fixed; open entries print KNOWN-FINDING
    for r in regress:
        ent = findings.by_id(r["id"])
        if r["status"] == "open":
            lines.append(f"KNOWN-FINDING: property={prop} {ent['id']}: {ent['what']}")
            if r["sigs"] is not None and not any(findings.match(ent, s) for s in r["sigs"]):
                merged.messages.append(f"known finding {ent['id']} no longer reproduces from its stored case")
        elif r["status"] == "fixed" and r["sigs"]:
            for s, d in zip(r["sigs"], r.get("details", []) + [""] * len(r["sigs"])):
                if findings.lookup(prop, s) is not None:
                    continue        # an open known finding also shows on this stored case
                rep = ent["replay"]
                violations.setdefault(s, {"sig": s, "detail": f"regression of fixed finding {ent['id']}: {d}",
                                          "engine": rep["engine"], "case": rep["case"], "count": 1, "size": 0})
    # open findings hit in the search but lacking a stored case still get their line
    printed = {l.split()[2].rstrip(":") for l in lines}
    for sig in merged.known_hits:
        ent = findings.lookup(prop, sig)
        if ent and ent["id"] not in printed:
            lines.append(f"KNOWN-FINDING: property={prop} {ent['id']}: {ent['what']}")
            printed.add(ent["id"])

    wall = time.time() - t0
    samples = list(merged.samples.values())
    ev = {
        "property_id": prop, "tier": tier, "seed": seed, "level": "exploration",
        "coverage": {
            "evaluations": merged.evaluations,
            "cases": merged.cases,
            "distinct_nontrivial": len(merged.nontrivial),
            "rule": mod.RULE,
            "samples": samples,
            "classes": dict(sorted(merged.classes.items())),
            "trivial": dict(sorted(merged.trivial.items())),
            "engine_cases": dict(merged.engine_cases),
            "known_finding_hits": dict(merged.known_hits),
            "exhaustive_subspaces": [k for k, v in merged.exhaustive.items() if v],
            "notes": {k: dict(sorted(v.items(), key=lambda kv: -kv[1])[:60]) for k, v in merged.notes.items()},
            "shards": nshards,
            "messages": merged.messages[:20],
            "slowest_cases": sorted(merged.slow, key=lambda x: -x[0])[:3],
            "unknown_violation_signatures": sorted(violations)[:MAX_SIGS],
        },
        "assumptions": list(mod.ASSUMPTIONS),
        "wall_s": round(wall, 2),
        "violations": len(violations),
    }
    if only:
        ev["coverage"]["only_engine"] = only
    try:
        validate_evidence(ev)
    except HarnessError:
        raise
    except Exception as exc:
        print(f"HARNESS-ERROR: evidence does not validate: {exc}", file=sys.stderr)
        EVIDENCE_DIR.mkdir(exist_ok=True)
        return 2
    if not os.environ.get("VT_NO_EVIDENCE"):
        EVIDENCE_DIR.mkdir(exist_ok=True)
        (EVIDENCE_DIR / f"{prop}.json").write_text(json.dumps(ev, indent=1, sort_keys=True))
    for l in lines:
        print(l)
    if violations:
        for i, (sig, v) in enumerate(sorted(violations.items())):
            path = write_replay(prop, v)
            print(f"VIOLATION property={prop} replay={path}")
            if i < 12 or os.environ.get("VT_VERBOSE"):
                print(f"  signature={sig} count={v['count']} detail={v['detail'][:(2000 if os.environ.get('VT_VERBOSE') else 260)]}")
            else:
                print(f"  signature={sig} count={v['count']}")
        return 1
    print(f"OK property={prop} tier={tier} seed={seed} cases={merged.cases} evaluations={merged.evaluations} "
          f"nontrivial={len(merged.nontrivial)} known_hits={sum(merged.known_hits.values())} wall={wall:.1f}s")
    return 0


def do_replay(modname: str, path: str) -> int:
    mod = importlib.import_module(f"vt.props.{modname}")
    rep = json.loads(Path(path).read_text())
    out = replay_case(mod, rep["engine"], rep["case"])
    bad = [(s, d) for s, d in out.violations if findings.lookup(mod.PROPERTY, s) is None]
    for s, d in out.violations:
        tag = "unknown" if (s, d) in bad else "known"
        print(f"  [{tag}] {s}: {d[:600]}")
    if bad:
        print(f"VIOLATION property={mod.PROPERTY} replay={path}")
        return 1
    print(f"OK property={mod.PROPERTY} replay={path} (no unlisted violation)")
    return 0


def main(argv: list[str]) -> int:
    ap = argparse.ArgumentParser()
    ap.add_argument("prop")
    ap.add_argument("--tier", default=os.environ.get("VERIF_TIER", "quick"), choices=["quick", "thorough"])
    ap.add_argument("--replay")
    ap.add_argument("--shard")
    ap.add_argument("--shards", type=int)
    ap.add_argument("--regress", action="store_true")
    ap.add_argument("--out")
    ap.add_argument("--engine")
    a = ap.parse_args(argv)
    modname = a.prop.lower()
    try:
        seed = int(os.environ.get("VERIF_SEED", "1") or "1")
    except ValueError:
        seed = 1
    try:
        if a.replay:
            return do_replay(modname, a.replay)
        if a.regress:
            return run_regress(modname, a.out)
        if a.shard:
            i, n = a.shard.split("/")
            return run_shard(modname, a.tier, seed, int(i), int(n), a.out, a.engine)
        return parent(modname, a.tier, seed, a.engine, a.shards)
    except HarnessError as exc:
        print(f"HARNESS-ERROR: {exc}", file=sys.stderr)
        return 2
    except Exception:
        traceback.print_exc()
        print("HARNESS-ERROR: unexpected exception in the verification machinery", file=sys.stderr)
        return 2
