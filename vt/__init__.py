"""Verification toolkit for asrashley/dash-live (property-based testing and fuzzing)."""
