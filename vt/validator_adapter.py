"""Deterministic in-process driver for the repository's bundled DASH validator (property C18).

Everything the validator needs from the outside world is supplied here and is a pure function of the
case: an HTTP client that serves from the in-process Flask app at the harness-controlled instant (and
can rewrite exactly one response), a synchronous worker pool (no threads), and a replacement for
asyncio.sleep that advances vt.clock instead of waiting.

Nothing in this module judges the validator; it only runs it and records what happened.
"""
from __future__ import annotations

import asyncio
import logging
import time
import traceback
from pathlib import Path

from . import app, clock, session


class Abort(BaseException):
    """Raised from inside the HTTP client to stop a run (BaseException: the validator's own
    `except Exception` handlers must not swallow it)."""

    def __init__(self, why: str):
        super().__init__(why)
        self.why = why


# ------------------------------------------------------------------ worker pool

class _Done:
    __slots__ = ("_value", "_exc")

    def __init__(self, value=None, exc=None):
        self._value, self._exc = value, exc

    def result(self):
        if self._exc is not None:
            raise self._exc
        return self._value

    def done(self):
        return True

    def exception(self):
        return self._exc


class _InlineGroup:
    """Same contract as concurrent_pool.AsyncPoolContextManager: submit() returns something with
    .result(); leaving the group re-raises the first exception of a submitted function (that is
    what `await asyncio.gather(*tasks)` does there)."""

    def __init__(self, progress):
        self.progress = progress
        self.tasks: list[_Done] = []

    async def __aenter__(self):
        return self

    async def __aexit__(self, exc_type, exc, tb):
        if self.progress:
            self.progress.inc(len(self.tasks))
        if exc_type is None:
            for t in self.tasks:
                if t._exc is not None:
                    raise t._exc
        return False

    def submit(self, fn, *args):
        if self.progress:
            self.progress.add_todo(1)
        try:
            t = _Done(value=fn(*args))
        except Exception as exc:          # noqa: BLE001 - delivered through result()/__aexit__
            t = _Done(exc=exc)
        self.tasks.append(t)
        return t


def make_pool():
    from dashlive.mpeg.dash.validator.pool import WorkerPool

    class InlinePool(WorkerPool):
        def group(self, progress=None):
            return _InlineGroup(progress)

        def submit(self, fn, *args, **kwargs):
            try:
                return _Done(value=fn(*args, **kwargs))
            except Exception as exc:      # noqa: BLE001
                return _Done(exc=exc)

        def wait_for_completion(self, timeout: int = 0):
            return []

    return InlinePool()


# ------------------------------------------------------------------ HTTP client

class Response:
    """The subset of werkzeug's test Response the validator uses."""

    def __init__(self, status: int, headers, body: bytes):
        self.status_code = status
        self.headers = headers
        self._body = body

    def get_data(self, as_text: bool = False):
        if as_text:
            return self._body.decode("utf-8", errors="replace")
        return self._body

    @property
    def data(self):
        return self._body

    @property
    def text(self):
        return self.get_data(as_text=True)


class Fetch:
    """One recorded exchange."""
    __slots__ = ("step", "url", "range", "status", "ctype", "body", "occ", "method", "exc_where", "rewritten")

    def __init__(self, step, url, rng, status, ctype, body, occ, method, exc_where):
        self.step, self.url, self.range, self.status = step, url, rng, status
        self.ctype, self.body, self.occ, self.method = ctype, body, occ, method
        self.exc_where = exc_where
        self.rewritten = False

    @property
    def key(self):
        return (self.url, self.range or "", self.occ)


class RecordingClient:
    """HttpClient protocol of the validator.  `rewrite` = (key, fn(body)->body): the response whose
    key is (url, Range header text or '', n-th request of that url+range) is passed through fn."""

    def __init__(self, env: app.Env, max_requests: int, wall_limit: float, rewrite=None):
        self.env = env
        self.client = env.client()
        self.max_requests = max_requests
        self.rewrite = rewrite
        self.log: list[Fetch] = []
        self.step = 0
        self._occ: dict = {}
        self._t0 = time.monotonic()
        self.wall_limit = wall_limit
        self.applied = False

    def _do(self, method: str, url: str, headers):
        if len(self.log) >= self.max_requests:
            raise Abort("request-budget")
        if time.monotonic() - self._t0 > self.wall_limit:
            raise Abort("wall-clock")
        rng = None
        kw = {}
        if headers:
            kw["headers"] = dict(headers)
            rng = kw["headers"].get("Range")
        r = self.env.request(method, session.rel(url), client=self.client, **kw)
        k = (url, rng or "")
        occ = self._occ.get(k, 0)
        self._occ[k] = occ + 1
        body = r.body
        f = Fetch(self.step, url, rng, r.status, r.headers.get("Content-Type", ""), body, occ, method, r.exc_where)
        if self.rewrite is not None and self.rewrite[0] == f.key and method == "GET":
            body = self.rewrite[1](body)
            f.rewritten = True
            self.applied = True
        self.log.append(f)
        return Response(r.status, r.headers, body)

    async def get(self, url, headers=None, params=None, status=None, xhr=False):
        return self._do("GET", url, headers)

    async def head(self, url, headers=None, params=None, status=None, xhr=False):
        return self._do("HEAD", url, headers)


# ------------------------------------------------------------------ one validator session

class Run:
    """What happened in one session."""

    def __init__(self):
        self.manifest_status: int | None = None
        self.loaded = False
        self.errors: list = []            # ValidationError objects
        self.finished = False
        self.iterations = 0
        self.refreshes = 0
        self.patched = 0                  # refreshes that did not re-fetch the manifest
        self.slept = 0.0
        self.abort: str | None = None     # 'request-budget' | 'wall-clock' | 'iteration-budget'
        self.exc: BaseException | None = None
        self.exc_where: str | None = None
        self.exc_tb: str | None = None
        self.fetches: list[Fetch] = []
        self.applied = False
        self.documents: dict[int, list[str]] = {}   # generation -> manifest text lines the validator holds
        self.located: list = []           # (ValidationError, generation of the document its location refers to)
        self.dv = None


def repo_frame(tb) -> str:
    """'file.py:function' of the innermost frame inside the repository."""
    where = "?"
    for fr in traceback.extract_tb(tb):
        fn = fr.filename
        if "/dashlive/" in fn or fn.startswith(str(app.REPO)):
            where = f"{Path(fn).name}:{fr.name}"
    return where


_log = logging.getLogger("vt.c18.validator")


def run_validator(env: app.Env, T, url: str, mode: str, encrypted: bool, duration: int,
                  max_iterations, max_requests: int, stream_dir: str | None = None,
                  rewrite=None, wall_limit: float = 25.0, stop_on_error: bool = True,
                  verify_media: bool = True) -> Run:
    """Drive DashValidator the way tests/mixins/check_manifest.py::do_check_manifest_url does:
    GET the manifest, load(data=...), then validate / sleep / refresh until finished(), an error is
    reported (stop_on_error) or the iteration budget is used up.  `url` is absolute (http://localhost/...).
    max_iterations: int, or a function of the first manifest body returning the int."""
    from dashlive.mpeg.dash.validator import DashValidator, ValidationFlag, ValidatorOptions
    from dashlive.server import models

    run = Run()
    client = RecordingClient(env, max_requests, wall_limit, rewrite)
    clock.set_now(T)

    async def fake_sleep(delay, result=None):
        if delay > 0:
            clock.advance(delay)
            run.slept += delay
        return result

    async def go():
        first = client._do("GET", url, None)
        run.manifest_status = first.status_code
        if first.status_code != 200:
            return
        opts = ValidatorOptions(duration=duration, encrypted=encrypted, pool=make_pool(), log=_log)
        if not verify_media:
            opts.verify &= ~ValidationFlag.MEDIA
        dv = DashValidator(url=url, http_client=client, mode=mode, options=opts)
        run.dv = dv
        loaded = await dv.load(data=first.get_data(as_text=False))
        run.loaded = bool(loaded)
        run.documents[0] = list(dv.manifest_text)
        if loaded and stream_dir is not None:
            # upstream's ViewsTestDashValidator.load: hand the database's view of every media file over
            with env.app.app_context():
                st = models.Stream.get(directory=stream_dir)
                if st is not None:
                    for mf in st.media_files:
                        if mf.representation is not None:
                            dv.set_representation_info(mf.representation)
        budget = max_iterations(first.get_data(as_text=False)) if callable(max_iterations) else max_iterations
        while loaded and not dv.finished():
            if budget <= 0:
                run.abort = "iteration-budget"
                break
            run.iterations += 1
            client.step = run.iterations
            await dv.validate()
            if stop_on_error and dv.has_errors():
                break
            if not dv.finished():
                budget -= 1
                await dv.sleep()
                n_before = sum(1 for f in client.log if f.url == url)
                await dv.refresh()
                run.refreshes += 1
                if sum(1 for f in client.log if f.url == url) == n_before:
                    run.patched += 1
                run.documents[len(dv.history)] = list(dv.manifest_text)
        run.finished = bool(loaded and dv.finished())

    real_sleep = asyncio.sleep
    asyncio.sleep = fake_sleep
    try:
        loop = asyncio.new_event_loop()
        try:
            loop.run_until_complete(go())
        finally:
            try:
                loop.run_until_complete(loop.shutdown_asyncgens())
            finally:
                loop.close()
    except Abort as ab:
        run.abort = ab.why
    except Exception as exc:              # noqa: BLE001 - an escaping exception is an observation
        run.exc = exc
        run.exc_where = repo_frame(exc.__traceback__)
        run.exc_tb = "".join(traceback.format_exception(type(exc), exc, exc.__traceback__)[-8:])
    finally:
        asyncio.sleep = real_sleep
    run.fetches = client.log
    run.applied = client.applied
    if run.dv is not None:
        try:
            from dashlive.mpeg.dash.validator.dash_element import DashElement
            for g, h in enumerate(run.dv.history):
                run.located += [(e, g) for e in h.errors]
            run.located += [(e, len(run.dv.history)) for e in DashElement.get_errors(run.dv)]
            run.errors = [e for e, _ in run.located]
        except Exception as exc:          # noqa: BLE001
            if run.exc is None:
                run.exc = exc
                run.exc_where = repo_frame(exc.__traceback__)
                run.exc_tb = "".join(traceback.format_exception(type(exc), exc, exc.__traceback__)[-8:])
        run.documents.setdefault(len(run.dv.history), list(run.dv.manifest_text))
    return run
