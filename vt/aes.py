"""Independent single-block AES-128 encryption (FIPS-197), table-free except for the S-box built at import.
Used only as an oracle for the PlayReady checksum; imports nothing from dashlive or Crypto."""


def _xtime(a):
    a <<= 1
    return (a ^ 0x11B) & 0xFF if a & 0x100 else a


def _build_sbox():
    # multiplicative inverse in GF(2^8) followed by the affine transform
    exp, log = [0] * 512, [0] * 256
    x = 1
    for i in range(255):
        exp[i] = x
        log[x] = i
        x ^= _xtime(x)           # multiply by 3
    for i in range(255, 512):
        exp[i] = exp[i - 255]
    sbox = [0] * 256
    for i in range(256):
        inv = 0 if i == 0 else exp[255 - log[i]]
        s = inv
        for _ in range(4):
            inv = ((inv << 1) | (inv >> 7)) & 0xFF
            s ^= inv
        sbox[i] = s ^ 0x63
    return sbox


SBOX = _build_sbox()
assert SBOX[0] == 0x63 and SBOX[1] == 0x7C and SBOX[0x53] == 0xED


def _expand(key: bytes):
    w = [list(key[i:i + 4]) for i in range(0, 16, 4)]
    rcon = 1
    for i in range(4, 44):
        t = list(w[i - 1])
        if i % 4 == 0:
            t = t[1:] + t[:1]
            t = [SBOX[b] for b in t]
            t[0] ^= rcon
            rcon = _xtime(rcon)
        w.append([a ^ b for a, b in zip(w[i - 4], t)])
    return [sum(w[r * 4:r * 4 + 4], []) for r in range(11)]


def encrypt_block(key: bytes, block: bytes) -> bytes:
    assert len(key) == 16 and len(block) == 16
    rk = _expand(key)
    s = [b ^ k for b, k in zip(block, rk[0])]
    for rnd in range(1, 11):
        s = [SBOX[b] for b in s]
        s = [s[(c * 4 + r + 4 * r) % 16] for c in range(4) for r in range(4)]      # ShiftRows (column-major state)
        if rnd != 10:
            out = []
            for c in range(4):
                a = s[c * 4:c * 4 + 4]
                t = a[0] ^ a[1] ^ a[2] ^ a[3]
                out += [a[i] ^ t ^ _xtime(a[i] ^ a[(i + 1) % 4]) for i in range(4)]
            s = out
        s = [b ^ k for b, k in zip(s, rk[rnd])]
    return bytes(s)


if __name__ == "__main__":
    # FIPS-197 appendix C.1
    k = bytes(range(16))
    p = bytes.fromhex("00112233445566778899aabbccddeeff")
    assert encrypt_block(k, p).hex() == "69c4e0d86a7b0430d8cdb78070b4c55a", encrypt_block(k, p).hex()
    # appendix B
    assert encrypt_block(bytes.fromhex("2b7e151628aed2a6abf7158809cf4f3c"),
                         bytes.fromhex("3243f6a8885a308d313198a2e0370734")).hex() == "3925841d02dc09fbdc118597196a0b32"
    print("aes ok")
