"""known_findings.json: committed, read-only at run time.

Entry: {"id": "C13-F1", "property": "C13", "status": "open" | "fixed",
        "signature": "<exact signature or fnmatch pattern>" | [..],
        "what": "<what fails, one line>", "commit": "<sha for fixed>",
        "analysis": "...", "replay": {"engine": "...", "case": ...}}
An *open* entry makes violations whose signature matches count as known (the
search continues, a KNOWN-FINDING line is printed, exit 0).  A *fixed* entry
suppresses nothing; its stored case is re-run on every invocation as a
regression test.
"""
import fnmatch
import json
from pathlib import Path

_PATH = Path(__file__).resolve().parent.parent / "known_findings.json"
_cache = None


def _load():
    global _cache
    if _cache is None:
        if _PATH.exists():
            _cache = json.loads(_PATH.read_text())["findings"]
        else:
            _cache = []
    return _cache


def entries(prop):
    return [e for e in _load() if e["property"] == prop]


def by_id(fid):
    for e in _load():
        if e["id"] == fid:
            return e
    return None


def match(ent, sig):
    pats = ent["signature"]
    if isinstance(pats, str):
        pats = [pats]
    return any(sig == p or fnmatch.fnmatchcase(sig, p) for p in pats)


def lookup(prop, sig):
    """The OPEN entry covering this signature, or None."""
    for e in _load():
        if e["property"] == prop and e["status"] == "open" and match(e, sig):
            return e
    return None
