"""Independent ISO-BMFF WRITER, strict structure checker and Hypothesis box-tree
strategies for C04.  struct only: imports NOTHING from dashlive.

Written from ISO/IEC 14496-12 (box structures), 14496-15 (avcC/hvcC), 14496-1 (esds
descriptors), 14496-30 (stpp/wvtt), 23001-7 (tenc/senc/pssh/saiz/saio use), 23009-1
(sidx use, emsg), ETSI TS 102 366 (dac3/dec3) and PIFF 1.1 (uuid sample encryption box).

A box is described by a plain JSON "spec":  {"t": fourcc, ...fields, "c": [child specs]}
  "hdr": "32" (default) | "64" (size==1 + 64-bit largesize) | "0" (size==0: last box of the file)
Layout-dependent fields may be given as the string "auto":
  tfhd.base_data_offset -> start of the enclosing moof (+ "base_delta")
  trun.data_offset      -> position of this run's first sample in the mdat following the moof,
                           relative to the base of its traf
  saio.offsets          -> one entry: position of the first senc IV relative to the base
They are resolved after the whole file has been laid out (sizes never depend on them).
"""
from __future__ import annotations

import struct

from . import isobox
from .isobox import BoxError

PIFF_UUID = "a2394f525a9b4f14a2446c427c648df4"
# containers as the library under test models them (children start at payload offset 0)
PLAIN_CONTAINERS = {"moov", "trak", "mdia", "minf", "stbl", "mvex", "moof", "traf", "sinf", "schi", "udta"}
VISUAL = {"avc1", "avc3", "hev1", "hvc1", "encv"}
AUDIO = {"ec-3", "ac-3", "mp4a", "enca"}
FULLBOXES = {"mvhd", "tkhd", "mdhd", "hdlr", "mehd", "trex", "mfhd", "tfhd", "tfdt", "trun", "saiz", "saio",
             "senc", "tenc", "pssh", "sidx", "emsg", "schm", "mime", "esds", "stsd"}


# ------------------------------------------------------------------------------- writer

class W:
    """Byte buffer that remembers where every named field was written (absolute offsets)."""

    def __init__(self, pos: int, ctx: "Ctx", path: str):
        self.base, self.ctx, self.path = pos, ctx, path
        self.buf = bytearray()
        self.fields: list[tuple[str, int, int]] = []

    def raw(self, name: str, data: bytes):
        self.fields.append((name, self.base + len(self.buf), len(data)))
        self.buf += data

    def u8(self, n, v): self.raw(n, struct.pack(">B", v))
    def u16(self, n, v): self.raw(n, struct.pack(">H", v))
    def u24(self, n, v): self.raw(n, struct.pack(">I", v)[1:])
    def u32(self, n, v): self.raw(n, struct.pack(">I", v))
    def i32(self, n, v): self.raw(n, struct.pack(">i", v))
    def u64(self, n, v): self.raw(n, struct.pack(">Q", v))
    def ux(self, n, v, wide): self.raw(n, struct.pack(">Q" if wide else ">I", v))
    def fcc(self, n, v): self.raw(n, v.encode("latin1"))
    def hex(self, n, v): self.raw(n, bytes.fromhex(v))
    def zeros(self, n, k): self.raw(n, bytes(k))
    def cstr(self, n, v): self.raw(n, v.encode("utf-8") + b"\0")

    def full(self, s):
        self.u8("version", s.get("v", 0))
        self.u24("flags", s.get("f", 0))

    def child(self, spec):
        self.buf += emit(spec, self.base + len(self.buf), self.ctx, self.path)

    def children(self, s):
        for c in s.get("c", []):
            self.child(c)


class Ctx:
    def __init__(self):
        self.boxes: list[dict] = []


def label(spec) -> str:
    """name used in signatures and coverage: fourcc, 'uuid-piff', 'uuid' or 'unknown'."""
    t = spec["t"]
    if t == "uuid":
        return "uuid-piff" if spec.get("usertype") == PIFF_UUID else "uuid"
    if t == "opaque":
        return spec["fourcc"] if spec["fourcc"] in ("free", "skip", "mdat") else "unknown"
    return t


def emit(spec: dict, pos: int, ctx: Ctx, parent_path: str = "") -> bytes:
    t = spec["t"]
    fourcc = spec["fourcc"] if t == "opaque" else t
    form = spec.get("hdr", "32")
    hdrlen = 8 + (8 if form == "64" else 0) + (16 if t == "uuid" else 0)
    path = (parent_path + "." if parent_path else "") + label(spec)
    info = {"label": label(spec), "path": path, "start": pos, "hdrlen": hdrlen, "form": form, "spec": spec,
            "version": spec.get("v") if (t in FULLBOXES or (t == "uuid" and "v" in spec)) else None,
            "flags": spec.get("f", 0) if (t in FULLBOXES or (t == "uuid" and "v" in spec)) else None,
            "depth": path.count(".")}
    ctx.boxes.append(info)
    w = W(pos + hdrlen, ctx, path)
    WRITERS[t](spec, w)
    size = hdrlen + len(w.buf)
    fc = fourcc.encode("latin1")
    if form == "64":
        head = struct.pack(">I4sQ", 1, fc, size)
    elif form == "0":
        head = struct.pack(">I4s", 0, fc)
    else:
        head = struct.pack(">I4s", size, fc)
    if t == "uuid":
        head += bytes.fromhex(spec["usertype"])
    info["size"] = size
    info["fields"] = w.fields
    return head + bytes(w.buf)


def w_container(s, w): w.children(s)


def w_opaque(s, w): w.hex("data", s.get("data", ""))


def w_ftyp(s, w):
    w.fcc("major_brand", s["major"])
    w.u32("minor_version", s["minor"])
    for b in s["brands"]:
        w.fcc("compatible_brands", b)


def _matrix(s, w):
    for m in s["matrix"]:
        w.u32("matrix", m)


def w_mvhd(s, w):
    w.full(s)
    wide = s["v"] == 1
    w.ux("creation_time", s["creation"], wide)
    w.ux("modification_time", s["modification"], wide)
    w.u32("timescale", s["timescale"])
    w.ux("duration", s["duration"], wide)
    w.u32("rate", s["rate"])
    w.u16("volume", s["volume"])
    w.zeros("reserved", 10)
    _matrix(s, w)
    w.zeros("pre_defined", 24)
    w.u32("next_track_id", s["next_track_id"])


def w_tkhd(s, w):
    w.full(s)
    wide = s["v"] == 1
    w.ux("creation_time", s["creation"], wide)
    w.ux("modification_time", s["modification"], wide)
    w.u32("track_id", s["track_id"])
    w.zeros("reserved", 4)
    w.ux("duration", s["duration"], wide)
    w.zeros("reserved", 8)
    w.u16("layer", s["layer"])
    w.u16("alternate_group", s["alternate_group"])
    w.u16("volume", s["volume"])
    w.zeros("reserved", 2)
    _matrix(s, w)
    w.u32("width", s["width"])
    w.u32("height", s["height"])


def w_mdhd(s, w):
    w.full(s)
    wide = s["v"] == 1
    w.ux("creation_time", s["creation"], wide)
    w.ux("modification_time", s["modification"], wide)
    w.u32("timescale", s["timescale"])
    w.ux("duration", s["duration"], wide)
    a, b, c = (ord(ch) - 0x60 for ch in s["language"])
    w.u16("language", (a << 10) | (b << 5) | c)      # pad bit 0
    w.u16("pre_defined", 0)


def w_hdlr(s, w):
    w.full(s)
    w.u32("pre_defined", 0)
    w.fcc("handler_type", s["handler_type"])
    w.zeros("reserved", 12)
    w.cstr("name", s["name"])


def w_mehd(s, w):
    w.full(s)
    w.ux("fragment_duration", s["fragment_duration"], s["v"] == 1)


def w_trex(s, w):
    w.full(s)
    for n in ("track_id", "default_sample_description_index", "default_sample_duration",
              "default_sample_size", "default_sample_flags"):
        w.u32(n, s[n])


def w_mfhd(s, w):
    w.full(s)
    w.u32("sequence_number", s["sequence_number"])


def w_tfhd(s, w):
    w.full(s)
    f = s["f"]
    w.u32("track_id", s["track_id"])
    if f & 0x1:
        v = s["base_data_offset"]
        w.u64("base_data_offset", 0 if v == "auto" else v)
    if f & 0x2:
        w.u32("sample_description_index", s["sample_description_index"])
    if f & 0x8:
        w.u32("default_sample_duration", s["default_sample_duration"])
    if f & 0x10:
        w.u32("default_sample_size", s["default_sample_size"])
    if f & 0x20:
        w.u32("default_sample_flags", s["default_sample_flags"])


def w_tfdt(s, w):
    w.full(s)
    w.ux("base_media_decode_time", s["base_media_decode_time"], s["v"] == 1)


def w_trun(s, w):
    w.full(s)
    f, v = s["f"], s["v"]
    w.u32("sample_count", len(s["samples"]))
    if f & 0x1:
        d = s["data_offset"]
        w.i32("data_offset", 0 if d == "auto" else d)
    if f & 0x4:
        w.u32("first_sample_flags", s["first_sample_flags"])
    for smp in s["samples"]:
        if f & 0x100:
            w.u32("sample_duration", smp["duration"])
        if f & 0x200:
            w.u32("sample_size", smp["size"])
        if f & 0x400:
            w.u32("sample_flags", smp["flags"])
        if f & 0x800:
            if v == 0:
                w.u32("sample_composition_time_offset", smp["cto"])
            else:
                w.i32("sample_composition_time_offset", smp["cto"])


def w_saiz(s, w):
    w.full(s)
    if s["f"] & 1:
        w.fcc("aux_info_type", s["aux_info_type"])
        w.u32("aux_info_type_parameter", s["aux_info_type_parameter"])
    w.u8("default_sample_info_size", s["default_sample_info_size"])
    w.u32("sample_count", s["sample_count"])
    if s["default_sample_info_size"] == 0:
        for z in s["sizes"]:
            w.u8("sample_info_size", z)


def w_saio(s, w):
    w.full(s)
    if s["f"] & 1:
        w.fcc("aux_info_type", s["aux_info_type"])
        w.u32("aux_info_type_parameter", s["aux_info_type_parameter"])
    offs = [0] if s["offsets"] == "auto" else s["offsets"]
    w.u32("entry_count", len(offs))
    for o in offs:
        w.ux("offset", o, s["v"] == 1)


def w_senc(s, w):
    """senc, and the PIFF uuid box which has the same body (PIFF 1.1 5.3.2.1)."""
    w.full(s)
    f = s["f"]
    if f & 1:
        w.u24("algorithm_id", s["algorithm_id"])
        w.u8("iv_size", s["iv_size"])
        w.hex("kid", s["kid"])
    w.u32("sample_count", len(s["entries"]))
    for e in s["entries"]:
        w.hex("iv", e["iv"])
        if f & 2:
            w.u16("subsample_count", len(e["subs"]))
            for clear, enc in e["subs"]:
                w.u16("bytes_of_clear_data", clear)
                w.u32("bytes_of_protected_data", enc)


def w_uuid(s, w):
    if s.get("usertype") == PIFF_UUID:
        w_senc(s, w)
    else:
        w.hex("data", s.get("data", ""))


def w_tenc(s, w):
    w.full(s)
    w.u8("reserved", 0)
    if s["v"] == 0:
        w.u8("reserved", 0)
    else:
        w.u8("crypt_skip_byte_block", (s["crypt"] << 4) | s["skip"])
    w.u8("is_protected", s["is_protected"])
    w.u8("iv_size", s["iv_size"])
    w.hex("default_kid", s["kid"])
    if s["is_protected"] == 1 and s["iv_size"] == 0:
        civ = bytes.fromhex(s["constant_iv"])
        w.u8("constant_iv_size", len(civ))
        w.raw("constant_iv", civ)


def w_pssh(s, w):
    w.full(s)
    w.hex("system_id", s["system_id"])
    if s["v"] > 0:
        w.u32("kid_count", len(s["kids"]))
        for k in s["kids"]:
            w.hex("kid", k)
    d = bytes.fromhex(s["data"])
    w.u32("data_size", len(d))
    w.raw("data", d)


def w_sidx(s, w):
    w.full(s)
    wide = s["v"] != 0
    w.u32("reference_id", s["reference_id"])
    w.u32("timescale", s["timescale"])
    w.ux("earliest_presentation_time", s["earliest_presentation_time"], wide)
    w.ux("first_offset", s["first_offset"], wide)
    w.u16("reserved", 0)
    w.u16("reference_count", len(s["refs"]))
    for r in s["refs"]:
        w.u32("ref_type_size", (r["type"] << 31) | r["size"])
        w.u32("subsegment_duration", r["duration"])
        w.u32("sap", (r["starts_with_sap"] << 31) | (r["sap_type"] << 28) | r["sap_delta"])


def w_emsg(s, w):
    w.full(s)
    if s["v"] == 0:
        w.cstr("scheme_id_uri", s["scheme_id_uri"])
        w.cstr("value", s["value"])
        w.u32("timescale", s["timescale"])
        w.u32("presentation_time_delta", s["presentation_time_delta"])
        w.u32("event_duration", s["event_duration"])
        w.u32("id", s["id"])
    else:
        w.u32("timescale", s["timescale"])
        w.u64("presentation_time", s["presentation_time"])
        w.u32("event_duration", s["event_duration"])
        w.u32("id", s["id"])
        w.cstr("scheme_id_uri", s["scheme_id_uri"])
        w.cstr("value", s["value"])
    w.hex("message_data", s["data"])


def w_schm(s, w):
    w.full(s)
    w.fcc("scheme_type", s["scheme_type"])
    w.u32("scheme_version", s["scheme_version"])
    if s["f"] & 1:
        w.cstr("scheme_uri", s["scheme_uri"])


def w_frma(s, w): w.fcc("data_format", s["data_format"])


def w_btrt(s, w):
    w.u32("bufferSizeDB", s["bufferSizeDB"])
    w.u32("maxBitrate", s["maxBitrate"])
    w.u32("avgBitrate", s["avgBitrate"])


def w_pasp(s, w):
    w.u32("h_spacing", s["h_spacing"])
    w.u32("v_spacing", s["v_spacing"])


def w_mime(s, w):
    w.full(s)
    w.cstr("content_type", s["content_type"])


def w_vttC(s, w): w.raw("config", s["config"].encode("utf-8"))


def _sample_entry(s, w):
    w.zeros("reserved", 6)
    w.u16("data_reference_index", s["data_reference_index"])


def w_stpp(s, w):
    _sample_entry(s, w)
    w.cstr("namespace", s["namespace"])
    w.cstr("schema_location", s["schema_location"])
    w.cstr("auxiliary_mime_types", s["auxiliary_mime_types"])
    w.children(s)


def w_wvtt(s, w):
    _sample_entry(s, w)
    w.children(s)


def w_visual(s, w):
    _sample_entry(s, w)
    w.u16("pre_defined", 0)
    w.u16("reserved", 0)
    w.zeros("pre_defined", 12)
    w.u16("width", s["width"])
    w.u16("height", s["height"])
    w.u32("horizresolution", s["horizresolution"])
    w.u32("vertresolution", s["vertresolution"])
    w.u32("reserved", 0)
    w.u16("frame_count", s["frame_count"])
    name = s["compressorname"].encode("utf-8")
    w.raw("compressorname", (bytes([len(name)]) + name).ljust(32, b"\0"))
    w.u16("depth", s["depth"])
    w.u16("pre_defined", 0xFFFF)
    w.children(s)


def w_audio(s, w):
    _sample_entry(s, w)
    w.zeros("reserved", 8)
    w.u16("channelcount", s["channelcount"])
    w.u16("samplesize", s["samplesize"])
    w.u16("pre_defined", 0)
    w.u16("reserved", 0)
    w.u32("samplerate", s["samplerate"] << 16)
    w.children(s)


def w_stsd(s, w):
    w.full(s)
    w.u32("entry_count", len(s.get("c", [])))
    w.children(s)


def w_avcC(s, w):
    w.u8("configurationVersion", 1)
    w.u8("AVCProfileIndication", s["profile"])
    w.u8("profile_compatibility", s["compat"])
    w.u8("AVCLevelIndication", s["level"])
    w.u8("lengthSizeMinusOne", 0xFC | s["length_size_minus_one"])
    w.u8("numOfSequenceParameterSets", 0xE0 | len(s["sps"]))
    for n in s["sps"]:
        d = bytes.fromhex(n)
        w.u16("sps_length", len(d))
        w.raw("sps", d)
    w.u8("numOfPictureParameterSets", len(s["pps"]))
    for n in s["pps"]:
        d = bytes.fromhex(n)
        w.u16("pps_length", len(d))
        w.raw("pps", d)
    if "ext" in s:
        e = s["ext"]
        w.u8("chroma_format", 0xFC | e["chroma_format"])
        w.u8("bit_depth_luma_minus8", 0xF8 | e["bit_depth_luma_minus8"])
        w.u8("bit_depth_chroma_minus8", 0xF8 | e["bit_depth_chroma_minus8"])
        w.u8("numOfSequenceParameterSetExt", len(e["sps_ext"]))
        for n in e["sps_ext"]:
            d = bytes.fromhex(n)
            w.u16("sps_ext_length", len(d))
            w.raw("sps_ext", d)


def w_hvcC(s, w):
    w.u8("configurationVersion", 1)
    w.u8("profile_space_tier_idc", (s["profile_space"] << 6) | (s["tier_flag"] << 5) | s["profile_idc"])
    w.u32("general_profile_compatibility_flags", s["compat_flags"])
    w.raw("general_constraint_indicator_flags", s["constraint_flags"].to_bytes(6, "big"))
    w.u8("general_level_idc", s["level_idc"])
    w.u16("min_spatial_segmentation_idc", 0xF000 | s["min_spatial_segmentation_idc"])
    w.u8("parallelismType", 0xFC | s["parallelism_type"])
    w.u8("chroma_format_idc", 0xFC | s["chroma_format_idc"])
    w.u8("bit_depth_luma_minus8", 0xF8 | s["bit_depth_luma_minus8"])
    w.u8("bit_depth_chroma_minus8", 0xF8 | s["bit_depth_chroma_minus8"])
    w.u16("avgFrameRate", s["avg_frame_rate"])
    w.u8("framerate_layers_nested_length", (s["constant_frame_rate"] << 6) | (s["num_temporal_layers"] << 3) |
         (s["temporal_id_nested"] << 2) | s["length_size_minus_one"])
    w.u8("numOfArrays", len(s["arrays"]))
    for a in s["arrays"]:
        w.u8("array_header", (a["completeness"] << 7) | a["nal_unit_type"])      # reserved bit 0
        w.u16("numNalus", len(a["nalus"]))
        for n in a["nalus"]:
            d = bytes.fromhex(n)
            w.u16("nalUnitLength", len(d))
            w.raw("nalUnit", d)


def _desc(tag: int, payload: bytes, size_form: int) -> bytes:
    """ISO/IEC 14496-1 8.3.3 expandable size: size_form = number of size bytes (0 = minimal)."""
    n = len(payload)
    groups = []
    while True:
        groups.insert(0, n & 0x7F)
        n >>= 7
        if not n:
            break
    while len(groups) < size_form:
        groups.insert(0, 0)
    sz = bytes((g | 0x80) if i < len(groups) - 1 else g for i, g in enumerate(groups))
    return bytes([tag]) + sz + payload


def w_esds(s, w):
    w.full(s)
    sf = s["size_form"]
    dsi = b"" if s["dsi"] is None else _desc(5, bytes.fromhex(s["dsi"]), sf)
    dcd = struct.pack(">BB", s["object_type"], (s["stream_type"] << 2) | (s["upstream"] << 1) | 1)
    dcd += struct.pack(">I", s["buffer_size"])[1:] + struct.pack(">II", s["max_bitrate"], s["avg_bitrate"]) + dsi
    es = struct.pack(">H", s["es_id"])
    es_flags = s["stream_priority"]
    tail = b""
    if s.get("depends_on_es_id") is not None:
        es_flags |= 0x80
        tail += struct.pack(">H", s["depends_on_es_id"])
    if s.get("url") is not None:
        es_flags |= 0x40
        u = s["url"].encode("utf-8")
        tail += bytes([len(u)]) + u
    if s.get("ocr_es_id") is not None:
        es_flags |= 0x20
        tail += struct.pack(">H", s["ocr_es_id"])
    es += bytes([es_flags]) + tail + _desc(4, dcd, sf) + _desc(6, b"\x02", sf)
    w.raw("es_descriptor", _desc(3, es, sf))


def w_dec3(s, w):
    bits = ""
    bits += format(s["data_rate"], "013b") + format(len(s["subs"]) - 1, "03b")
    for u in s["subs"]:
        bits += format(u["fscod"], "02b") + format(u["bsid"], "05b") + "0" + format(u["asvc"], "01b")
        bits += format(u["bsmod"], "03b") + format(u["acmod"], "03b") + format(u["lfeon"], "01b") + "000"
        bits += format(u["num_dep_sub"], "04b")
        bits += format(u["chan_loc"], "09b") if u["num_dep_sub"] > 0 else "0"
    if s.get("joc") is not None:
        bits += "0000000" + format(s["joc"]["flag"], "01b") + format(s["joc"]["complexity"], "08b")
    assert len(bits) % 8 == 0
    w.raw("bits", int(bits, 2).to_bytes(len(bits) // 8, "big"))


def w_dac3(s, w):
    v = (s["fscod"] << 22) | (s["bsid"] << 17) | (s["bsmod"] << 14) | (s["acmod"] << 11) | (s["lfeon"] << 10) | \
        (s["bit_rate_code"] << 5)
    w.raw("bits", v.to_bytes(3, "big"))


WRITERS = {t: w_container for t in PLAIN_CONTAINERS}
WRITERS.update({
    "opaque": w_opaque, "uuid": w_uuid, "ftyp": w_ftyp, "styp": w_ftyp, "mvhd": w_mvhd, "tkhd": w_tkhd,
    "mdhd": w_mdhd, "hdlr": w_hdlr, "mehd": w_mehd, "trex": w_trex, "mfhd": w_mfhd, "tfhd": w_tfhd,
    "tfdt": w_tfdt, "trun": w_trun, "saiz": w_saiz, "saio": w_saio, "senc": w_senc, "tenc": w_tenc,
    "pssh": w_pssh, "sidx": w_sidx, "emsg": w_emsg, "schm": w_schm, "frma": w_frma, "btrt": w_btrt,
    "pasp": w_pasp, "mime": w_mime, "vttC": w_vttC, "stpp": w_stpp, "wvtt": w_wvtt, "stsd": w_stsd,
    "avcC": w_avcC, "hvcC": w_hvcC, "esds": w_esds, "dec3": w_dec3, "dac3": w_dac3,
})
WRITERS.update({t: w_visual for t in VISUAL})
WRITERS.update({t: w_audio for t in AUDIO})
# names as the library registers them (mp4.fourcc.BOXES keys)
GENERATED_CLASSES = (set(WRITERS) - {"opaque", "uuid"}) | {"UUID(%s)" % PIFF_UUID}


def build_file(specs: list[dict]) -> tuple[bytes, list[dict]]:
    """bytes of the file and the list of box infos (pre-order, absolute positions)."""
    ctx = Ctx()
    out = bytearray()
    for s in specs:
        out += emit(s, len(out), ctx)
    _resolve_auto(out, ctx.boxes)
    return bytes(out), ctx.boxes


def _field(info, name):
    for n, off, ln in info["fields"]:
        if n == name:
            return off, ln
    return None


def _resolve_auto(buf: bytearray, boxes: list[dict]) -> None:
    tops = [b for b in boxes if b["depth"] == 0]
    for ti, moof in enumerate(tops):
        if moof["label"] != "moof":
            continue
        end = moof["start"] + moof["size"]
        inside = [b for b in boxes if moof["start"] < b["start"] < end]
        nxt = tops[ti + 1] if ti + 1 < len(tops) else None
        if nxt is not None and nxt["label"] == "mdat":
            data_pos = nxt["start"] + nxt["hdrlen"]
        else:
            data_pos = end + 8
        run_pos = data_pos
        for traf in [b for b in inside if b["label"] == "traf" and b["depth"] == 1]:
            tend = traf["start"] + traf["size"]
            kids = [b for b in inside if traf["start"] < b["start"] < tend and b["depth"] == 2]
            tfhd = next((b for b in kids if b["label"] == "tfhd"), None)
            base = moof["start"]
            dflt_size = 0
            if tfhd is not None:
                ts = tfhd["spec"]
                if ts["f"] & 0x1:
                    v = ts["base_data_offset"]
                    if v == "auto":
                        where = ts.get("base_at", "moof")
                        v = (data_pos if where == "mdat" else moof["start"]) + ts.get("base_delta", 0)
                        off, _ = _field(tfhd, "base_data_offset")
                        struct.pack_into(">Q", buf, off, v)
                    base = v
                if ts["f"] & 0x10:
                    dflt_size = ts["default_sample_size"]
            for b in kids:
                sp = b["spec"]
                if b["label"] == "trun":
                    if sp["f"] & 0x1 and sp["data_offset"] == "auto":
                        off, _ = _field(b, "data_offset")
                        struct.pack_into(">i", buf, off, run_pos - base)
                    for smp in sp["samples"]:
                        run_pos += smp["size"] if sp["f"] & 0x200 else dflt_size
                elif b["label"] == "saio" and sp["offsets"] == "auto":
                    senc = next((k for k in kids if k["label"] == "senc"), None) or \
                        next((k for k in kids if k["label"] == "uuid-piff"), None)
                    target = 0
                    if senc is not None:
                        f = _field(senc, "iv")
                        target = (f[0] if f else senc["start"] + senc["size"]) - base
                    off, _ = _field(b, "offset")
                    struct.pack_into(">Q" if sp["v"] == 1 else ">I", buf, off, target)


# ------------------------------------------------------------------- strict structure walker

def _child_offset(type_: bytes, data: bytes, pstart: int, pend: int):
    t = type_.decode("latin1")
    if t in PLAIN_CONTAINERS:
        return 0
    if t == "stsd":
        return 8
    if t in VISUAL:
        return 78
    if t in AUDIO:
        return 28
    if t == "wvtt":
        return 8
    if t == "stpp":
        p = pstart + 8
        for _ in range(3):
            e = data.find(b"\0", p, pend)
            if e < 0:
                raise BoxError(f"stpp at {pstart}: unterminated string")
            p = e + 1
        return p - pstart
    return None


def walk(data: bytes, start: int = 0, end: int | None = None, parent=None) -> list[isobox.Box]:
    """Sibling boxes that must exactly tile data[start:end]; descends into every container the library
    models.  Raises BoxError when a size field does not match or children do not fill their parent."""
    if end is None:
        end = len(data)
    out = []
    pos = start
    while pos < end:
        if end - pos < 8:
            raise BoxError(f"{end - pos} stray bytes at {pos} inside {parent!r}")
        size, type_ = struct.unpack_from(">I4s", data, pos)
        hdr = 8
        if size == 1:
            if end - pos < 16:
                raise BoxError(f"truncated largesize at {pos}")
            size = struct.unpack_from(">Q", data, pos + 8)[0]
            hdr = 16
        elif size == 0:
            if parent is not None:
                raise BoxError(f"size==0 box {type_!r} at {pos} inside {parent!r}")
            size = end - pos
        usertype = None
        if type_ == b"uuid":
            usertype = data[pos + hdr:pos + hdr + 16]
            hdr += 16
        if size < hdr or pos + size > end:
            raise BoxError(f"box {type_!r} at {pos}: size {size} does not fit [{pos},{end}) of {parent!r}")
        b = isobox.Box(type_, pos, size, hdr, data, parent, usertype)
        off = _child_offset(type_, data, pos + hdr, pos + size)
        if off is not None:
            if size - hdr < off:
                raise BoxError(f"box {type_!r} at {pos}: payload {size - hdr} shorter than its fixed part {off}")
            b.children = walk(data, pos + hdr + off, pos + size, b)
        out.append(b)
        pos += size
    return out


def form_of(b: isobox.Box) -> str:
    size = struct.unpack_from(">I", b.data, b.start)[0]
    return "64" if size == 1 else ("0" if size == 0 else "32")


def box_label(b: isobox.Box) -> str:
    if b.type == b"uuid":
        return "uuid-piff" if b.usertype and b.usertype.hex() == PIFF_UUID else "uuid"
    return b.type.decode("latin1")


def iter_boxes(boxes):
    for b in boxes:
        yield b
        yield from iter_boxes(b.children)


def _fixed(n):
    return lambda b, v, f: n


def _len_tfhd(b, v, f):
    return 4 + (8 if f & 1 else 0) + sum(4 for bit in (0x2, 0x8, 0x10, 0x20) if f & bit)


def _len_trun(b, v, f):
    n = struct.unpack_from(">I", b.data, b.start + b.hdr + 4)[0]
    return 4 + (4 if f & 1 else 0) + (4 if f & 4 else 0) + n * sum(4 for bit in (0x100, 0x200, 0x400, 0x800) if f & bit)


def _len_saiz(b, v, f):
    p = b.start + b.hdr + 4 + (8 if f & 1 else 0)
    d, n = struct.unpack_from(">BI", b.data, p)
    return (8 if f & 1 else 0) + 5 + (n if d == 0 else 0)


def _len_saio(b, v, f):
    p = b.start + b.hdr + 4 + (8 if f & 1 else 0)
    n = struct.unpack_from(">I", b.data, p)[0]
    return (8 if f & 1 else 0) + 4 + n * (8 if v == 1 else 4)


def _len_pssh(b, v, f):
    p = b.start + b.hdr + 4 + 16
    ln = 16
    if v > 0:
        n = struct.unpack_from(">I", b.data, p)[0]
        p += 4 + 16 * n
        ln += 4 + 16 * n
    return ln + 4 + struct.unpack_from(">I", b.data, p)[0]


def _len_sidx(b, v, f):
    fixed = 8 + (8 if v == 0 else 16)
    n = struct.unpack_from(">H", b.data, b.start + b.hdr + 4 + fixed + 2)[0]
    return fixed + 4 + 12 * n


# payload length after version/flags that the fields of a full box must fill exactly
FULL_LENGTHS = {
    b"mvhd": lambda b, v, f: 96 + (12 if v == 1 else 0), b"tkhd": lambda b, v, f: 80 + (12 if v == 1 else 0),
    b"mdhd": lambda b, v, f: 20 + (12 if v == 1 else 0), b"mehd": lambda b, v, f: 8 if v == 1 else 4,
    b"trex": _fixed(20), b"mfhd": _fixed(4), b"tfdt": lambda b, v, f: 8 if v == 1 else 4,
    b"tfhd": _len_tfhd, b"trun": _len_trun, b"saiz": _len_saiz, b"saio": _len_saio, b"pssh": _len_pssh,
    b"sidx": _len_sidx,
}
PLAIN_LENGTHS = {b"frma": 4, b"btrt": 12, b"pasp": 8}


def leaf_problem(b: isobox.Box) -> str | None:
    """None when the fields of a leaf box fill it exactly (for the classes whose length is implied by
    their own fields), else a description."""
    try:
        if b.type in PLAIN_LENGTHS:
            want = PLAIN_LENGTHS[b.type]
            have = b.size - b.hdr
        elif b.type in FULL_LENGTHS:
            if b.size - b.hdr < 4:
                return f"{b!r}: no room for version/flags"
            v, f = isobox.vf(b)
            want = FULL_LENGTHS[b.type](b, v, f)
            have = b.size - b.hdr - 4
        elif b.type in (b"ftyp", b"styp"):
            have = b.size - b.hdr
            want = have if (have >= 8 and have % 4 == 0) else -1
        else:
            return None
    except struct.error as exc:
        return f"{b!r}: fields run past the end of the box ({exc})"
    if want != have:
        return f"{b!r}: fields need {want} payload bytes, box has {have}"
    return None


def check_structure(data: bytes) -> tuple[list[isobox.Box] | None, str | None, str | None]:
    """(boxes, signature-fragment, detail).  signature fragment is None when sizes nest exactly and every
    leaf with self-describing length is filled exactly."""
    try:
        boxes = walk(data)
    except BoxError as exc:
        return None, "boxes-do-not-nest", str(exc)
    for b in iter_boxes(boxes):
        p = leaf_problem(b)
        if p:
            return boxes, f"{box_label(b)}/size-field!=encoded-length", p
    return boxes, None, None


def blame(orig: bytes, out: bytes, infos: list[dict] | None = None) -> list[tuple[str, str, str]]:
    """Compares the re-encoded bytes with the original box by box.
    Returns [(box label, what, detail)]: every innermost box whose own bytes differ and how."""
    try:
        a = walk(orig)
    except BoxError as exc:       # the input itself must be well-formed: harness problem
        raise AssertionError(f"input does not nest: {exc}")
    try:
        b = walk(out)
    except BoxError as exc:
        # find the box of the original at which the output stops being identical
        k = next((i for i in range(min(len(orig), len(out))) if orig[i] != out[i]), min(len(orig), len(out)))
        lab = "file"
        for x in iter_boxes(a):
            if x.start <= k < x.end:
                lab = box_label(x)
        return [(lab, "output-does-not-nest", f"first difference at byte {k} (in {lab}); {exc}")]
    res: list[tuple[str, str, str]] = []
    _blame_lists(a, b, "file", infos, res)
    if not res:
        res.append(("file", "bytes-differ", "no box-level difference found"))
    return res


def _form_name(x) -> str:
    return {"64": "largesize", "0": "size0", "32": "size32"}[form_of(x)]


def _leaf_diff(lab, x, px, py, base, infos, res):
    """px/py: the bytes to compare (whole leaf box, or the fixed part of a container); base: file offset of px[0]."""
    if px == py:
        return
    if len(px) != len(py):
        what = "re-encoded-shorter" if len(py) < len(px) else "re-encoded-longer"
    else:
        what = "bytes-differ"
    k = next((i for i in range(min(len(px), len(py))) if px[i] != py[i]), min(len(px), len(py)))
    fname = _field_at(infos, base + k) if infos else None
    if fname:
        what += "/" + fname
    res.append((lab, what, f"{x!r} first difference at offset {base + k - x.start} of the box: "
                           f"in {px[max(0, k - 8):k + 24].hex()} out {py[max(0, k - 8):k + 24].hex()} "
                           f"({len(px)} -> {len(py)} bytes)"))


POSITION_FIELDS = {("trun", "data_offset"), ("saio", "offset"), ("tfhd", "base_data_offset")}


def _blame_lists(a, b, plabel, infos, res, top=None):
    ta = [box_label(x) for x in a]
    tb = [box_label(x) for x in b]
    if ta != tb:
        if sorted(ta) == sorted(tb):
            res.append((plabel, "children-reordered", f"{ta} -> {tb}"))
        else:
            res.append((plabel, "children-differ", f"{ta} -> {tb}"))
        return
    for x, y in zip(a, b):
        if x.raw == y.raw:
            continue
        lab = box_label(x)
        if form_of(x) != form_of(y):
            res.append(("header", f"{_form_name(x)}/re-encoded-as-{_form_name(y)}",
                        f"{x!r} ({lab}) header {x.data[x.start:x.start + x.hdr].hex()} -> {y.data[y.start:y.start + y.hdr].hex()}"))
        if x.usertype != y.usertype:
            res.append((lab, "bytes-differ/usertype", f"{x!r}"))
        tx, ty = top or (x, y)
        if x.children or y.children:
            pre_x = x.data[x.start + x.hdr:(x.children[0].start if x.children else x.end)]
            pre_y = y.data[y.start + y.hdr:(y.children[0].start if y.children else y.end)]
            _leaf_diff(lab, x, pre_x, pre_y, x.start + x.hdr, infos, res)
            _blame_lists(x.children, y.children, lab, infos, res, (tx, ty))
        else:
            # compare without the size field, whose change is a consequence
            n = len(res)
            _leaf_diff(lab, x, x.data[x.start + x.hdr:x.end], y.data[y.start + y.hdr:y.end], x.start + x.hdr, infos, res)
            if len(res) > n and (tx.start != ty.start or tx.size != ty.size):
                # the fragment moved or changed size because another box was re-encoded with a different length;
                # a rewritten position-dependent field is then a consequence, not a cause
                l2, what, det = res[n]
                if (l2, what.split("/")[-1]) in POSITION_FIELDS or _is_position_field(x, y, lab):
                    res[n] = (l2, "consequence:" + what, det)


def _is_position_field(x, y, lab) -> bool:
    """without a field map (fixtures): do the two boxes differ only in their position-dependent field?"""
    try:
        if lab == "trun":
            p, q = isobox.trun(x), isobox.trun(y)
            p["data_offset"] = q["data_offset"] = None
            return p == q
        if lab == "saio":
            p, q = isobox.saio(x), isobox.saio(y)
            p["offsets"] = q["offsets"] = None
            return p == q
        if lab == "tfhd":
            p, q = isobox.tfhd(x), isobox.tfhd(y)
            p["base_data_offset"] = q["base_data_offset"] = None
            return p == q
    except Exception:
        return False
    return False


def _field_at(infos, pos):
    best = None
    for i in infos:
        if i["start"] <= pos < i["start"] + i["size"]:
            for n, off, ln in i["fields"]:
                if off <= pos < off + ln:
                    best = n
    return best


# ------------------------------------------------------------------------------ strategies

def strategies(max_frags: int = 2):
    """Returns the Hypothesis strategy of file specs: {"boxes": [...], "iv_size": int|None, "src": "io"|"br"}."""
    from hypothesis import strategies as st

    def u(bits):
        top = (1 << bits) - 1
        edge = [0, 1, top, top - 1, 1 << (bits - 1), (1 << (bits - 1)) - 1]
        if bits > 32:
            edge += [1 << 32, (1 << 32) - 1, (1 << 32) + 1]
        return st.one_of(st.sampled_from(edge), st.integers(0, top), st.integers(0, min(top, 1000)))

    small = st.integers(0, 1000)
    fourcc_s = st.text(alphabet="abcdefghijklmnopqrstuvwxyzABCDEFGHIJKLMNOPQRSTUVWXYZ0123456789 -_", min_size=4, max_size=4)
    brand = st.one_of(st.sampled_from(["isom", "iso6", "dash", "msdh", "msix", "cmfc", "mp41", "avc1", "iso5"]), fourcc_s)
    hexs = lambda lo, hi: st.binary(min_size=lo, max_size=hi).map(bytes.hex)      # noqa: E731
    ascii_s = st.text(alphabet=st.characters(min_codepoint=0x20, max_codepoint=0x7E), max_size=24)
    uri_s = st.one_of(st.sampled_from(["urn:mpeg:dash:event:2012", "urn:example:a:id3:2016", "urn:scte:scte35:2013:bin", ""]),
                      st.text(alphabet="abcdefghijklmnopqrstuvwxyz0123456789:/.-_#?=", max_size=40))
    utf8_s = st.one_of(ascii_s, st.text(alphabet=st.characters(min_codepoint=1, max_codepoint=0x2FFF,
                                                               blacklist_categories=("Cs",)), max_size=12))
    kid = hexs(16, 16)
    hdr_form = st.sampled_from(["32"] * 24 + ["64"])
    MATRIX_ID = [0x00010000, 0, 0, 0, 0x00010000, 0, 0, 0, 0x40000000]
    matrix = st.one_of(st.just(MATRIX_ID), st.lists(u(32), min_size=9, max_size=9))
    # 64-bit creation/modification times: seconds since 1904; 32-bit range always representable
    time32 = st.one_of(st.sampled_from([0, 1, 2**32 - 1, 2**31, 3786825600]), st.integers(0, 2**32 - 1))
    # one_of() with repeated branches does not give the intended odds: weight explicitly
    def rarely(k, rare, common):
        return st.integers(0, k - 1).flatmap(lambda i: rare if i == 0 else common)

    time64 = rarely(10, u(64), time32)

    def with_hdr(strategy):
        return st.tuples(strategy, hdr_form).map(lambda t: t[0] if t[1] == "32" else {**t[0], "hdr": t[1]})

    def opaque(names=("free", "skip")):
        return st.fixed_dictionaries({"t": st.just("opaque"), "fourcc": st.sampled_from(list(names)), "data": hexs(0, 24)})

    unknown_names = ["abcd", "xyz1", "ZZZZ", "a-b ", "vt01", "Priv"]
    unknown = st.fixed_dictionaries({"t": st.just("opaque"), "fourcc": st.sampled_from(unknown_names), "data": hexs(0, 40)})
    uuid_unknown = st.fixed_dictionaries({"t": st.just("uuid"), "usertype": st.one_of(
        st.sampled_from(["6d1d9b0542d544e680e2141daff757b2", "d4807ef2ca3946958e5426cb9e46a79f"]), hexs(16, 16)),
        "data": hexs(0, 32)})

    ftyp = lambda t: st.fixed_dictionaries({"t": st.just(t), "major": brand, "minor": u(32),      # noqa: E731
                                            "brands": st.lists(brand, max_size=6)})

    def vsel(p1=3):
        return st.sampled_from([0] * p1 + [1])

    @st.composite
    def mvhd(draw):
        v = draw(vsel())
        t = time64 if v == 1 else time32
        return {"t": "mvhd", "v": v, "f": 0, "creation": draw(t), "modification": draw(t), "timescale": draw(u(32)),
                "duration": draw(u(64 if v else 32)), "rate": draw(st.one_of(st.just(0x00010000), u(32))),
                "volume": draw(st.one_of(st.just(0x0100), u(16))), "matrix": draw(matrix),
                "next_track_id": draw(u(32))}

    @st.composite
    def tkhd(draw):
        v = draw(vsel())
        t = time64 if v == 1 else time32
        return {"t": "tkhd", "v": v, "f": draw(st.integers(0, 15)), "creation": draw(t), "modification": draw(t),
                "track_id": draw(u(32)), "duration": draw(u(64 if v else 32)), "layer": draw(st.one_of(st.just(0), u(16))),
                "alternate_group": draw(st.one_of(st.just(0), u(16))), "volume": draw(st.sampled_from([0, 0x0100, 0xFFFF, 0x0080])),
                "matrix": draw(matrix), "width": draw(st.one_of(st.sampled_from([0, 1920 << 16, 0xFFFFFFFF, 0x00018000]), u(32))),
                "height": draw(st.one_of(st.sampled_from([0, 1080 << 16]), u(32)))}

    lang = st.one_of(st.sampled_from(["und", "eng", "deu", "zzz", "aaa", "mul"]),
                     st.text(alphabet="abcdefghijklmnopqrstuvwxyz", min_size=3, max_size=3))

    @st.composite
    def mdhd(draw):
        v = draw(vsel())
        t = time64 if v == 1 else time32
        return {"t": "mdhd", "v": v, "f": 0, "creation": draw(t), "modification": draw(t), "timescale": draw(u(32)),
                "duration": draw(u(64 if v else 32)), "language": draw(lang)}

    hdlr = st.fixed_dictionaries({"t": st.just("hdlr"), "v": st.just(0), "f": st.just(0),
                                  "handler_type": st.sampled_from(["vide", "soun", "subt", "text", "meta", "mdir"]),
                                  "name": st.one_of(st.sampled_from(["", "VideoHandler", "USP Sound Handler"]), utf8_s)})

    @st.composite
    def mehd(draw):
        v = draw(vsel(1))
        return {"t": "mehd", "v": v, "f": 0, "fragment_duration": draw(u(64 if v else 32))}

    trex = st.fixed_dictionaries({"t": st.just("trex"), "v": st.just(0), "f": st.just(0), "track_id": u(32),
                                  "default_sample_description_index": st.one_of(st.just(1), u(32)),
                                  "default_sample_duration": u(32), "default_sample_size": u(32),
                                  "default_sample_flags": u(32)})

    @st.composite
    def pssh(draw):
        v = draw(vsel(1))
        d = {"t": "pssh", "v": v, "f": 0, "system_id": draw(st.one_of(st.sampled_from([
            "1077efecc0b24d02ace33c1e52e2fb4b", "9a04f07998404286ab92e65be0885f95", "edef8ba979d64acea3c827dcd51d21ed"]), kid)),
            "kids": draw(st.lists(kid, max_size=4)) if v else [], "data": draw(st.one_of(st.just(""), hexs(0, 40)))}
        return d

    @st.composite
    def sidx(draw):
        v = draw(vsel(1))
        ref = st.fixed_dictionaries({"type": st.integers(0, 1), "size": u(31), "duration": u(32),
                                     "starts_with_sap": st.integers(0, 1), "sap_type": st.integers(0, 7), "sap_delta": u(28)})
        return {"t": "sidx", "v": v, "f": 0, "reference_id": draw(u(32)), "timescale": draw(u(32)),
                "earliest_presentation_time": draw(u(64 if v else 32)), "first_offset": draw(u(64 if v else 32)),
                "refs": draw(st.lists(ref, max_size=4))}

    @st.composite
    def emsg(draw):
        v = draw(vsel(1))
        d = {"t": "emsg", "v": v, "f": 0, "scheme_id_uri": draw(uri_s), "value": draw(rarely(16, utf8_s, ascii_s)),
             "timescale": draw(u(32)), "event_duration": draw(u(32)), "id": draw(u(32)), "data": draw(hexs(0, 30))}
        if v == 0:
            d["presentation_time_delta"] = draw(u(32))
        else:
            d["presentation_time"] = draw(u(64))
        return d

    @st.composite
    def schm(draw, iv=8):
        f = draw(st.integers(0, 1))
        # a constant IV (per-sample IV size 0) only exists in the cbcs scheme (23001-7 10.4)
        d = {"t": "schm", "v": 0, "f": f, "scheme_type": "cbcs" if iv == 0 else draw(st.sampled_from(["cenc", "cbcs", "cbc1", "cens", "piff"])),
             "scheme_version": draw(st.one_of(st.just(0x00010000), u(32)))}
        if f:
            d["scheme_uri"] = draw(uri_s)
        return d

    @st.composite
    def tenc(draw, iv_size):
        v = draw(vsel())
        d = {"t": "tenc", "v": v, "f": 0, "is_protected": 1, "iv_size": iv_size, "kid": draw(kid)}
        if v == 1:
            d["crypt"], d["skip"] = draw(st.sampled_from([(0, 0), (1, 9), (15, 15), (10, 0)]))
        if iv_size == 0:
            d["constant_iv"] = draw(st.sampled_from([8, 16]).flatmap(lambda n: hexs(n, n)))
        return d

    btrt = st.fixed_dictionaries({"t": st.just("btrt"), "bufferSizeDB": u(32), "maxBitrate": u(32), "avgBitrate": u(32)})
    pasp = st.fixed_dictionaries({"t": st.just("pasp"), "h_spacing": u(32), "v_spacing": u(32)})
    frma = lambda fmt: st.just({"t": "frma", "data_format": fmt})      # noqa: E731
    mime = st.fixed_dictionaries({"t": st.just("mime"), "v": st.just(0), "f": st.just(0), "content_type": st.one_of(
        st.sampled_from(["application/ttml+xml;codecs=im1t|etd1", "image/png", "a", ""]),
        st.text(alphabet="abcdefghijklmnopqrstuvwxyz0123456789/+;=|.-", max_size=30))})
    vttC = st.fixed_dictionaries({"t": st.just("vttC"), "config": st.one_of(st.sampled_from(["WEBVTT", "WEBVTT - This file has cues.", ""]), utf8_s)})
    nal = hexs(1, 12)

    @st.composite
    def avcC(draw):
        prof = draw(st.sampled_from([66, 77, 88, 100, 100, 110, 122, 244]))
        d = {"t": "avcC", "profile": prof, "compat": draw(u(8)), "level": draw(st.sampled_from([10, 30, 31, 40, 51, 0, 255])),
             "length_size_minus_one": draw(st.sampled_from([3, 3, 1, 0])),
             "sps": draw(st.lists(nal, max_size=3)), "pps": draw(st.one_of(st.lists(nal, max_size=3), st.lists(nal, min_size=31, max_size=33)))}
        if prof in (100, 110, 122, 244) and draw(st.booleans()):
            d["ext"] = {"chroma_format": draw(st.integers(0, 3)), "bit_depth_luma_minus8": draw(st.integers(0, 6)),
                        "bit_depth_chroma_minus8": draw(st.integers(0, 6)), "sps_ext": draw(st.lists(nal, max_size=2))}
        return d

    @st.composite
    def hvcC(draw):
        arr = st.fixed_dictionaries({"completeness": st.integers(0, 1), "nal_unit_type": st.sampled_from([32, 33, 34, 39, 40, 0, 63]),
                                     "nalus": st.lists(nal, max_size=3)})
        return {"t": "hvcC", "profile_space": draw(st.integers(0, 3)), "tier_flag": draw(st.integers(0, 1)),
                "profile_idc": draw(st.integers(0, 31)), "compat_flags": draw(u(32)), "constraint_flags": draw(u(48)),
                "level_idc": draw(st.sampled_from([0, 93, 120, 123, 153, 255])), "min_spatial_segmentation_idc": draw(u(12)),
                "parallelism_type": draw(st.integers(0, 3)), "chroma_format_idc": draw(st.integers(0, 3)),
                "bit_depth_luma_minus8": draw(st.integers(0, 7)), "bit_depth_chroma_minus8": draw(st.integers(0, 7)),
                "avg_frame_rate": draw(u(16)), "constant_frame_rate": draw(st.integers(0, 3)),
                "num_temporal_layers": draw(st.integers(0, 7)), "temporal_id_nested": draw(st.integers(0, 1)),
                "length_size_minus_one": draw(st.sampled_from([3, 1, 0])), "arrays": draw(st.lists(arr, max_size=4))}

    @st.composite
    def esds(draw):
        ot = draw(st.sampled_from([0x40, 0x40, 0x40, 0x67, 0x6B, 0xA5, 0x69]))
        if ot == 0x40:
            aot = draw(st.sampled_from([2, 2, 2, 1, 4, 5, 29, 17]))
            fi = draw(st.sampled_from([3, 4, 6, 11, 0, 12, 15]))
            ch = draw(st.integers(0, 7))
            bits = format(aot, "05b") + format(fi, "04b")
            if fi == 15:
                bits += format(draw(u(24)), "024b")
            bits += format(ch, "04b")
            # GASpecificConfig: frameLengthFlag, dependsOnCoreCoder(0), extensionFlag(0 for these AOTs except ER ones)
            bits += format(draw(st.integers(0, 1)), "01b") + "0" + ("1" if aot == 17 else "0")
            if aot == 17:
                bits += "000" + "0"     # three resilience flags + extensionFlag3
            bits += "0" * (-len(bits) % 8)
            dsi = int(bits, 2).to_bytes(len(bits) // 8, "big").hex() + draw(st.sampled_from(["", "", "56e500", "56e5a0"]))
            if draw(st.integers(0, 19)) == 0:
                dsi += "00" * 130       # a long decoder specific info (e.g. with a program config element)
        elif ot == 0x6B:
            dsi = None
        else:
            dsi = draw(hexs(1, 8))
        d = {"t": "esds", "v": 0, "f": 0, "size_form": draw(st.sampled_from([0, 0, 0, 4, 2])), "es_id": draw(st.one_of(st.sampled_from([0, 1, 2]), u(16))),
             "stream_priority": draw(st.sampled_from([0, 0, 31, 16])), "object_type": ot,
             "stream_type": draw(st.sampled_from([5, 5, 5, 4, 0x3F])), "upstream": draw(st.sampled_from([0, 0, 0, 1])),
             "buffer_size": draw(u(24)), "max_bitrate": draw(u(32)), "avg_bitrate": draw(u(32)), "dsi": dsi}
        k = draw(st.integers(0, 15))
        if k == 0:
            d["depends_on_es_id"] = draw(u(16))
        elif k == 1:
            d["url"] = draw(st.text(alphabet="abcdefghijklmnopqrstuvwxyz:/.", max_size=20))
        elif k == 2:
            d["ocr_es_id"] = draw(u(16))
        return d

    @st.composite
    def dec3(draw):
        sub = st.fixed_dictionaries({"fscod": st.integers(0, 3), "bsid": st.sampled_from([16, 16, 11, 0, 31]), "asvc": st.integers(0, 1),
                                     "bsmod": st.integers(0, 7), "acmod": st.integers(0, 7), "lfeon": st.integers(0, 1),
                                     "num_dep_sub": st.sampled_from([0, 0, 0, 1, 15]), "chan_loc": u(9)})
        d = {"t": "dec3", "data_rate": draw(u(13)), "subs": draw(st.lists(sub, min_size=1, max_size=3))}
        if draw(st.integers(0, 3)) == 0:
            d["joc"] = {"flag": draw(st.integers(0, 1)), "complexity": draw(u(8))}
        return d

    dac3 = st.fixed_dictionaries({"t": st.just("dac3"), "fscod": st.integers(0, 3), "bsid": st.sampled_from([8, 6, 0, 31]),
                                  "bsmod": st.integers(0, 7), "acmod": st.integers(0, 7), "lfeon": st.integers(0, 1),
                                  "bit_rate_code": u(5)})

    @st.composite
    def sinf(draw, fmt, iv):
        kids = [draw(frma(fmt)), draw(schm(iv)), {"t": "schi", "c": [draw(with_hdr(tenc(iv)))]}]
        if draw(st.integers(0, 5)) == 0:
            kids.insert(draw(st.integers(1, 3)), draw(unknown))
        return {"t": "sinf", "c": kids}

    @st.composite
    def sample_entry(draw, iv):
        """iv is None for a clear track, else the per-sample IV size announced by tenc."""
        kind = draw(st.sampled_from(["avc1", "avc3", "hev1", "hvc1", "mp4a", "ec-3", "ac-3", "stpp", "wvtt"]))
        dri = draw(st.one_of(st.just(1), u(16)))
        if kind in ("avc1", "avc3", "hev1", "hvc1"):
            t = kind if iv is None else "encv"
            kids = [draw(with_hdr(avcC() if kind.startswith("avc") else hvcC()))]
            if draw(st.booleans()):
                kids.append(draw(pasp))
            if draw(st.integers(0, 3)) == 0:
                kids.append(draw(unknown))
            if iv is not None:
                kids.append(draw(sinf(kind, iv)))
            if draw(st.booleans()):
                kids.append(draw(btrt))
            name = draw(st.one_of(st.sampled_from(["", "AVC Coding", "Lavc58.134.100 libx264"]),
                                  st.text(alphabet=st.characters(min_codepoint=0x20, max_codepoint=0x7E), max_size=31)))
            return {"t": t, "data_reference_index": dri, "width": draw(st.one_of(st.sampled_from([1920, 0, 65535]), u(16))),
                    "height": draw(st.one_of(st.sampled_from([1080, 0]), u(16))),
                    "horizresolution": draw(st.one_of(st.just(0x00480000), u(32))),
                    "vertresolution": draw(st.one_of(st.just(0x00480000), u(32))),
                    "frame_count": draw(st.one_of(st.just(1), u(16))), "compressorname": name,
                    "depth": draw(st.sampled_from([0x18, 0x18, 0x20, 0xFFFF, 0])), "c": kids}
        if kind in ("mp4a", "ec-3", "ac-3"):
            t = kind if iv is None else "enca"
            cfg = {"mp4a": esds(), "ec-3": dec3(), "ac-3": dac3}[kind]
            kids = [draw(with_hdr(cfg))]
            if iv is not None:
                kids.append(draw(sinf(kind, iv)))
            if draw(st.booleans()):
                kids.append(draw(btrt))
            return {"t": t, "data_reference_index": dri, "channelcount": draw(st.sampled_from([2, 2, 1, 6, 8])),
                    "samplesize": draw(st.sampled_from([16, 16, 24, 32])),
                    "samplerate": draw(st.sampled_from([48000, 44100, 22050, 0, 65535, 1])), "c": kids}
        if kind == "stpp":
            kids = []
            if draw(st.booleans()):
                kids.append(draw(with_hdr(mime)))
            if draw(st.booleans()):
                kids.append(draw(btrt))
            return {"t": "stpp", "data_reference_index": dri,
                    "namespace": draw(st.one_of(st.sampled_from(["http://www.w3.org/ns/ttml", "http://www.w3.org/ns/ttml urn:ebu:tt:metadata"]), uri_s)),
                    "schema_location": draw(st.one_of(st.just(""), ascii_s)),
                    "auxiliary_mime_types": draw(st.one_of(st.just(""), st.just("image/png"), ascii_s)), "c": kids}
        kids = [draw(with_hdr(vttC))]
        if draw(st.booleans()):
            kids.append(draw(btrt))
        if draw(st.integers(0, 3)) == 0:
            kids.append({"t": "opaque", "fourcc": "vlab", "data": draw(hexs(0, 12))})
        return {"t": "wvtt", "data_reference_index": dri, "c": kids}

    @st.composite
    def trak(draw, iv):
        entries = draw(st.lists(sample_entry(iv), min_size=1, max_size=2))
        stbl = [{"t": "stsd", "v": 0, "f": 0, "c": entries}]
        for name in ("stts", "stsc", "stsz", "stco"):
            if draw(st.booleans()):      # empty sample tables, as in every fragmented file (opaque to the library)
                stbl.append({"t": "opaque", "fourcc": name, "data": "00000000" * (3 if name == "stsz" else 2)})
        minf = []
        if draw(st.booleans()):
            minf.append({"t": "opaque", "fourcc": draw(st.sampled_from(["vmhd", "smhd", "sthd", "nmhd"])), "data": "0000000100000000" + "00000000"})
        if draw(st.booleans()):
            minf.append({"t": "opaque", "fourcc": "dinf", "data": "0000001c6472656600000000000000010000000c75726c2000000001"})
        minf.append({"t": "stbl", "c": stbl})
        mdia = [draw(with_hdr(mdhd())), draw(with_hdr(hdlr)), {"t": "minf", "c": minf}]
        kids = [draw(with_hdr(tkhd()))]
        if draw(st.integers(0, 2)) == 0:
            kids.append({"t": "opaque", "fourcc": "edts", "data": "0000001c656c73740000000000000001000000000000000000010000"})
        kids.append({"t": "mdia", "c": mdia})
        if draw(st.integers(0, 4)) == 0:
            kids.append({"t": "udta", "c": draw(st.lists(unknown, max_size=2))})
        return {"t": "trak", "c": kids}

    @st.composite
    def moov(draw, iv):
        kids = [draw(with_hdr(mvhd()))]
        ntrak = draw(st.sampled_from([1, 1, 1, 2]))
        mvex = []
        if draw(st.booleans()):
            mvex.append(draw(with_hdr(mehd())))
        mvex += [draw(with_hdr(trex)) for _ in range(ntrak)]
        traks = [draw(trak(iv)) for _ in range(ntrak)]
        if draw(st.booleans()):
            kids += [{"t": "mvex", "c": mvex}] + traks
        else:
            kids += traks + [{"t": "mvex", "c": mvex}]
        for _ in range(draw(st.sampled_from([0, 0, 1, 2]))):
            kids.append(draw(with_hdr(pssh())))
        if draw(st.integers(0, 4)) == 0:
            kids.append({"t": "udta", "c": draw(st.lists(st.one_of(unknown, uuid_unknown), max_size=2))})
        if draw(st.integers(0, 5)) == 0:
            kids.insert(draw(st.integers(1, len(kids))), draw(opaque()))
        return {"t": "moov", "c": kids}

    sample_flags = st.sampled_from([0, 0x02000000, 0x01010000, 0xFFFFFFFF, 0x00010000])

    @st.composite
    def traf(draw, iv, layout, multi_trun, exact_sizes=False):
        n = draw(st.sampled_from([1, 2, 3, 5, 8]))
        tf = draw(st.sampled_from([0, 0x2, 0x8, 0x10, 0x20, 0x38, 0x3A])) | draw(st.sampled_from([0, 0, 0x2, 0x8, 0x10, 0x20]))
        # duration-is-empty: "there are no samples for this time interval" (8.8.7.1) - such a traf carries no runs
        empty = iv is None and not multi_trun and draw(st.integers(0, 15)) == 0
        if empty:
            tf |= 0x10000 | 0x8
            n = 0
        tfhd_s = {"t": "tfhd", "v": 0, "track_id": draw(st.one_of(st.just(1), u(32)))}
        if layout == "moof-flag":
            tf |= 0x20000
        elif layout == "explicit-moof":
            tf |= 0x1
            tfhd_s["base_data_offset"] = "auto"
        elif layout == "explicit-mdat":
            tf |= 0x1
            tfhd_s.update(base_data_offset="auto", base_at="mdat")
        elif layout == "explicit-far":
            tf |= 0x1
            tfhd_s.update(base_data_offset="auto", base_delta=draw(st.sampled_from([100000, 12345, 2**31 - 100000])))
        tfhd_s["f"] = tf
        if tf & 0x2:
            tfhd_s["sample_description_index"] = draw(st.one_of(st.just(1), u(32)))
        if tf & 0x8:
            tfhd_s["default_sample_duration"] = draw(u(32))
        if tf & 0x10:
            tfhd_s["default_sample_size"] = draw(st.integers(0, 40))
        if tf & 0x20:
            tfhd_s["default_sample_flags"] = draw(sample_flags)
        kids = [draw(with_hdr(st.just(tfhd_s)))]
        if draw(st.integers(0, 4)) != 0:
            v = draw(vsel(1))
            kids.append({"t": "tfdt", "v": v, "f": 0, "base_media_decode_time": draw(u(64 if v else 32))})
        # sample runs
        splits = [n] if n else []
        if multi_trun and n >= 2:
            k = draw(st.integers(1, n - 1))
            splits = [k, n - k]
        truns = []
        for cnt in splits:
            v = draw(vsel(1))
            f = draw(st.sampled_from([0x200, 0x300, 0x700, 0xF00, 0xB00, 0x100, 0x0, 0x800, 0xA00, 0x400]))
            if not f & 0x400 and draw(st.booleans()):      # first-sample-flags and sample-flags exclude each other (8.8.8.1)
                f |= 0x4
            if exact_sizes:
                f |= 0x200      # where one run starts depends on the sizes of the samples before it: keep them in the run
            if layout != "explicit-mdat" or truns or draw(st.booleans()):
                f |= 0x1
            smp = []
            for _ in range(cnt):
                s = {"duration": draw(st.one_of(small, u(32))), "size": draw(st.integers(0, 40)), "flags": draw(sample_flags)}
                if v == 0:
                    s["cto"] = draw(st.one_of(small, u(32)))
                else:
                    s["cto"] = draw(st.one_of(st.integers(-1000, 1000), st.sampled_from([-2**31, 2**31 - 1, -1, 0])))
                smp.append(s)
            t = {"t": "trun", "v": v, "f": f, "samples": smp}
            if f & 0x1:
                t["data_offset"] = "auto"
            if f & 0x4:
                t["first_sample_flags"] = draw(sample_flags)
            truns.append(draw(with_hdr(st.just(t))))
        enc = []
        if iv is not None:
            subs = draw(st.booleans()) or iv == 0
            entries = []
            for _ in range(n):
                e = {"iv": draw(hexs(iv, iv))}
                if subs:
                    e["subs"] = [list(x) for x in draw(st.lists(st.tuples(u(16), u(32)), max_size=draw(st.sampled_from([1, 2, 3, 0]))))]
                entries.append(e)
            sizes = [iv + (2 + 6 * len(e["subs"]) if subs else 0) for e in entries]
            sf = draw(st.integers(0, 1))
            saiz = {"t": "saiz", "v": 0, "f": sf, "sample_count": n}
            if sf:
                saiz.update(aux_info_type=draw(st.sampled_from(["cenc", "cbcs"])), aux_info_type_parameter=draw(st.sampled_from([0, 0, 1])))
            if len(set(sizes)) == 1 and draw(st.booleans()):
                saiz["default_sample_info_size"] = sizes[0]
            else:
                saiz.update(default_sample_info_size=0, sizes=sizes)
            if saiz["default_sample_info_size"] == 0 and "sizes" not in saiz:      # iv 0 without subsamples cannot happen
                saiz["sizes"] = sizes
            sv = draw(vsel(1))
            saio = {"t": "saio", "v": sv, "f": sf, "offsets": "auto"}
            if sf:
                saio.update(aux_info_type=saiz["aux_info_type"], aux_info_type_parameter=saiz["aux_info_type_parameter"])
            senc = {"t": "senc", "v": 0, "f": 2 if subs else 0, "entries": entries}
            enc = [draw(with_hdr(st.just(saiz))), draw(with_hdr(st.just(saio))), draw(with_hdr(st.just(senc)))]
            if iv in (8, 16) and draw(st.integers(0, 2)) == 0:
                pf = (2 if subs else 0) | draw(st.sampled_from([0, 0, 1]))
                piff = {"t": "uuid", "usertype": PIFF_UUID, "v": 0, "f": pf, "entries": entries}
                if pf & 1:
                    piff.update(algorithm_id=draw(st.sampled_from([1, 2, 0])), iv_size=iv, kid=draw(kid))
                enc.append(draw(with_hdr(st.just(piff))))
            enc = draw(st.permutations(enc))
        if draw(st.integers(0, 3)) == 0:
            enc = list(enc) + [{"t": "opaque", "fourcc": draw(st.sampled_from(["sbgp", "sgpd"])), "data": "00000000" + "726f6c6c" + "00000000"}]
        if draw(st.booleans()):
            kids += list(enc) + truns
        else:
            kids += truns + list(enc)
        return {"t": "traf", "c": kids}

    @st.composite
    def fragment(draw, iv):
        out = []
        if draw(st.booleans()):
            out.append(draw(with_hdr(ftyp("styp"))))
        if draw(st.booleans()):
            out.append(draw(with_hdr(sidx())))
        for _ in range(draw(st.sampled_from([0, 0, 0, 1, 2]))):
            out.append(draw(with_hdr(emsg())))
        layout = draw(st.sampled_from(["moof-flag", "moof-flag", "implicit", "explicit-moof", "explicit-mdat", "explicit-far"]))
        shape = draw(st.sampled_from(["plain"] * 6 + ["multi-trun", "multi-traf"]))
        ntraf = 2 if shape == "multi-traf" else 1
        if ntraf == 2 and layout in ("implicit", "explicit-mdat"):
            layout = "moof-flag"
        if iv is not None and layout in ("explicit-mdat", "explicit-far"):
            layout = "explicit-moof"      # saio offsets are unsigned: the base cannot lie behind the senc box
        kids = [draw(with_hdr(st.just({"t": "mfhd", "v": 0, "f": 0, "sequence_number": draw(u(32))})))]
        kids += [draw(traf(iv, layout, shape == "multi-trun", shape != "plain")) for _ in range(ntraf)]
        if draw(st.integers(0, 5)) == 0:
            kids.append(draw(with_hdr(pssh())))
        out.append({"t": "moof", "c": kids, "_layout": layout, "_shape": shape})
        total = 0
        for tr in kids:
            if tr["t"] != "traf":
                continue
            tfh = next(c for c in tr["c"] if c["t"] == "tfhd")
            for c in tr["c"]:
                if c["t"] == "trun":
                    total += sum((s["size"] if c["f"] & 0x200 else tfh.get("default_sample_size", 0)) for s in c["samples"])
        mdat = {"t": "opaque", "fourcc": "mdat", "data": bytes((i * 7 + 1) & 0xFF for i in range(min(total, 64))).hex()}
        if draw(st.integers(0, 24)) == 0:
            mdat["hdr"] = "64"
        out.append(mdat)
        return out

    @st.composite
    def file_spec(draw):
        iv = draw(st.sampled_from([None, None, 8, 8, 16, 16, 0]))
        boxes = []
        shape = draw(st.sampled_from(["init", "init+frags", "frags", "frags", "soup"]))
        has_init = shape in ("init", "init+frags")
        if iv == 0 and not has_init:
            iv = 8        # a constant-IV track is only decodable with its tenc
        if has_init:
            boxes.append(draw(with_hdr(ftyp("ftyp"))))
            if draw(st.integers(0, 3)) == 0:
                boxes.append(draw(with_hdr(opaque())))
            boxes.append(draw(moov(iv)))
        if shape in ("init+frags", "frags"):
            for _ in range(draw(st.integers(1, max_frags))):
                boxes += draw(fragment(iv))
        if shape == "soup":
            iv = None
            pool = st.one_of(with_hdr(ftyp("styp")), with_hdr(ftyp("ftyp")), with_hdr(pssh()), with_hdr(sidx()), with_hdr(emsg()),
                             with_hdr(opaque()), with_hdr(unknown), with_hdr(uuid_unknown),
                             with_hdr(opaque(("mdat",))))
            boxes += draw(st.lists(pool, min_size=2, max_size=10))
        elif draw(st.integers(0, 3)) == 0:
            boxes.append(draw(with_hdr(st.one_of(opaque(), unknown, uuid_unknown))))
        if draw(st.integers(0, 11)) == 0 and boxes[-1]["t"] not in PLAIN_CONTAINERS:
            boxes[-1] = {**boxes[-1], "hdr": "0"}
        return {"boxes": boxes, "iv_size": iv, "src": draw(st.sampled_from(["io", "br"]))}

    return file_spec()
