"""Idempotent, offline installation of the third-party packages the checks need.

Nothing is fetched from a package index: wheels come from /opt/veriftools/wheels.
Packages go into /verif/.deps (``pip --target``) so /venv itself is left untouched;
a package that /venv already provides is used from there.
"""
import importlib.util
import os
import subprocess
import sys
from pathlib import Path

VERIF = Path(__file__).resolve().parent.parent
DEPS = VERIF / ".deps"
WHEELS = "/opt/veriftools/wheels"
REPO = Path(os.environ.get("VERIF_REPO", "/repo"))
SHIMS = VERIF / "vt" / "shims"

WANTED = ["hypothesis", "jsonschema", "atheris"]


def setup_paths() -> None:
    """/repo first, /verif, .deps; the shim directory LAST so a real package wins."""
    want_front = [str(REPO), str(VERIF), str(DEPS)]
    for p in reversed(want_front):
        if p in sys.path:
            sys.path.remove(p)
        sys.path.insert(0, p)
    if str(SHIMS) in sys.path:
        sys.path.remove(str(SHIMS))
    sys.path.append(str(SHIMS))
    importlib.invalidate_caches()


def _have(mod: str) -> bool:
    try:
        return importlib.util.find_spec(mod) is not None
    except (ImportError, ValueError):
        return False


def ensure(verbose: bool = False) -> None:
    setup_paths()
    missing = [m for m in WANTED if not _have(m)]
    if not missing:
        return
    DEPS.mkdir(exist_ok=True)
    cmd = [sys.executable, "-m", "pip", "install", "--quiet", "--no-index",
           "--disable-pip-version-check", "--no-warn-script-location",
           "--find-links", WHEELS, "--target", str(DEPS)] + missing
    env = dict(os.environ, PIP_NO_INDEX="1")
    res = subprocess.run(cmd, env=env, capture_output=True, text=True)
    if verbose or res.returncode != 0:
        sys.stderr.write(res.stdout + res.stderr)
    setup_paths()
    still = [m for m in missing if not _have(m)]
    # atheris is only needed by the coverage-guided engines; its absence is
    # reported by those engines, not here.
    hard = [m for m in still if m != "atheris"]
    if hard:
        raise RuntimeError(f"cannot install {hard} from {WHEELS}: {res.stderr[-400:]}")
