#!/venv/bin/python
"""Entry point:  ./run.py <Cxx> --tier quick|thorough   |   ./run.py <Cxx> --replay <file>
                 ./run.py --setup
Exit 0 = property held on everything explored; 1 = VIOLATION line printed; 2 = harness error.
"""
import os
import sys

os.environ.setdefault("PYTHONHASHSEED", "0")
sys.path.insert(0, os.path.dirname(os.path.abspath(__file__)))
sys.dont_write_bytecode = True

from vt import deps  # noqa: E402

if __name__ == "__main__":
    try:
        deps.ensure(verbose="--setup" in sys.argv)
    except Exception as exc:  # harness error, never a violation
        print(f"HARNESS-ERROR: {exc}", file=sys.stderr)
        sys.exit(2)
    if "--setup" in sys.argv:
        print("setup ok")
        sys.exit(0)
    from vt import runner
    sys.exit(runner.main(sys.argv[1:]))
