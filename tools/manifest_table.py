"""Source of MANIFEST.json (run tools/mkmanifest.py after editing)."""
SHIMS = ("trusted base for HTTP-level parts: the four stand-in modules under vt/shims (flask_login, "
         "sqlalchemy_jsonfield, dotenv, netifaces are absent from /venv and the wheelhouse), the harness clock, "
         "lxml, python stdlib")

CHECKS = {
 "C19": dict(
    engine="enumeration + hypothesis",
    technique="exhaustive microsecond grid + Hypothesis-generated values against an exact-rational xs:duration/xs:dateTime oracle (round-trip, monotonicity)",
    text="Search, not proof. The microsecond-fraction grid x 9 whole-second parts x 3 input forms is enumerated completely in the thorough tier (27M evaluations) and on all rounding boundaries in the quick tier; magnitudes up to a century, date-times over years 2-9998 with every whole-minute offset, and (timecode, timescale) pairs are sampled with Hypothesis.",
    note="Oracle is fractions.Fraction arithmetic and a hand-written xs:duration lexer; python datetime is trusted. Tolerances: 0.5 ms (+1e-9 s float input error); one tick or one microsecond (timedelta resolution) for timecodes.",
    design_ref="DESIGN.md section 4, C19"),
 "C20": dict(
    engine="hypothesis (model-based operation sequences)",
    technique="model-based testing: generated read/peek/seek/tell sequences compared step by step with io.BytesIO over the window slice (explicit-size and open-ended windows, source with read and readinto), LRU clock driven by the case",
    text="Search, not proof: 40k (quick) to 3M (thorough) generated configurations x operation sequences of up to 40 steps over files of 0-300 position-coded bytes, so buffer boundaries, evictions and window edges are dense.",
    note="Reference model: io.BytesIO(file[offset:offset+size]). The module's time source is replaced by a case-driven sequence; underlying object is BytesIO, an unbuffered real file, or data=.",
    design_ref="DESIGN.md section 4, C20"),
 "C13": dict(
    engine="enumeration + hypothesis",
    technique="generated Range header strings (structured around 0/L-1/L/L+1/2L/2^63 and malformed) against an RFC 7233 reference classifier; differential against the unranged body",
    text="Search, not proof. The 8x8 boundary grid per range form and per URL is enumerated exhaustively; 24k (quick) to 1M (thorough) further header strings are generated. Five URLs: clear / encrypted / audio vod segment, on-demand video and text file.",
    note=SHIMS + ". Reference body = unranged GET (segments) or the stored file (on-demand route).",
    design_ref="DESIGN.md section 4, C13"),
 "C01": dict(
    engine="hypothesis (generated sessions)",
    technique="generated (stream, template, option vector, phase-controlled clock) sessions; advertised set computed from the manifest alone by an independent MPD reader with exact-rational 5.3.9.5.3 arithmetic; every member fetched at the same instant",
    text="Search, not proof: 1.2k (quick) to 40k (thorough) live sessions, each fetching the init segment of every Representation, all segments within 3 of either window edge and 12 (quick) / 400 (thorough) interior ones.",
    note=SHIMS + ". Availability model: vt/mpd.py (shares no code with dashlive).",
    design_ref="DESIGN.md section 4, C01"),
 "C02": dict(
    engine="hypothesis (generated sessions)",
    technique="generated live sessions; served segment bytes read with an independent box reader and compared with the advertised S@t/S@d/$Number$; delivered stored segment identified by payload and located by an independent scan (metamorphic: presentation time mod reference duration)",
    text="Search, not proof: 0.9k (quick) to 30k (thorough) live sessions with loop counts up to 1e7 (decode times beyond 2^32 ticks), every timeline checked for gaps over its whole length.",
    note=SHIMS + ". Box reader vt/isobox.py shares no code with dashlive. One open known finding (C02-K1, drift correction advertised but not present in the samples).",
    design_ref="DESIGN.md section 4, C02"),
 "C08": dict(
    engine="enumeration + hypothesis",
    technique="every clause of the statement asserted on DashTiming for enumerated day/month/year boundary seconds and Hypothesis-generated (now, start, depth, mup, reference) tuples, with metamorphic now -> now+delta pairs for the monotonicity clauses; rendered MPD attributes confirmed over HTTP",
    text="Search, not proof. Exhaustive over 121+1 seconds x 2 sub-second phases x 39 boundary days x 5 symbolic starts x 4 mup x 3 depths (quick and thorough alike); 50k (quick) to 3M (thorough) generated tuples over 1971-2100 with half of the mass near day/month/year boundaries; 0.8k-40k rendered manifests.",
    note="Options are parsed by the server's own option parser (accepted domain). python datetime trusted. " + SHIMS,
    design_ref="DESIGN.md section 4, C08"),
 "C06": dict(
    engine="enumeration + hypothesis",
    technique="generated (stream, static template, mode, options); every enumerated segment/range fetched in order plus the one past the end, bodies read with an independent box reader and compared with an independent scan of the stored file (differential against ground truth)",
    text="Search, not proof. Every (fixture stream, static template, mode) with three option sets is enumerated; 0.5k (quick) to 20k (thorough) further cases over fixture and synthetic streams (irregular durations, styp/sidx layouts, non-zero first decode time) and option vectors.",
    note=SHIMS + ". Two open known findings (C06-K1 surplus $Number$ at the tail, C06-K2 moof-to-moof ranges pinned by a baseline test).",
    design_ref="DESIGN.md section 4, C06"),
 "C10": dict(
    engine="enumeration + hypothesis",
    technique="enumerated (file, mode, DRM selection, PlayReady version) product; init-segment responses diffed box by box against the stored file by an independent reader; expected pssh set derived independently from the documented drm= syntax; WRMHEADER parsed with struct+lxml",
    text="Search over a finite domain: all single-system selections are enumerated in both tiers; pairs/triples of systems with per-system location subsets are sampled in quick (2.5k) and enumerated completely in thorough (about 110k requests). Files: every fixture file plus synthetic clear/encrypted tracks (16-byte IV, styp/sidx layouts).",
    note=SHIMS + ". Multi-period init route is exercised by C12.",
    design_ref="DESIGN.md section 4, C10"),
 "C03": dict(
    engine="hypothesis (generated streams, option vectors, sessions)",
    technique="generated stored-segment kinds (synthetic media written with struct) x option vectors; every served media segment walked by an independent box reader: exact nesting, payload identity against the stored file, trun/saio offsets resolved against the response bytes, senc/PIFF entry equality",
    text="Search, not proof: 0.7k/25k VOD cases (all segments of all matching representations, by number and by time) and 0.5k/20k live sessions per tier over fixture and synthetic media (8/16-byte IV, subsamples, no tfdt, explicit base offset, styp/sidx).",
    note=SHIMS + ". vt/isobox.py and vt/synth.py share no code with dashlive.",
    design_ref="DESIGN.md section 4, C03"),
 "C07": dict(
    engine="hypothesis",
    technique="round-trip of every registered option (discovered at run time) through to_string -> URL -> werkzeug -> from_string with type-directed value generators, and through the real container path (parsed options -> generate_cgi_parameters_string -> URL -> parsed options); differential: query strings of a manifest's init/media URLs re-parsed by the media route's own option parser and compared field by field with what the manifest request resolved (required-forwarding table taken from the property statement)",
    text="Search, not proof: 40k/3M generated (option, value) pairs and 1.5k/150k manifest requests per tier; enumerated choices of every option are always in the value pool.",
    note=SHIMS + ". The server's own option parser is used deliberately on the media side. One open known finding (C07-K1: licence URLs containing '+' or %-escapes are unquoted twice).",
    design_ref="DESIGN.md section 4, C07"),
 "C11": dict(
    engine="hypothesis",
    technique="differential against independent re-statements (hashlib key-seed algorithm, uuid bytes_le, own FIPS-197 AES); PlayReady Object generate -> independent struct/UTF-16/lxml parse round trip; model-based ClearKey licence requests; manifest ContentProtection payloads compared with the pssh boxes of the init segment of the same request",
    text="Search, not proof: 20k/1.5M key triples, 6k/400k PlayReady objects, 3k/200k licence requests, 0.9k/40k manifest-vs-init comparisons per tier.",
    note=SHIMS + ". vt/aes.py is checked against the FIPS-197 vectors at import of its self-test. Licence URLs with braces that are not documented format fields are outside this property's domain (their 5xx is C16's).",
    design_ref="DESIGN.md section 4, C11"),
 "C05": dict(
    engine="hypothesis",
    technique="generated (template, mode, route, options, clock, hostile stored/query/header strings); metamorphic shape invariance against the same request with benign strings, canary elements/attributes, lxml well-formedness, and a structural MPD rule set written from ISO/IEC 23009-1 (not the repository's validator)",
    text="Search, not proof: 2.4k/150k manifest pairs and 0.4k/30k patch documents per tier over every template x supported mode, single- and multi-period routes; on a not-well-formed response the responsible sink is isolated by re-requesting with one hostile string at a time.",
    note=SHIMS + ". Own application instance (stored strings are rewritten per case). One open known finding (C05-K1: manifest_h/manifest_i omit publishTime).",
    design_ref="DESIGN.md section 4, C05"),
 "C09": dict(
    engine="hypothesis",
    technique="metamorphic pairs (T1, T2=T1+delta) of live manifests expanded by the independent MPD reader; MPD patch applied with an independent RFC 5261 <replace> applier and compared with the full manifest of the same instant",
    text="Search, not proof: 1.5k/100k pairs per tier over timeline-capable templates, fixture and synthetic streams, deltas from 1 ms to 3 days in classes (< segment, < loop, < day, >= day), half of them with patches.",
    note=SHIMS + ". Two open known findings (C09-K1: first / last timeline entry can step back while the depth of a young stream is still growing; C09-K2: the C08-K1 publishTime decrease).",
    design_ref="DESIGN.md section 4, C09"),
 "C12": dict(
    engine="hypothesis",
    technique="generated multi-period definitions written into the database; manifest read by the independent MPD reader (Period tiling in exact rationals); every admitted $Number$ and the one past the end fetched and compared (payload identity, decode times) with an independent scan of the source",
    text="Search, not proof: 0.4k/15k definitions per tier (1-4 periods over fixture and synthetic streams, start/duration on and off segment boundaries, periods longer than the source, track subsets), vod and live, about 35 fetches per case.",
    note=SHIMS + ". Own application instance per process; generated definitions are deleted after each case.",
    design_ref="DESIGN.md section 4, C12"),
 "C14": dict(
    engine="hypothesis",
    technique="model-based: the schedule (start, interval, count, timescale, version, inband) is the reference model; emsg boxes collected from runs of consecutive served segments by the independent box reader and EventStream elements of the manifest are compared with it; SCTE-35 payloads decoded by an independent decoder with CRC-32/MPEG-2; library-level encode/parse/re-encode identity of generated BinarySignals cross-checked against the independent decoder",
    text="Search, not proof: 20k/1.5M generated SCTE-35 signals (every command and descriptor class the library models, field values over their full bit widths) and 0.7k/30k event-delivery sessions (vod: all segments; live: up to 40 consecutive segments ending at the newest edge, crossing loop boundaries) per tier.",
    note=SHIMS + ". vt/scte.py is self-tested against the binary examples of tests/test_scte35.py and the SCTE 35 sample section. Event indices beyond 32 bits are outside the domain (emsg id and splice_event_id are 32-bit fields).",
    design_ref="DESIGN.md section 4, C14"),
 "C04": dict(
    engine="enumeration + hypothesis",
    technique="round-trip and differential: box trees written by an independent writer (vt/isowrite.py, struct only) from generated field values; parse+encode in mode r/rw x lazy/eager, lazy-touched, self-assigned, toJSON/fromJSON, eager-vs-lazy field equality; generated edit scripts with an independent strict walker (sizes, nesting, assigned values) after every step",
    text="Search, not proof. Every fixture file, segment window and context-free nested box is enumerated (220 cases); 4k/160k generated trees over all 54 registered box classes (208 distinct class/version/flags tuples per quick run, boundary field values, 64-bit largesize and size==0 header forms, multi-run and multi-track fragments) and 2.8k/100k edit sequences per tier.",
    note="vt/isowrite.py shares no code with dashlive and is the reference for what a well-formed box is. One open known finding (C04-K1: 64-bit creation times beyond year 9999 cannot be represented).",
    design_ref="DESIGN.md section 4, C04"),
 "C18": dict(
    engine="enumeration + hypothesis",
    technique="two-sided: (accept) generated (stream, template, mode, DRM, option vector, clock) sessions of the bundled validator driven in-process through a recording HTTP adapter with an inline worker pool and a patched asyncio.sleep that advances the harness clock; oracle: terminates within a step budget and reports nothing. (detect) differential two-pass sessions with the identical clock script where exactly one response the validator really read is rewritten by an independent corruption writer (isobox/struct/lxml); oracle: >= 1 error located at the corrupted element by an lxml line-range rule independent of the validator",
    text="Search, not proof: every (template, mode) x {default, drm=all, timeline} on the bbb fixture with every corruption kind twice (54 sweep cases, both tiers); 640/30k accept sessions and 520/25k detect sessions (3 corruptions each) per tier over fixture and synthetic streams. Catalogue: tfdt shift, mfhd sequence number, trun data_offset outside mdat, saio offset, mandatory init box removed, SegmentTimeline gap/overlap, mandatory MPD attribute removed, availabilityStartTime changed across a refresh.",
    note=SHIMS + ". Sixteen open known findings (C18-K1..K16: validator gaps and false positives, five of them rooted in recorded server findings; each signature carries the context it is confined to). Not covered: multi-period routes, patch documents as corruption targets.",
    design_ref="DESIGN.md section 4, C18"),
 "C15": dict(
    engine="enumeration + hypothesis (token sequences)",
    technique="exhaustive (operation x role x authentication) matrix and route sweep against a reference authorisation table written from the property statement, state compared through raw SQL snapshots; model-based CSRF token sequences (issue / use / reuse / cross-service / cross-session / tamper / clock steps around the replay-record lifetime with intervening logins)",
    text="Search over a finite domain plus generated sequences: every one of 30 management operations x 4 roles x cookie/JWT/none and every routable rule x role is enumerated in both tiers; 1.6k/60k generated CSRF token sequences per tier.",
    note=SHIMS + ". flask_login is a stand-in (vt/shims): session-cookie authentication is the stand-in's, the permission decorators and CSRF code are the repository's.",
    design_ref="DESIGN.md section 4, C15"),
 "C16": dict(
    engine="hypothesis + atheris (libFuzzer)",
    technique="(a) generated requests over every rule of app.url_map (discovered at run time) x query strings from every registered option name with type-confused, boundary and hostile values x option bundles that only bite together (feature switch + member) x streams with missing pieces, option-consuming routes weighted by endpoint name; oracle: status < 500 unless the request asked for it, no exception reaches Flask. (b) corrupt MP4: structured mutations placed by an independent box walker, and coverage-guided raw bytes (atheris), fed to Mp4Atom.load under a deterministic read budget, a call budget (sys.monitoring) and an address-space limit, and uploaded / indexed / served through every route that reads the file. (c) error-injection request sequences against a reference counter model",
    text="Search, not proof: 40k/3M generated requests, 1.6k/300k mutated files, 16k/3.2M fuzzer executions and 1.2k/80k injection sessions per tier; anonymous and plain-user roles for (a) so that stored state stays constant, media role with database restore per case for (b).",
    note=SHIMS + ". Wall-clock watchdogs only mark a case inconclusive (counted in evidence); non-termination of the parser is decided by the read/call budgets. The async inspect-media POST cannot run here (asgiref missing).",
    design_ref="DESIGN.md section 4 C16 and sections 10.2, 10.7"),
 "C17": dict(
    engine="hypothesis (stateful histories)",
    technique="model-based histories of management API calls (explicit step lists, shrinkable) against a reference object graph; after every step the database is read through raw SQL (referential integrity, ownership of every removed row, uniqueness) and every listed stream / multi-period stream is probed over HTTP (200 or clean 4xx; uploaded+indexed files byte-exact)",
    text="Search, not proof: 640/40k histories per tier of up to 25/60 steps over streams, media files (fixture and synthetic uploads), keys and multi-period streams, with references to existing, deleted and never-existing objects.",
    note=SHIMS + ". Database snapshot/restore per case through the sqlite backup API.",
    design_ref="DESIGN.md section 4, C17"),

}

_PENDING = "not claimed (see DESIGN.md)"
NOT_APPLICABLE = {f"C{n:02d}": _PENDING for n in range(1, 21) if f"C{n:02d}" not in CHECKS}
