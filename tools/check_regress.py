#!/usr/bin/env python3
"""For every *fixed* entry of known_findings.json: check out the parent of the fix commit into a scratch
worktree (outside /repo and /verif), replay the stored case against it (VERIF_REPO) and require a violation
whose signature matches the entry; then replay against /repo and require none.  Removes the worktree."""
import json, subprocess, sys, tempfile, shutil, os, fnmatch
from pathlib import Path
V = Path("/verif")
only = set(sys.argv[1:])
ents = [e for e in json.loads((V / "known_findings.json").read_text())["findings"] if e["status"] == "fixed" and e.get("replay")]
ok = True
for e in ents:
    if only and e["id"] not in only and e["property"] not in only:
        continue
    wt = tempfile.mkdtemp(prefix="vt-wt-")
    os.rmdir(wt)
    subprocess.run(["git", "-C", "/repo", "worktree", "add", "-q", "--detach", wt, e["commit"] + "^"], check=True)
    try:
        rp = Path(wt) / ".vt-replay.json"
        rp.write_text(json.dumps({"property": e["property"], "engine": e["replay"]["engine"], "case": e["replay"]["case"]}))
        r = subprocess.run([str(V / "run.py"), e["property"], "--replay", str(rp)], capture_output=True, text=True,
                           env=dict(os.environ, VERIF_REPO=wt), cwd=V)
        sigs = [l.split("] ", 1)[1].split(": ")[0] for l in r.stdout.splitlines() if l.strip().startswith("[")]
        pats = e["signature"] if isinstance(e["signature"], list) else [e["signature"]]
        hit = any(fnmatch.fnmatchcase(s, p) for s in sigs for p in pats)
        r2 = subprocess.run([str(V / "run.py"), e["property"], "--replay", str(rp)], capture_output=True, text=True, cwd=V)
        good = r.returncode == 1 and hit and r2.returncode == 0
        ok &= good
        print(f"{e['id']}: before-fix rc={r.returncode} sigs={sigs[:3]} match={hit}; after-fix rc={r2.returncode} -> {'OK' if good else 'PROBLEM'}")
        if not good:
            print(r.stdout[-600:], r.stderr[-600:], r2.stdout[-300:])
    finally:
        subprocess.run(["git", "-C", "/repo", "worktree", "remove", "--force", wt])
        shutil.rmtree(wt, ignore_errors=True)
sys.exit(0 if ok else 1)
