#!/usr/bin/env python3
"""Regenerate MANIFEST.json from the table below (kept in one place so it stays valid)."""
import json
import sys
from pathlib import Path

VERIF = Path(__file__).resolve().parent.parent
BASELINE = ("cd /repo && /venv/bin/python -m pytest -ra -q -p no:cacheprovider --timeout=900 "
            "--continue-on-collection-errors")

# property -> (engine, technique, level text, level note, design ref)
CHECKS = {}
NOT_YET = {}

def load():
    sys.path.insert(0, str(VERIF))
    from tools import manifest_table as t
    return t.CHECKS, t.NOT_APPLICABLE

def main():
    checks, na = load()
    out = {
        "version": 1,
        "setup_cmd": "/venv/bin/python run.py --setup",
        "hooks": {
            "guard": "DASHLIVE_VERIF",
            "enable": "none required: the harness controls the clock and captures exceptions from outside the repository; no hook code exists in /repo",
            "baseline_off_cmd": BASELINE,
            "source_commits": [],
            "add_only": True,
        },
        "engines": [
            {"name": "vt", "path": "vt/", "serves_properties": sorted(checks),
             "kind_free_text": "Hypothesis strategies / rule-based state machines / exhaustive enumeration of finite sub-spaces / atheris, sharded over 16 processes, against independent oracles (vt/isobox.py, vt/mpd.py, ...)"}
        ],
        "checks": [],
        "not_applicable": [{"property_id": k, "reason": v} for k, v in sorted(na.items())],
        "notes": "Every check: ./run.py <id> --tier quick|thorough ; replay: ./run.py <id> --replay <file>. Exit 2 = harness error (never a violation). known_findings.json is read-only at run time.",
    }
    for pid in sorted(checks):
        c = checks[pid]
        out["checks"].append({
            "property_id": pid,
            "quick_cmd": f"./run.py {pid} --tier quick",
            "thorough_cmd": f"./run.py {pid} --tier thorough",
            "evidence_file": f"/verif/evidence/{pid}.json",
            "replay_cmd_template": f"./run.py {pid} --replay {{path}}",
            "engine": c["engine"],
            "technique": c["technique"],
            "level_claimed": {"category": "exploration", "text": c["text"], "design_ref": c["design_ref"]},
            "level_note": c["note"],
        })
    (VERIF / "MANIFEST.json").write_text(json.dumps(out, indent=1) + "\n")
    try:
        import jsonschema
        jsonschema.validate(out, json.loads(Path("/root/.vp/MANIFEST.schema.json").read_text()))
        print("MANIFEST.json valid:", len(out["checks"]), "checks,", len(out["not_applicable"]), "not applicable")
    except ImportError:
        print("MANIFEST.json written (jsonschema not importable here)")

if __name__ == "__main__":
    main()
