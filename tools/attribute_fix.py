#!/usr/bin/env python3
"""Attribute violation signatures that the current check finds on an OLD commit of /repo to the fix commit
that removed them.

  tools/attribute_fix.py C17 <base-commit> [--seeds 1,2,3] [--out /tmp/attr/C17.json]

1. a scratch worktree of <base-commit> (outside /repo and /verif) is checked with the quick tier at each seed
   (VERIF_REPO, VT_REPLAY_DIR, VT_NO_EVIDENCE); one replay file per signature is kept;
2. for each signature a binary search over `git rev-list --reverse base..HEAD` finds the first commit at which
   replaying the stored case no longer reports that signature (worktrees are cached per commit while the tool
   runs and all removed at the end);
3. the result (signature, fixing commit, subject, replay) is written as JSON for the maintainer of
   known_findings.json to turn into `fixed` entries; tools/check_regress.py then re-verifies every entry.

Nothing here is used by a registered check."""
import argparse, json, os, shutil, subprocess, sys
from concurrent.futures import ThreadPoolExecutor
from pathlib import Path
from threading import Lock

V = Path("/verif")
ROOT = Path("/tmp/attr")
_locks: dict[str, Lock] = {}
_glock = Lock()


def git(*a: str) -> str:
    return subprocess.run(["git", "-C", "/repo", *a], check=True, capture_output=True, text=True).stdout


def worktree(sha: str) -> Path:
    with _glock:
        lk = _locks.setdefault(sha, Lock())
    wt = ROOT / "wt" / sha[:12]
    with lk:
        if not wt.exists():
            wt.parent.mkdir(parents=True, exist_ok=True)
            git("worktree", "add", "-q", "--detach", str(wt), sha)
    return wt


def replay_sigs(prop: str, sha: str, rp: Path) -> set[str]:
    wt = worktree(sha)
    r = subprocess.run([str(V / "run.py"), prop, "--replay", str(rp)], capture_output=True, text=True, cwd=V,
                       env=dict(os.environ, VERIF_REPO=str(wt), VT_NO_EVIDENCE="1"))
    if r.returncode not in (0, 1):
        return {"<harness-error>"}
    return {l.split("] ", 1)[1].split(": ")[0] for l in r.stdout.splitlines() if l.strip().startswith("[")}


def attribute(prop: str, commits: list[str], rp: Path, sig: str):
    # commits[0] = base (has the signature); find the first index without it
    lo, hi = 0, len(commits) - 1
    if sig in replay_sigs(prop, commits[hi], rp):
        return None
    while hi - lo > 1:
        mid = (lo + hi) // 2
        if sig in replay_sigs(prop, commits[mid], rp):
            lo = mid
        else:
            hi = mid
    return commits[hi]


def main() -> int:
    ap = argparse.ArgumentParser()
    ap.add_argument("prop")
    ap.add_argument("base")
    ap.add_argument("--seeds", default="1,2")
    ap.add_argument("--out")
    a = ap.parse_args()
    base = git("rev-parse", a.base).strip()
    commits = [base] + git("rev-list", "--reverse", f"{base}..HEAD").split()
    rdir = ROOT / "replays" / a.prop
    shutil.rmtree(rdir, ignore_errors=True)
    rdir.mkdir(parents=True)
    wt = worktree(base)
    for seed in a.seeds.split(","):
        subprocess.run([str(V / "run.py"), a.prop, "--tier", "quick"], cwd=V, capture_output=True, text=True,
                       env=dict(os.environ, VERIF_REPO=str(wt), VERIF_SEED=seed, VT_NO_EVIDENCE="1",
                                VT_REPLAY_DIR=str(rdir / f"s{seed}")))
    by_sig: dict[str, Path] = {}
    for f in sorted(rdir.rglob("*.json")):
        try:
            d = json.loads(f.read_text())
        except ValueError:
            continue
        if "sig" in d and d["sig"] not in by_sig:
            by_sig[d["sig"]] = f
    print(f"{len(by_sig)} signatures on {base[:7]}", flush=True)
    out = []

    def one(item):
        sig, f = item
        d = json.loads(f.read_text())
        now = replay_sigs(a.prop, commits[0], f)
        if sig not in now:
            return {"sig": sig, "commit": None, "note": f"stored case does not reproduce it on base: {sorted(now)}", "replay": d}
        c = attribute(a.prop, commits, f, sig)
        subj = git("log", "-1", "--format=%s", c).strip() if c else "STILL PRESENT AT HEAD"
        return {"sig": sig, "commit": c[:7] if c else None, "subject": subj, "engine": d["engine"], "case": d["case"],
                "detail": d.get("detail", "")[:400]}

    with ThreadPoolExecutor(8) as ex:
        for r in ex.map(one, sorted(by_sig.items())):
            out.append(r)
            print(f"{r['sig']}  ->  {r.get('commit')}  {r.get('subject', r.get('note', ''))[:90]}", flush=True)
    dest = Path(a.out or ROOT / f"{a.prop}.json")
    dest.write_text(json.dumps(out, indent=1))
    for w in sorted((ROOT / "wt").glob("*")):
        subprocess.run(["git", "-C", "/repo", "worktree", "remove", "--force", str(w)])
    shutil.rmtree(ROOT / "wt", ignore_errors=True)
    print("written", dest)
    return 0


if __name__ == "__main__":
    sys.exit(main())
