#!/bin/bash
# One bounded pass over every thorough tier (evidence is written): HTTP- and media-heavy checks get 15 minutes,
# the pure ones 5.  The evidence of each run is also copied to thorough/<id>.json (evidence/ is rewritten by
# the next quick run).  usage: tools/thorough_pass.sh [seed]
cd /verif
export VERIF_SEED=${1:-1}
for c in C16 C05 C17 C15 C18 C01 C02 C03 C06 C12 C14 C04 C09; do
  echo "== $c $(date +%H:%M:%S)"; VT_TIME_LIMIT=${LONG:-900} ./run.py $c --tier thorough 2>&1 | grep "signature=\|^OK\|HARNESS\|^VIOLATION" | cut -c1-300 | head -20
  mkdir -p thorough; cp evidence/$c.json thorough/$c.json
done
for c in C07 C08 C10 C11 C13 C19 C20; do
  echo "== $c $(date +%H:%M:%S)"; VT_TIME_LIMIT=${SHORT:-300} ./run.py $c --tier thorough 2>&1 | grep "signature=\|^OK\|HARNESS\|^VIOLATION" | cut -c1-300 | head -20
  mkdir -p thorough; cp evidence/$c.json thorough/$c.json
done
