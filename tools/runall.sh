#!/bin/bash
# run every registered quick check once (after any change to /repo); prints one line per check
cd /verif
for c in $(python3 -c "import json;print(' '.join(x['property_id'] for x in json.load(open('MANIFEST.json'))['checks']))") "$@"; do
  out=$(VT_NO_EVIDENCE=${VT_NO_EVIDENCE:-} ./run.py $c --tier quick 2>&1); rc=$?
  echo "$c rc=$rc $(echo "$out" | grep -v KNOWN | tail -1 | cut -c1-160)"
done
