#!/usr/bin/env python3
"""Run every mutation of tools/mutations.tsv (property, file, old, new - tab separated) through tools/mut.py and write
the outcome to /verif/sensitivity.json (which check caught which hand-made mutation within the quick budget)."""
import json, subprocess, sys
from pathlib import Path
V = Path("/verif")
out = []
only = set(sys.argv[1:])
for line in (V / "tools/mutations.tsv").read_text().splitlines():
    if not line.strip():
        continue
    prop, rel, old, new = line.split("\t")
    if only and prop not in only:
        continue
    r = subprocess.run([sys.executable, str(V / "tools/mut.py"), prop, rel, old, new], capture_output=True, text=True)
    lines = [l for l in r.stdout.splitlines() if l.strip()]
    head = next((l for l in lines if l.startswith("MUTANT")), "")
    rc = int(head.split("rc=")[1].split()[0]) if "rc=" in head else None
    sigs = [l.strip() for l in lines if l.strip().startswith("signature=")]
    out.append({"property": prop, "file": rel, "old": old.strip(), "new": new.strip(),
                "verdict": "caught" if rc == 1 else "missed" if rc == 0 else "error", "signatures": [s[:200] for s in sigs[:3]]})
    print(prop, out[-1]["verdict"], sigs[:1], flush=True)
dest = V / "sensitivity.json"
old = json.loads(dest.read_text()) if dest.exists() else []
key = lambda e: (e["property"], e["file"], e["old"], e["new"])
merged = {key(e): e for e in old}
merged.update({key(e): e for e in out})
dest.write_text(json.dumps(sorted(merged.values(), key=key), indent=1))
