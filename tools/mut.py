#!/usr/bin/env python3
"""Sensitivity helper: apply one textual mutation to /repo's working tree, run a check, revert.
usage: tools/mut.py <Cxx> <repo-relative-file> <old> <new> [--engine name] [--tier quick]
Never commits; always restores the file (git checkout) afterwards."""
import subprocess, sys, time
from pathlib import Path
prop, rel, old, new = sys.argv[1:5]
extra = sys.argv[5:]
p = Path("/repo") / rel
src = p.read_text()
if src.count(old) < 1:
    sys.exit(f"pattern not found in {rel}")
assert subprocess.run(["git", "-C", "/repo", "status", "--porcelain", "--untracked-files=no"], capture_output=True, text=True).stdout.strip() == "", "repo dirty"
p.write_text(src.replace(old, new, 1))
t = time.time()
try:
    r = subprocess.run(["/verif/run.py", prop] + (extra or ["--tier", "quick"]), capture_output=True, text=True, cwd="/verif")
finally:
    subprocess.run(["git", "-C", "/repo", "checkout", "--", rel], check=True)
viol = [l for l in r.stdout.splitlines() if l.startswith("VIOLATION")]
print(f"MUTANT {rel}: {old!r} -> {new!r}: rc={r.returncode} violations={len(viol)} in {time.time()-t:.0f}s")
for l in r.stdout.splitlines()[:6]:
    print("   ", l[:300])
if r.returncode == 2:
    print(r.stderr[-1500:])
print("CAUGHT" if r.returncode == 1 else "MISSED")
