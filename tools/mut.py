#!/usr/bin/env python3
"""Sensitivity helper: copy /repo's HEAD into a scratch worktree (outside /repo and /verif), apply one
textual mutation (or a patch file) there, run a check against it via VERIF_REPO, remove the worktree.
usage: tools/mut.py <Cxx> <repo-relative-file> <old> <new> [run.py args...]
       tools/mut.py <Cxx> --patch <file.diff> [run.py args...]
/repo itself is never touched."""
import os, shutil, subprocess, sys, tempfile, time
from pathlib import Path
prop = sys.argv[1]
wt = tempfile.mkdtemp(prefix="vt-mut-")
os.rmdir(wt)
subprocess.run(["git", "-C", "/repo", "worktree", "add", "-q", "--detach", wt, "HEAD"], check=True)
try:
    if sys.argv[2] == "--patch":
        patch = os.path.abspath(sys.argv[3])
        extra = sys.argv[4:]
        subprocess.run(["git", "-C", wt, "apply", patch], check=True)
        label = patch
    else:
        rel, old, new = sys.argv[2:5]
        extra = sys.argv[5:]
        p = Path(wt) / rel
        src = p.read_text()
        if src.count(old) < 1:
            sys.exit(f"pattern not found in {rel}")
        p.write_text(src.replace(old, new, 1))
        label = f"{rel}: {old!r} -> {new!r}"
    t = time.time()
    r = subprocess.run(["/verif/run.py", prop] + (extra or ["--tier", "quick"]), capture_output=True, text=True,
                       cwd="/verif", env=dict(os.environ, VERIF_REPO=wt, VT_NO_EVIDENCE="1"))
finally:
    subprocess.run(["git", "-C", "/repo", "worktree", "remove", "--force", wt])
    shutil.rmtree(wt, ignore_errors=True)
viol = [l for l in r.stdout.splitlines() if l.startswith("VIOLATION")]
sigs = [l.strip()[:260] for l in r.stdout.splitlines() if l.strip().startswith("signature=")]
print(f"MUTANT {label}: rc={r.returncode} violations={len(viol)} in {time.time()-t:.0f}s")
for l in sigs[:4]:
    print("   ", l)
if r.returncode == 2:
    print(r.stderr[-1500:])
print("CAUGHT" if r.returncode == 1 else "MISSED")
