#!/usr/bin/env python3
"""Re-validate the stored seeded changes (/verif/seeded/<id>/{patch.diff,demo.py,meta.json}) against the CURRENT /repo
HEAD: scratch worktree -> git apply --3way -> pinned suite (87 passed) -> demo on the patched tree (must fail) and on
/repo (must pass) -> quick check with VERIF_REPO=<patched tree> (must report a violation).  Records the result under
"rechecked" in meta.json.  usage: tools/seed_recheck.py [Cxx ...]"""
import json, os, shutil, subprocess, sys, tempfile, time
from pathlib import Path
ids = sys.argv[1:] or sorted(p.name for p in Path("/verif/seeded").iterdir() if p.is_dir())
head = subprocess.run(["git", "-C", "/repo", "rev-parse", "--short", "HEAD"], capture_output=True, text=True).stdout.strip()
summary = {}
for pid in ids:
    src = Path("/verif/seeded") / pid
    wt = tempfile.mkdtemp(prefix="vt-seed-"); os.rmdir(wt)
    subprocess.run(["git", "-C", "/repo", "worktree", "add", "-q", "--detach", wt, "HEAD"], check=True)
    res = {"repo_head": head}
    try:
        ap = subprocess.run(["git", "-C", wt, "apply", "--3way", str(src / "patch.diff")], capture_output=True, text=True)
        conflict = subprocess.run(["git", "-C", wt, "diff", "--name-only", "--diff-filter=U"], capture_output=True, text=True).stdout.strip()
        if ap.returncode != 0 or conflict:
            res["apply"] = f"does not apply cleanly: {(ap.stderr or conflict)[:200]}"
            print(pid, "PATCH DOES NOT APPLY", res["apply"])
        else:
            t = subprocess.run(["/venv/bin/python", "-m", "pytest", "-q", "-p", "no:cacheprovider", "--continue-on-collection-errors", "tests"],
                               cwd=wt, capture_output=True, text=True)
            res["suite"] = t.stdout.strip().splitlines()[-1]
            env = dict(os.environ, PYTHONDONTWRITEBYTECODE="1")
            d1 = subprocess.run(["/venv/bin/python", str(src / "demo.py"), wt], capture_output=True, text=True, cwd="/tmp", env=env)
            d0 = subprocess.run(["/venv/bin/python", str(src / "demo.py"), "/repo"], capture_output=True, text=True, cwd="/tmp", env=env)
            res["demo_patched_rc"], res["demo_pristine_rc"] = d1.returncode, d0.returncode
            t0 = time.time()
            r = subprocess.run(["/verif/run.py", pid.split("-")[0], "--tier", "quick"], capture_output=True, text=True, cwd="/verif",
                               env=dict(os.environ, VERIF_REPO=wt, VT_NO_EVIDENCE="1", VT_REPLAY_DIR=tempfile.gettempdir() + "/vt-seed-replays"))
            sigs = [l.strip()[:160] for l in r.stdout.splitlines() if l.strip().startswith("signature=")]
            res["check"] = {"rc": r.returncode, "signatures": sigs[:4], "wall_s": round(time.time() - t0)}
            verdict = "CAUGHT" if r.returncode == 1 else "MISSED" if r.returncode == 0 else "HARNESS-ERROR"
            print(f"{pid}: suite {res['suite'][:40]} | demo patched rc={d1.returncode} pristine rc={d0.returncode} | check {verdict} {sigs[:1]}")
    finally:
        subprocess.run(["git", "-C", "/repo", "worktree", "remove", "--force", wt], capture_output=True)
        shutil.rmtree(wt, ignore_errors=True)
    meta = json.loads((src / "meta.json").read_text())
    meta["rechecked"] = res
    (src / "meta.json").write_text(json.dumps(meta, indent=1))
    summary[pid] = res
shutil.rmtree(tempfile.gettempdir() + "/vt-seed-replays", ignore_errors=True)
