#!/usr/bin/env python3
"""Turn the output of tools/attribute_fix.py (/tmp/attr/<PROP>.json) into `fixed` entries of known_findings.json:
one entry per fix commit, with every signature it removed and the first stored case as replay.  Signatures that an
existing entry of the property already lists are skipped.  Run tools/check_regress.py <PROP> afterwards."""
import json, subprocess, collections, sys, fnmatch
prop = sys.argv[1]
base = sys.argv[2] if len(sys.argv) > 2 else None
kf = json.load(open('/verif/known_findings.json'))
F = kf['findings']
have = [p for f in F if f['property'] == prop for p in (f['signature'] if isinstance(f['signature'], list) else [f['signature']])]
items = json.load(open(f'/tmp/attr/{prop}.json'))
groups = collections.OrderedDict()
for it in items:
    if any(fnmatch.fnmatchcase(it['sig'], p) for p in have):
        continue
    if not it.get('commit'):
        print('UNATTRIBUTED', it['sig'], it.get('note', it.get('subject')))
        continue
    groups.setdefault(it['commit'], []).append(it)
order = subprocess.run(['git', '-C', '/repo', 'rev-list', '--reverse', '--abbrev-commit', '--abbrev=7', 'HEAD'], capture_output=True, text=True).stdout.split()
n = len([f for f in F if f['property'] == prop and f['status'] == 'fixed'])
for c in sorted(groups, key=lambda x: order.index(x) if x in order else 10**6):
    its = groups[c]
    subj = subprocess.run(['git', '-C', '/repo', 'log', '-1', '--format=%s', c], capture_output=True, text=True).stdout.strip()
    what = (subj[5:] if subj.startswith('fix: ') else subj) + ' — before: ' + its[0]['detail'][:220]
    n += 1
    e = {'id': f'{prop}-F{n}', 'property': prop, 'status': 'fixed', 'commit': c, 'signature': sorted(i['sig'] for i in its),
         'what': what, 'replay': {'engine': its[0]['engine'], 'case': its[0]['case']}}
    e['record'] = f"fixed: property={prop} {c} {what}"
    F.append(e)
    print(e['id'], c, e['signature'])
json.dump(kf, open('/verif/known_findings.json', 'w'), indent=1)
