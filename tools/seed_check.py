#!/usr/bin/env python3
"""Validate a seeded change delivered under /tmp/seed/out/<id>/ and run the registered check(s) against it.
usage: tools/seed_check.py <Cxx> [check ids to run, default the same property] [--keep]
Steps: scratch worktree of /repo HEAD -> git apply patch.diff -> repo test suite (must be 87 passed) -> demo.py on the
patched tree (must exit != 0) and on /repo (must exit 0) -> ./run.py <check> --tier quick with VERIF_REPO=<patched tree>.
Copies patch.diff, demo.py, meta.json to /verif/seeded/<Cxx>/ and records what was run in meta.json."""
import json, os, shutil, subprocess, sys, tempfile, time
from pathlib import Path
pid = sys.argv[1]
checks = [a for a in sys.argv[2:] if not a.startswith("--")] or [pid.split("-")[0]]
src = Path(f"/tmp/seed/out/{pid}")
wt = tempfile.mkdtemp(prefix="vt-seed-"); os.rmdir(wt)
subprocess.run(["git", "-C", "/repo", "worktree", "add", "-q", "--detach", wt, "HEAD"], check=True)
res = {}
try:
    ap = subprocess.run(["git", "-C", wt, "apply", "--3way", str(src / "patch.diff")], capture_output=True, text=True)
    if ap.returncode != 0:
        ap = subprocess.run(["git", "-C", wt, "apply", str(src / "patch.diff")], capture_output=True, text=True)
    res["apply"] = ap.returncode
    if ap.returncode != 0:
        print("PATCH DOES NOT APPLY to current /repo HEAD:", ap.stderr[:500]); sys.exit(3)
    t = subprocess.run(["/venv/bin/python", "-m", "pytest", "-q", "-p", "no:cacheprovider", "--continue-on-collection-errors", "tests"],
                       cwd=wt, capture_output=True, text=True)
    res["suite"] = t.stdout.strip().splitlines()[-1]
    d1 = subprocess.run(["/venv/bin/python", str(src / "demo.py"), wt], capture_output=True, text=True, cwd="/tmp")
    d0 = subprocess.run(["/venv/bin/python", str(src / "demo.py"), "/repo"], capture_output=True, text=True, cwd="/tmp")
    res["demo_patched_rc"], res["demo_pristine_rc"] = d1.returncode, d0.returncode
    res["demo_patched_tail"] = (d1.stdout + d1.stderr)[-300:]
    print(f"suite: {res['suite']} | demo patched rc={d1.returncode} pristine rc={d0.returncode}")
    res["checks"] = {}
    for c in checks:
        t0 = time.time()
        r = subprocess.run(["/verif/run.py", c, "--tier", "quick"], capture_output=True, text=True, cwd="/verif",
                           env=dict(os.environ, VERIF_REPO=wt, VT_NO_EVIDENCE="1", VT_REPLAY_DIR=tempfile.gettempdir() + "/vt-seed-replays"))
        sigs = [l.strip()[:200] for l in r.stdout.splitlines() if l.strip().startswith("signature=")]
        res["checks"][c] = {"rc": r.returncode, "signatures": sigs[:6], "wall_s": round(time.time() - t0)}
        print(f"check {c}: rc={r.returncode} {'CAUGHT' if r.returncode == 1 else 'MISSED' if r.returncode == 0 else 'HARNESS-ERROR'} in {time.time()-t0:.0f}s")
        for s in sigs[:4]:
            print("   ", s)
        if r.returncode == 2:
            print(r.stderr[-800:])
finally:
    subprocess.run(["git", "-C", "/repo", "worktree", "remove", "--force", wt])
    shutil.rmtree(wt, ignore_errors=True)
ok = "87 passed" in res.get("suite", "") and res.get("demo_patched_rc") not in (0, None) and res.get("demo_pristine_rc") == 0
dest = Path(f"/verif/seeded/{pid}")
if ok:
    dest.mkdir(parents=True, exist_ok=True)
    for f in ("patch.diff", "demo.py"):
        shutil.copy(src / f, dest / f)
    meta = json.loads((src / "meta.json").read_text()) if (src / "meta.json").exists() else {}
    meta["confirmed_by_verifier"] = {"suite": res["suite"], "demo_on_patched_tree_rc": res["demo_patched_rc"],
                                     "demo_on_pristine_tree_rc": res["demo_pristine_rc"], "checks": res["checks"],
                                     "repo_head": subprocess.run(["git", "-C", "/repo", "rev-parse", "--short", "HEAD"], capture_output=True, text=True).stdout.strip()}
    (dest / "meta.json").write_text(json.dumps(meta, indent=1))
    print("stored in", dest)
else:
    print("NOT CONFIRMED:", json.dumps(res)[:600])
